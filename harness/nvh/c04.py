"""C04 — symbolic derivatives equal the true derivatives.

(X) `Generated/C04.lean` is regenerated on every run: every `Pointwise.deriv` entry found by introspection is APPLIED
    to scalar evaluable Arguments and the resulting evaluable tree is serialised into the scalar language `SE`
    (plus the derivative trees of reciprocal / negative / sqrt / abs / divide / power); `Props/C04.lean` proves over ℝ
    (Mathlib) that every claimed entry is the true partial derivative (`derivTable_sound`).
(V) for generated expressions `e` the REAL tree `evaluable.derivative(e, x)` (un-simplified and simplified; also the
    derivative of the derivative) is serialised and evaluated by the Lean specification semantics; the driver
    `Drivers/C04.lean` compares every entry with the formal partial derivative (`Model/C04.lean: pderiv`) of the
    symbolic value of `e`: equal normal forms = equal for all real values of x.
(M) one minimal instance per node class that defines `_derivative`, same check; the per-class hit table (counted by
    wrapping the real `_derivative` methods) is printed in the evidence.
(F) factor stream: evaluable.factor / function.factor of random polynomials in arguments of 0..4 axes with pairwise different lengths; the
    derivative trees of the factored form (Monomial._derivative, first and mixed second derivatives) are evaluated by the real code and compared
    with the exact Jacobian of the polynomial (sparse polynomial arithmetic over Fractions, `SP`).
Candidates are confirmed on the real code (real evaluation of the derivative tree + 6-point central finite
differences of the real `eval_once` at dyadic points) before they are reported as failing inputs.
"""
import base64, pickle, json, collections, functools, inspect, itertools, math, os, select, subprocess, time
from fractions import Fraction
import numpy
from nutils import evaluable as ev, function, types
from . import genexpr, ser, shrink, polykey, exprcheck as X
from .common import Infra, LEAN

# ------------------------------------------------------------------------------------------------ (X) extraction

FN_NAME = {'Sin': 'sin', 'Cos': 'cos', 'Tan': 'tan', 'ArcSin': 'arcsin', 'ArcCos': 'arccos', 'ArcTan': 'arctan', 'Exp': 'exp', 'Log': 'log',
           'SinH': 'sinh', 'CosH': 'cosh', 'TanH': 'tanh', 'ArcTanH': 'arctanh', 'ArcTan2': 'arctan2', 'Minimum': 'min', 'Maximum': 'max',
           'Sign': 'sign', 'Absolute': 'abs', 'Reciprocal': 'inv', 'FloorDivide': 'fdiv', 'Mod': 'fmod'}


class NotScalarLanguage(Exception):
    pass


def rat_lean(x):
    f = Fraction(x)
    return '.const (%d) %d' % (f.numerator, f.denominator)


def to_se(e):
    """scalar evaluable tree over Arguments x0, x1 -> SE term (Lean syntax)"""
    cls, args = e.__reduce__()
    n = cls.__name__
    if n == 'Argument':
        if not (args[0].startswith('x') and args[0][1:].isdigit()): raise NotScalarLanguage('argument ' + args[0])
        return '.var %s' % args[0][1:]
    if e.ndim != 0:
        raise NotScalarLanguage('not 0-d: ' + n)
    if n == 'Constant':
        v = numpy.asarray(args[0]).reshape(())[()]
        if isinstance(v, (complex, numpy.complexfloating)): raise NotScalarLanguage('complex')
        return rat_lean(float(v) if isinstance(v, (float, numpy.floating)) else int(v))
    if n == 'Zeros':
        return '.const (0) 1'
    if n in ('IntToFloat', 'BoolToInt'):
        return to_se(args[0])
    if n in ('Add', 'Multiply'):
        ops = sorted(to_se(a) for a in args[0])
        if len(ops) != 2: raise NotScalarLanguage(n + ' arity')
        return '(%s (%s) (%s))' % ('.add' if n == 'Add' else '.mul', ops[0], ops[1])
    if n == 'Power':
        return '(.pow (%s) (%s))' % (to_se(args[0]), to_se(args[1]))
    if n == 'Sinc':
        return '(.app1 "sinc%d" (%s))' % (args[1], to_se(args[0]))
    fn = FN_NAME.get(n)
    if fn is not None and len(args) == 1:
        return '(.app1 "%s" (%s))' % (fn, to_se(args[0]))
    if fn is not None and len(args) == 2:
        return '(.app2 "%s" (%s) (%s))' % (fn, to_se(args[0]), to_se(args[1]))
    raise NotScalarLanguage(n)


def all_subclasses(c):
    out = []
    for s in c.__subclasses__():
        out.append(s); out += all_subclasses(s)
    return out


def pointwise_with_deriv():
    seen, out = set(), []
    for cls in sorted(all_subclasses(ev.Pointwise), key=lambda c: c.__name__):
        if cls in seen or cls.deriv is None: continue
        seen.add(cls); out.append(cls)
    return out


def scalar_args(n):
    return [ev.Argument('x%d' % i, (), float) for i in range(n)]


def derived_ops():
    """(name, arity, constructor on scalar arguments): array functions whose derivative goes through the generic rules
    (Power._derivative both branches, Multiply._derivative, Add._derivative, Argument._derivative)"""
    return [('reciprocal', 1, lambda x: ev.reciprocal(x)), ('negative', 1, lambda x: ev.negative(x)), ('sqrt', 1, lambda x: ev.sqrt(x)),
            ('abs', 1, lambda x: ev.abs(x)), ('power:3', 1, lambda x: ev.power(x, ev.constant(3.))), ('power:5/2', 1, lambda x: ev.power(x, ev.constant(2.5))),
            ('power:-2', 1, lambda x: ev.power(x, ev.constant(-2.))), ('divide', 2, lambda x, y: ev.divide(x, y)), ('subtract', 2, lambda x, y: ev.subtract(x, y)),
            ('powvar', 2, lambda x, y: ev.Power(x, y))]


def extract_table():
    """rows (name, arity, pos, fn SE, deriv SE | None, note, class) from the REAL code"""
    rows = []
    for cls in pointwise_with_deriv():
        nargs = len(cls.deriv)
        params = [p.default for p in list(inspect.signature(cls).parameters.values())[nargs:]]
        xs = scalar_args(nargs)
        try:
            inst = cls(*xs, *params)
            fn = to_se(inst)
        except Exception as ex:
            rows.append((cls.__name__, nargs, 0, None, None, 'cannot instantiate: %r' % ex, cls.__name__)); continue
        name = FN_NAME.get(cls.__name__) or ('sinc%d' % inst.n if cls.__name__ == 'Sinc' else cls.__name__.lower())
        for i, d in enumerate(cls.deriv):
            try:
                tree = d(*inst.dependencies, *inst.parameters)
                rows.append((name, nargs, i, fn, to_se(ev.asarray(tree)), None, cls.__name__))
            except NotScalarLanguage as ex:
                rows.append((name, nargs, i, fn, None, 'outside SE: %s' % ex, cls.__name__))
    for name, n, mk in derived_ops():
        xs = scalar_args(n)
        op = mk(*xs)
        for i in range(n):
            try:
                rows.append((name, n, i, to_se(op), to_se(ev.derivative(op, xs[i])), None, 'derived'))
            except (NotScalarLanguage, NotImplementedError) as ex:
                rows.append((name, n, i, None, None, 'outside SE: %r' % ex, 'derived'))
    return rows


def generated_text(rows):
    lines = ['import NutilsVerif.Model.C04',
             '/-! GENERATED on every run by harness/nvh/c04.py from the running nutils source: every `Pointwise.deriv` entry applied to scalar',
             'Arguments and the derivative trees of the derived scalar operations, serialised into `SE` — do not edit. -/',
             'namespace NutilsVerif.C04.Generated', 'open NutilsVerif.C04', '',
             '/-- (function name, arity, position, the function, the derivative tree the code produces) -/', 'def table : List Entry := [']
    ents = ['  ⟨"%s", %d, %d, %s, %s⟩' % (name, n, i, fn, d) for name, n, i, fn, d, note, cls in rows if d is not None]
    lines.append(',\n'.join(ents))
    lines += [']', '', '/-- entries of the code that could not be expressed in `SE` (not claimed) -/',
              'def outside : List (String × Nat) := [' + ', '.join('("%s", %d)' % (name, i) for name, n, i, fn, d, note, cls in rows if d is None) + ']', '',
              'end NutilsVerif.C04.Generated', '']
    return '\n'.join(lines)


# ------------------------------------------------------------------------------------------------ instrumentation

HITS = collections.Counter()        # defining class of the `_derivative` rule that ran
HITS_CONCRETE = collections.Counter()  # concrete node class it ran on


def derivative_classes():
    import nutils.function
    classes = {ev.Array, *all_subclasses(ev.Array)}
    return sorted((c for c in classes if '_derivative' in c.__dict__), key=lambda c: c.__name__)


def install_hit_counters():
    for cls in derivative_classes():
        orig = cls.__dict__['_derivative']
        if getattr(orig, '_c04_counter', False):
            continue
        def make(orig, cls):
            @functools.wraps(orig)
            def counted(self, var, seen):
                HITS[cls.__name__] += 1
                HITS_CONCRETE[type(self).__name__] += 1
                return orig(self, var, seen)
            counted._c04_counter = True
            return counted
        setattr(cls, '_derivative', make(orig, cls))


# ------------------------------------------------------------------------------------------------ real code: evaluation and finite differences

STENCIL = ((-3, -1/60), (-2, 3/20), (-1, -3/4), (1, 3/4), (2, -3/20), (3, 1/60))


def fd_jacobian(e, args, wrt, h):
    """6-point central finite differences of the REAL eval_once w.r.t. every entry of args[wrt]; None when an evaluation fails"""
    x0 = numpy.asarray(args[wrt], dtype=float)
    cols = []
    for j in numpy.ndindex(*x0.shape):
        acc = 0.
        for k, w in STENCIL:
            x = x0.copy(); x[j] += k * h
            kind, v = X.real_eval(e, dict(args, **{wrt: x}))
            if kind != 'ok':
                return None
            acc = acc + w * numpy.asarray(v, dtype=float)
        cols.append(acc / h)
    eshape = cols[0].shape if cols else tuple(int(n) for n in e.shape)
    J = numpy.zeros(eshape + x0.shape)
    for j, col in zip(numpy.ndindex(*x0.shape), cols):
        J[(Ellipsis,) + j] = col
    return J


def rel_close(a, b, rtol):
    a, b = numpy.asarray(a, dtype=float), numpy.asarray(b, dtype=float)
    if a.shape != b.shape:
        return False
    scale = max(1., float(numpy.abs(a).max(initial=0.)), float(numpy.abs(b).max(initial=0.)))
    return bool((numpy.abs(a - b) <= rtol * scale).all())


def fd_verdict(e, dval, args, wrt):
    """'agree' | 'disagree' | 'unreliable': the real derivative value against finite differences of the real expression"""
    J1 = fd_jacobian(e, args, wrt, 2.**-6)
    J2 = fd_jacobian(e, args, wrt, 2.**-7)
    if J1 is None or J2 is None or not rel_close(J1, J2, 1e-7):
        return 'unreliable', J1
    if numpy.asarray(dval).shape != J1.shape:
        return 'disagree', J1
    return ('agree' if rel_close(dval, J1, 1e-6) else 'disagree'), J1


def pack(e, args):
    try:
        return base64.b64encode(pickle.dumps((e, args))).decode()
    except Exception as ex:
        return 'unpicklable: %r' % ex


def keys_to_array(res, env=None):
    """numeric reading of a Lean result (supporting comparisons only)"""
    vals = [polykey.to_float(k, env) for k in res['data']]
    return numpy.array(vals, dtype=float).reshape(res['shape'])


# ------------------------------------------------------------------------------------------------ cases

class Case:
    def __init__(self, stream, label, e, wrt, args, ds, e_real=None, presubst=False, symbolic=(), jacpt=False, note=None, fd=True, alt_e=None):
        self.stream, self.label = stream, label
        self.e = e                    # the tree Lean differentiates formally
        self.e_real = e if e_real is None else e_real   # the tree the real code differentiated (may contain nodes outside the Lean fragment)
        self.wrt, self.args, self.ds = wrt, args, ds    # ds: [(tag, tree)]
        self.presubst, self.symbolic, self.jacpt, self.note, self.fd = presubst, tuple(symbolic), jacpt, note, fd
        self.alt_e = alt_e   # an equivalent (simplified) form of e to use when e itself is undefined at the point (0·log(negative) artefacts of un-simplified trees)

    def request(self):
        sym = {self.wrt: numpy.asarray(self.args[self.wrt]).shape}
        for k in self.symbolic:
            sym[k] = numpy.asarray(self.args[k]).shape
        conc = {k: v for k, v in self.args.items() if k not in sym}
        line, s = ser.request([self.e] + [d for _, d in self.ds], conc, symbolic=sym)
        j = json.loads(line)
        j['wrt'] = self.wrt
        j['point'] = ser.array_json(numpy.asarray(self.args[self.wrt], dtype=float))['data']
        j['presubst'] = self.presubst
        j['jacpt'] = self.jacpt
        j['others'] = {k: ser.array_json(numpy.asarray(self.args[k], dtype=float))['data'] for k in self.symbolic}
        return json.dumps(j, separators=(',', ':'))


def safe_derivative(e, var, timeout=30):
    return X.guarded(lambda: ev.derivative(e, var), timeout)


def raising_rule(exc):
    """class (and dtype) of the innermost node whose `_derivative` rule was running when the exception was raised"""
    tb, found = getattr(exc, '__traceback__', None), None
    while tb is not None:
        f = tb.tb_frame
        if f.f_code.co_name in ('_derivative', 'counted') and isinstance(f.f_locals.get('self'), ev.Array):
            node = f.f_locals['self']
            try:
                found = '%s:%s' % (type(node).__name__, node.dtype.__name__)
            except Exception:
                found = type(node).__name__
        tb = tb.tb_next
    return found


def safe_simplified(e, timeout=20):
    return X.guarded(lambda: e.simplified, timeout)


def float_argument_names(e):
    return sorted(a.name for a in e.arguments if isinstance(a, ev.Argument) and a.dtype == float)


def find_argument(e, name):
    for a in e.arguments:
        if isinstance(a, ev.Argument) and a.name == name:
            return a
    return None


MAX_ENTRIES = 300
RAISED_KNOWN = set()   # signatures of known findings hit by derivative_case


def static_size(e):
    try:
        return int(numpy.prod([int(n) for n in e.shape], dtype=int))
    except Exception:
        return 10**9


def derivative_case(c, stream, label, e, wrt, args, second=True, outcome=None, e_lean=None, of_simplified=False, max_entries=None, **kw):
    """build the Case(s) for expression e and argument name wrt using the REAL derivative; returns list of Case"""
    var = find_argument(e, wrt)
    if var is None:
        shape = numpy.asarray(args[wrt]).shape
        var = ev.Argument(wrt, tuple(ev.constant(n) for n in shape), float)
    kind, d = safe_derivative(e, var)
    if kind != 'ok':
        tag = 'derivative-%s:%s' % (kind, type(d).__name__ if d is not None else '')
        if outcome is not None: outcome[tag] += 1
        if kind == 'exception' and isinstance(d, NotImplementedError):
            return []
        # any other exception / hang on a well-formed differentiable expression: the derivative does not exist as a tree
        c.case(('raises', stream, label))
        sig = 'derivative-raises:%s:%s' % (type(d).__name__ if d is not None else 'hang', (raising_rule(d) if d is not None else None) or shrink.skeleton(e) or type(e).__name__)
        if c.match_known(sig) is not None: RAISED_KNOWN.add(sig)
        c.failing_input(sig, 'evaluable.derivative raises %r on a well-formed expression' % (d,), dict(stream=stream, label=label, expr=X.describe(e, args), wrt=wrt, pickled=pack(e, args)))
        return []
    xsize = int(numpy.asarray(args[wrt]).size)
    if static_size(e) * xsize > (max_entries or MAX_ENTRIES):
        if outcome is not None: outcome['skipped-too-many-jacobian-entries'] += 1
        return []
    ds = [('raw', d)]
    k2, s = safe_simplified(d)
    if k2 == 'ok' and s is not d:
        ds.append(('simplified', s))
    elif k2 != 'ok' and outcome is not None:
        outcome['derivative-simplify-' + k2] += 1
    if of_simplified and e_lean is None:
        # the rules applied to the simplified form of the same expression
        k5, es = safe_simplified(e)
        if k5 == 'ok' and es is not e:
            var2 = find_argument(es, wrt)
            if var2 is not None:
                k6, d3 = safe_derivative(es, var2)
                if k6 == 'ok':
                    ds.append(('of-simplified-expression', d3))
                elif outcome is not None:
                    outcome['derivative-of-simplified-%s:%s' % (k6, type(d3).__name__)] += 1
    cases = [Case(stream, label, e if e_lean is None else e_lean, wrt, args, ds, e_real=e, **kw)]
    if second and e_lean is None:
        names = float_argument_names(d)
        names = [nm for nm in names if nm in args and static_size(d) * int(numpy.asarray(args[nm]).size) <= MAX_ENTRIES]
        if names:
            w2 = c.rng.choice(names)
            k3, dd = safe_derivative(d, find_argument(d, w2))
            if k3 == 'ok':
                ds2 = [('raw', dd)]
                k4, s2 = safe_simplified(dd)
                if k4 == 'ok' and s2 is not dd:
                    ds2.append(('simplified', s2))
                cases.append(Case(stream, label + '/second', d, w2, args, ds2, alt_e=(s if k2 == 'ok' and s is not d else None), **kw))
            elif outcome is not None:
                outcome['second-derivative-%s' % k3] += 1
    return cases


def tree_size(e):
    return len(shrink.all_nodes(e))



class LeanSession:
    """persistent `Drivers/C04.lean` process with a per-request time limit: a request whose symbolic evaluation explodes
    (e.g. inverse of a 3x3 matrix of long polynomials) is abandoned and decided numerically instead"""

    def __init__(self, driver='C04'):
        self.driver = driver
        self.p = None
        self.restarts = 0

    def start(self):
        self.p = subprocess.Popen(['lake', 'env', 'lean', '--run', os.path.join('Drivers', self.driver + '.lean')], cwd=LEAN,
                                  stdin=subprocess.PIPE, stdout=subprocess.PIPE, stderr=subprocess.PIPE, text=True, bufsize=1,
                                  start_new_session=True)   # own process group: `lake env` spawns lean as a child

    def stop(self):
        if self.p is not None:
            try:
                import signal
                os.killpg(self.p.pid, signal.SIGKILL)   # kill lake AND the lean child
            except Exception:
                pass
            try:
                self.p.kill(); self.p.wait(10)
            except Exception:
                pass
            self.p = None

    def ask(self, line, timeout):
        """answer line, or None when the time limit was exceeded (the process is then restarted lazily)"""
        assert '\n' not in line
        if self.p is None:
            self.start()
        try:
            self.p.stdin.write(line + '\n'); self.p.stdin.flush()
        except BrokenPipeError:
            err = self.p.stderr.read()[-1500:] if self.p.stderr else ''
            self.stop()
            raise Infra('lean driver %s died: %s' % (self.driver, err))
        # the first request also pays for the start of the interpreter
        deadline = time.time() + timeout + (60 if self.restarts == 0 and not getattr(self, 'warm', False) else 15)
        buf = []
        while True:
            left = deadline - time.time()
            if left <= 0:
                self.stop(); self.restarts += 1
                return None
            r, _, _ = select.select([self.p.stdout], [], [], min(left, 5))
            if r:
                out = self.p.stdout.readline()
                if out == '':
                    err = self.p.stderr.read()[-1500:]
                    self.stop()
                    raise Infra('lean driver %s exited unexpectedly: %s' % (self.driver, err))
                self.warm = True
                return out.rstrip('\n')
            if self.p.poll() is not None:
                err = self.p.stderr.read()[-1500:]
                self.stop()
                raise Infra('lean driver %s exited unexpectedly: %s' % (self.driver, err))


class Judge:
    """runs a batch of cases through the Lean driver and turns the answers into verdicts"""

    def __init__(self, c):
        self.c = c
        self.outcome = collections.Counter()
        self.by_stream = collections.defaultdict(collections.Counter)
        self.nspec = self.nspec_bad = 0
        self.nsym = self.npoint = self.nnum = 0
        self.spec_classes = collections.Counter()
        self.session = LeanSession()
        self.known_hit = set()

    def run(self, cases, maxnodes=900):
        c = self.c
        todo, reqs = [], []
        for case in cases:
            try:
                if sum(tree_size(t) for t in [case.e] + [d for _, d in case.ds]) > maxnodes:
                    self.outcome['skipped-too-large'] += 1
                    continue
                reqs.append(case.request()); todo.append(case)
            except ValueError as ex:
                self.outcome['not-serialisable'] += 1
        limit = 20 if c.tier == 'quick' else 45
        for case, req in zip(todo, reqs):
            a = self.session.ask(req, limit)
            if a is None:
                # symbolic evaluation too expensive: no Lean verdict for this case
                self.count(case, 'lean-time-limit')
                c.case(('timeout', case.stream, case.label, case.wrt))
                if case.fd: self.numeric_fallback(case, 'time limit')
                continue
            if a.startswith('bad-request'):
                raise Infra('C04 driver rejected a request: %s' % a[:300])
            a = json.loads(a)
            if a.get('error', '').startswith('undefined') and case.alt_e is not None:
                # the un-simplified first derivative is undefined here (0·log of a negative number); differentiate its simplified form formally instead
                alt = Case(case.stream, case.label + '[e simplified]', case.alt_e, case.wrt, case.args, case.ds, e_real=case.e_real, presubst=case.presubst, symbolic=case.symbolic, jacpt=case.jacpt, fd=case.fd)
                try:
                    b = self.session.ask(alt.request(), limit)
                except ValueError:
                    b = None
                if b is not None and not b.startswith('bad-request'):
                    self.count(case, 'retried-with-simplified-e')
                    alt.e_real = case.e_real
                    self.judge(alt, json.loads(b), lean_e_is_real=False)
                    continue
            self.judge(case, a)

    # ---- helpers
    def fail(self, sig, what, replay):
        if self.c.match_known(sig) is not None:
            self.known_hit.add(sig)
        return self.c.failing_input(sig, what, replay)

    def real(self, e, args):
        return X.real_eval(e, args)

    def count(self, case, tag):
        self.outcome[tag] += 1
        self.by_stream[case.stream][tag] += 1

    def numeric_fallback(self, case, why):
        """no Lean verdict: decide numerically on the real code (real derivative value vs finite differences of the real expression)"""
        c = self.c
        for tag, d in case.ds:
            kd, dv = self.real(d, case.args)
            if kd != 'ok':
                self.count(case, 'numeric:derivative-not-evaluable:' + kd); continue
            v, J = fd_verdict(case.e_real, dv, case.args, case.wrt)
            self.count(case, 'numeric:%s(%s)' % (v, why))
            if v == 'agree':
                self.nnum += 1
            elif v == 'disagree':
                self.report(case, tag, d, dv, J, 'finite differences of the real expression (Lean could not decide: %s)' % why)

    def report(self, case, tag, d, dv, expected, how):
        c = self.c
        wrt = case.wrt
        def fails(e2, a2):
            if wrt not in a2: return False
            var = find_argument(e2, wrt)
            if var is None: return False
            k, d2 = safe_derivative(e2, var, 10)
            if k != 'ok': return False
            if tag == 'simplified':
                k, d2 = safe_simplified(d2, 10)
                if k != 'ok': return False
            if tag == 'of-simplified-expression':
                k, es = safe_simplified(e2, 10)
                if k != 'ok' or find_argument(es, wrt) is None: return False
                k, d2 = safe_derivative(es, find_argument(es, wrt), 10)
                if k != 'ok': return False
            k, v2 = X.real_eval(d2, a2)
            if k != 'ok': return False
            return fd_verdict(e2, v2, a2, wrt)[0] == 'disagree'
        small, sargs = case.e_real, case.args
        try:
            if case.e_real is case.e and fails(case.e_real, case.args):
                small, sargs = shrink.shrink(case.e_real, case.args, fails, budget=40)
        except Exception:
            pass
        sig = 'derivative-wrong:%s%s' % (shrink.skeleton(small) or type(small).__name__, (':%s-only' % tag) if tag != 'raw' and getattr(case, 'raw_ok', False) else '')
        self.fail(sig, 'derivative tree (%s) of %s w.r.t. %s differs from the true Jacobian; decided by %s' % (tag, case.label, wrt, how),
                        dict(stream=case.stream, label=case.label, wrt=wrt, which=tag, expr=X.describe(small, sargs), pickled=pack(small, sargs),
                             original=X.describe(case.e_real, case.args), real_derivative=numpy.asarray(dv).tolist() if dv is not None else None,
                             expected=numpy.asarray(expected).tolist() if expected is not None else None))
        self.count(case, 'VIOLATION')

    # ---- the verdict for one case
    def judge(self, case, a, lean_e_is_real=True):
        c = self.c
        key = (case.stream, case.label, case.wrt, tuple(getattr(d, '__nutils_hash__', id(d)) for _, d in case.ds))
        nontrivial = any(not isinstance(d, ev.Zeros) for _, d in case.ds)
        c.case(key, nontrivial=nontrivial)
        if len(c.samples) < 5 and nontrivial and tree_size(case.e) < 25:
            c.sample(dict(stream=case.stream, label=case.label, wrt=case.wrt, expr=X.describe(case.e, case.args)['tree'], derivative_nodes=tree_size(case.ds[0][1])))
        if 'error' in a:
            self.count(case, 'lean-cannot-evaluate-e:' + a['error'].split(':')[0])
            if a['error'].startswith('illformed') and not a['error'].startswith('illformed:non-integer'):
                self.count(case, 'lean-e-illformed:' + a['error'][:60])
            if case.fd: self.numeric_fallback(case, 'e ' + a['error'].split(':')[0])
            return
        if not a['roundtrip']:
            c.broken_no_input('corr:parseKey-roundtrip', 'Poly.parseKey does not invert Poly.key on a value of the evaluator', dict(label=case.label, expr=X.describe(case.e, case.args)))
        # spec-eval correspondence: Lean value of e and of every derivative tree at the point vs the real evaluation
        if case.e_real is case.e and not case.presubst and lean_e_is_real:
            ke, ve = self.real(case.e, case.args)
            if ke == 'ok':
                self.spec_eval(case, 'e', case.e, a['e'], ve)
        real_d = []
        for (tag, d), res in zip(case.ds, a['d']):
            kd, dv = self.real(d, {k: v for k, v in case.args.items() if not (case.presubst and k == case.wrt)})
            real_d.append((kd, dv))
            if kd == 'ok':
                self.spec_eval(case, 'd:' + tag, d, res, dv)
        for (tag, d), chk, (kd, dv) in zip(case.ds, a['checks'], real_d):
            if not chk['shape']:
                # the shape clause: derivative shape must be e.shape ++ x.shape
                self.count(case, 'shape-wrong')
                self.report(case, tag, d, dv, None, 'shape of the derivative tree: ' + chk.get('what', ''))
                continue
            sym, pt = chk['sym'], chk['pt']
            if sym in ('same', 'same-modinv'):
                self.count(case, 'proved-symbolically' + ('-modinv' if sym == 'same-modinv' else '') + ':' + tag); self.nsym += 1
                if tag == 'raw': case.raw_ok = True
                continue
            if sym == 'error' or pt in ('error', 'unknown'):
                # Lean cannot evaluate this derivative tree (class outside the fragment) or cannot differentiate an atom: use the oracle at the point
                self.oracle_vs_real(case, tag, d, kd, dv, a, chk)
                continue
            if pt == 'same':
                self.count(case, 'equal-at-sample-point:' + tag); self.npoint += 1
                if tag == 'raw': case.raw_ok = True
                continue
            if pt == 'undefined' and tag != 'raw' and 'data' in (a.get('jacpt') or {}) and not case.presubst:
                # the (simplified) derivative tree is undefined at a point where the formal Jacobian exists
                self.undefined_where_differentiable(case, tag, d, kd, dv, a)
                continue
            if pt in ('kink', 'undefined'):
                self.count(case, 'dropped-' + pt + ':' + tag)
                continue
            assert pt == 'differ', chk
            # exact normal forms differ at the point: transcendental atoms may still agree numerically
            try:
                close = all(polykey.close(polykey.to_float(x), polykey.to_float(y), rtol=1e-9, atol=1e-11) for _, x, y in chk['diffs'])
            except (KeyError, ValueError, OverflowError, ZeroDivisionError):
                close = None
            if close:
                self.count(case, 'close-at-sample-point:' + tag); self.npoint += 1
                continue
            if close is None:
                self.oracle_vs_real(case, tag, d, kd, dv, a, chk)
                continue
            # candidate: confirm on the real code
            self.confirm(case, tag, d, kd, dv, a, chk)

    def undefined_where_differentiable(self, case, tag, d, kd, dv, a):
        try:
            Jl = keys_to_array(a['jacpt'])
        except (KeyError, ValueError, OverflowError, ZeroDivisionError):
            self.count(case, 'dropped-undefined:' + tag); return
        if kd == 'ok':
            # the real evaluation is finite although the spec says undefined: compare with the oracle
            if rel_close(dv, Jl, 1e-9):
                self.count(case, 'real-derivative-equals-lean-jacobian-at-point:' + tag); self.nnum += 1
            else:
                self.count(case, 'dropped-undefined:' + tag)
            return
        v, Jfd = fd_verdict(case.e_real, numpy.zeros(Jl.shape), case.args, case.wrt) if case.fd else ('unreliable', None)
        if Jfd is None or v == 'unreliable' or not rel_close(Jfd, Jl, 1e-6):
            self.count(case, 'dropped-undefined(fd does not confirm differentiability):' + tag); return
        self.count(case, 'derivative-undefined-where-differentiable')
        cls = sorted({type(n).__name__ for n in shrink.all_nodes(case.e_real)} & {'Determinant', 'Inverse', 'Power', 'Log', 'Orthonormal'}) or [shrink.skeleton(case.e_real)]
        self.fail('derivative-undefined-where-differentiable:' + '+'.join(cls), 'the derivative tree (%s) of %s is NaN/undefined at a point where the expression is differentiable (finite differences and the formal Jacobian agree)' % (tag, case.label),
                             dict(stream=case.stream, label=case.label, wrt=case.wrt, which=tag, expr=X.describe(case.e_real, case.args), pickled=pack(case.e_real, case.args), expected=Jl.tolist(), real_derivative=repr(dv)))

    def spec_eval(self, case, what, tree, res, real_value):
        m = X.compare_result(res, real_value)
        self.outcome['spec-eval:' + m] += 1
        if m in ('exact', 'close'):
            self.nspec += 1; self.c.traces += 1
        elif m in ('shape', 'value') or m == 'error:illformed':
            if m == 'error:illformed' and 'non-integer' in res.get('what', ''):
                return
            if m == 'value' and any('arctan2(0,-' in k or 'arctan2(0,0)' in k for k in res['data']):
                self.outcome['spec-eval:on-branch-cut-of-arctan2'] += 1   # signed zero decides the side in floating point
                return
            self.nspec_bad += 1
            self.c.broken_no_input('corr:spec-eval', 'Lean specification evaluator and real evaluation disagree (%s) on %s of %s' % (m, what, case.label),
                                   dict(expr=X.describe(tree, case.args), pickled=pack(tree, case.args), lean=res, real=numpy.asarray(real_value).tolist()))

    def oracle_vs_real(self, case, tag, d, kd, dv, a, chk):
        """compare the REAL evaluation of the derivative tree with Lean's formal Jacobian at the point (numeric reading)"""
        jp = a.get('jacpt')
        if kd != 'ok':
            self.count(case, 'derivative-not-evaluable:' + str(kd)); return
        if not jp or 'error' in jp:
            self.count(case, 'oracle-unavailable:' + (jp or {}).get('error', 'none'))
            if case.fd and (jp or {}).get('error') not in ('kink', 'undefined'):
                v, J = fd_verdict(case.e_real, dv, case.args, case.wrt)
                self.count(case, 'numeric:' + v)
                if v == 'agree': self.nnum += 1
                elif v == 'disagree': self.report(case, tag, d, dv, J, 'finite differences of the real expression')
            return
        try:
            J = keys_to_array(jp)
        except (KeyError, ValueError, OverflowError, ZeroDivisionError):
            self.count(case, 'oracle-not-numeric'); return
        if rel_close(dv, J, 1e-9):
            self.count(case, 'real-derivative-equals-lean-jacobian-at-point:' + tag); self.nnum += 1
        else:
            v, Jfd = fd_verdict(case.e_real, dv, case.args, case.wrt) if case.fd else ('unreliable', None)
            self.count(case, 'candidate(oracle):fd-' + v)
            if v == 'agree':
                self.c.broken_no_input('corr:spec-derivative', 'Lean formal Jacobian differs from the real derivative value, but finite differences of the real code agree with the real derivative',
                                       dict(label=case.label, expr=X.describe(case.e, case.args), lean_jacobian=J.tolist(), real=numpy.asarray(dv).tolist()))
            else:
                self.report(case, tag, d, dv, J, 'the formal Jacobian of the specification semantics at the sample point' + (' and finite differences' if v == 'disagree' else ''))

    def confirm(self, case, tag, d, kd, dv, a, chk):
        c = self.c
        if case.presubst or kd != 'ok':
            # virtual target / not evaluable: the Lean verdict stands on the spec semantics; report with what we have
            self.count(case, 'candidate:lean-only')
            self.report(case, tag, d, dv, None, 'exact comparison in Lean at the sample point: ' + json.dumps(chk.get('diffs', [])[:3]))
            return
        v, J = fd_verdict(case.e_real, dv, case.args, case.wrt) if case.fd else ('unreliable', None)
        self.count(case, 'candidate:fd-' + v)
        if v == 'agree':
            c.broken_no_input('corr:spec-derivative', 'Lean says the derivative tree differs from the formal Jacobian at the sample point, but finite differences of the real code agree with the real derivative value',
                              dict(label=case.label, expr=X.describe(case.e, case.args), diffs=chk.get('diffs', [])[:5], real=numpy.asarray(dv).tolist()))
        else:
            self.report(case, tag, d, dv, J, 'exact comparison in Lean at the sample point' + (', confirmed by 6-point finite differences of the real eval_once' if v == 'disagree' else ' (finite differences unreliable here)'))


# ------------------------------------------------------------------------------------------------ generator (float expressions that the code can differentiate)

def fconst(shape, v):
    return ev.Constant(types.arraydata(numpy.full(shape, float(v))))


class DGen(genexpr.Gen):
    """nvh.genexpr with the non-differentiable raw nodes (Negative / Absolute / Reciprocal have no derivative rule in the code)
    replaced by the forms the library itself builds, plus the transcendental operations and Power with a non-constant exponent"""

    RAW_SHARE = .08

    def ops_for(self, dtype, shape):
        ops = super().ops_for(dtype, shape)
        if dtype != bool:
            ops = [('NegativeF' if o == 'Negative' else 'AbsF' if o == 'Absolute' else o) for o in ops]
        if dtype == float:
            ops = [('ReciprocalF' if o == 'Reciprocal' else o) for o in ops]
            ops += ['PowerVar', 'PowerVar', 'LogPos', 'ArcTan2', 'ArcBounded', 'Divide', 'SqrtPos', 'Sinc', 'PolyvalDep', 'PolyvalDep', 'Trig']
            if self.rng.random() < self.RAW_SHARE:
                ops += ['Negative', 'Absolute', 'Reciprocal']
        if self.allow is not None:
            ops = [o for o in ops if o in self.allow or o == 'leaf']
        return ops

    def positive(self, shape, depth):
        f = self.array(float, shape, depth-1)
        return ev.Add(types.frozenmultiset([ev.abs(f), fconst(shape, self.rng.choice([.5, 1., 2.]))]))

    def mk_NegativeF(self, dtype, shape, depth):
        return ev.negative(self.array(dtype, shape, depth-1))

    def mk_AbsF(self, dtype, shape, depth):
        return ev.abs(self.array(dtype, shape, depth-1))

    def mk_ReciprocalF(self, dtype, shape, depth):
        return ev.reciprocal(self.positive(shape, depth))

    def mk_PowerVar(self, dtype, shape, depth):
        return ev.Power(self.positive(shape, depth), self.array(float, shape, depth-1))

    def mk_LogPos(self, dtype, shape, depth):
        return ev.Log(self.positive(shape, depth))

    def mk_SqrtPos(self, dtype, shape, depth):
        return ev.sqrt(self.positive(shape, depth))

    def mk_ArcTan2(self, dtype, shape, depth):
        return ev.ArcTan2(self.array(float, shape, depth-1), self.positive(shape, depth) if self.rng.random() < .5 else self.array(float, shape, depth-1))

    def mk_ArcBounded(self, dtype, shape, depth):
        cls = self.rng.choice([ev.ArcSin, ev.ArcCos, ev.ArcTanH])
        inner = ev.Multiply(types.frozenmultiset([ev.Sin(self.array(float, shape, depth-1)), fconst(shape, .5)]))
        return cls(inner)

    def mk_Divide(self, dtype, shape, depth):
        return ev.divide(self.array(float, shape, depth-1), self.positive(shape, depth))

    def mk_Sinc(self, dtype, shape, depth):
        return ev.Sinc(self.array(float, shape, depth-1), self.rng.choice([0, 1]))

    def mk_PolyvalDep(self, dtype, shape, depth):
        # coefficients AND points share an argument-dependent subterm
        k = self.rng.randint(0, len(shape))
        nv = self.rng.choice([1, 1, 2]); p = self.rng.choice([1, 2, 3])
        coeffs = self.array(float, shape[k:] + (self._ncoeffs(nv, p),), depth-1)
        points = self.array(float, shape[:k] + (nv,), depth-1)
        return ev.Polyval(coeffs, points)


def random_float_case(rng, depth, **kw):
    g = DGen(rng, **kw)
    nd = rng.choice([0, 0, 1, 1, 2, 2, 3])
    shape = tuple(rng.choice([1, 2, 2, 3, 3, 0]) for _ in range(nd))
    dtype = rng.choice([float] * 9 + [int, bool])
    e = g.array(dtype, shape, depth)
    return e, g


# ------------------------------------------------------------------------------------------------ streams

def stream_random(c, J, n, maxdepth):
    cases = []
    tries = 0
    while len(cases) < n and tries < 6 * n:
        tries += 1
        depth = c.rng.choice(range(1, maxdepth+1))
        try:
            e, g = random_float_case(c.rng, depth)
        except Exception as ex:
            J.outcome['generator-exception:' + type(ex).__name__] += 1; continue
        names = [k for k in float_argument_names(e) if k in g.args]
        if not names:
            continue
        ke, ve = X.real_eval(e, g.args)
        if ke != 'ok':
            J.outcome['original-' + ke] += 1; continue
        for k, v in g.hits.items(): c.count('gen:' + k, v)
        c.rng.shuffle(names)
        # derivative w.r.t. one of several arguments: up to two different arguments of the same expression in the same process
        for wrt in names[:2]:
            cases += derivative_case(c, 'random', 'e%d' % tries, e, wrt, g.args, second=(e.dtype == float and c.rng.random() < .6), outcome=J.outcome, of_simplified=c.rng.random() < .5)
        if c.rng.random() < .1:
            # an argument that does not occur: the derivative must be identically zero, of the right shape
            args = dict(g.args, zz=numpy.array([.5, -1.]))
            cases += derivative_case(c, 'random-absent-argument', 'e%d' % tries, e, 'zz', args, second=False, outcome=J.outcome)
    return cases


def A(name, *shape, dtype=float):
    return ev.Argument(name, tuple(ev.constant(n) for n in shape), dtype)


def dyadic(rng, shape, lo=-8, hi=8, den=(2., 4.)):
    r = numpy.random.default_rng(rng.getrandbits(32))
    return r.integers(lo, hi+1, shape) / rng.choice(list(den))


def orthonormal_spec(G, v):
    """the array meaning of Orthonormal(G, v) written with operations of the Lean fragment (Orthonormal.evalf)"""
    GG = ev.einsum('Aki,Akj->Aij', G, G)
    v1 = ev.einsum('Aij,Ai->Aj', G, v)
    v2 = ev.einsum('Aij,Aj->Ai', ev.inverse(GG), v1)
    v3 = ev.einsum('Aij,Aj->Ai', G, v2)
    w = v - v3
    nrm = ev.Power(ev.Sum(w * w), fconst(tuple(int(n) for n in w.shape[:-1]), -.5))
    return w * ev.insertaxis(nrm, w.ndim-1, w.shape[-1])


def class_instances(rng, heavy=True):
    """(class whose rule is targeted, label, expression, args, wrt[, e_lean]) — minimal instances on opaque Arguments"""
    x3, y3 = A('x', 3), A('y', 3)
    X23, M = A('X', 2, 3), A('M', 2, 2)
    N3 = A('N', 3, 3)
    i3 = ev.Constant(types.arraydata(numpy.array([2, 0, 2])))
    iarg = ev.InRange(A('k', 2, dtype=int), ev.constant(3))
    val = lambda *shape: dyadic(rng, shape)
    args = dict(x=val(3), y=val(3), X=val(2, 3), M=numpy.array([[2., .5], [-.25, 1.5]]) + val(2, 2) / 8, N=numpy.diag([2., 3., 1.5]) + val(3, 3) / 8, k=numpy.array([2, 1]))
    mul = lambda a, b: ev.Multiply(types.frozenmultiset([a, b]))
    add = lambda a, b: ev.Add(types.frozenmultiset([a, b]))
    li = ev.loop_index('i', ev.constant(3))
    lj = ev.loop_index('j', ev.constant(2))
    out = [
        ('Argument', 'x', x3, 'x'),
        ('Argument', 'X', X23, 'X'),
        ('InsertAxis', 'InsertAxis(sin x)', ev.InsertAxis(ev.Sin(x3), ev.constant(2)), 'x'),
        ('Transpose', 'Transpose(X²)', ev.Transpose(mul(X23, X23), (1, 0)), 'X'),
        ('Product', 'Product(X)', ev.Product(X23), 'X'),
        ('Product', 'Product(x·y)', ev.Product(mul(x3, y3)), 'x'),
        ('Inverse', 'Inverse(M)', ev.Inverse(M), 'M'),
        ('Inverse', 'Inverse(N)', ev.Inverse(N3), 'N'),
        ('Determinant', 'Determinant(M)', ev.Determinant(M), 'M'),
        ('Determinant', 'Determinant(N)', ev.Determinant(N3), 'N'),
        ('Multiply', 'x·sin(x)', mul(x3, ev.Sin(x3)), 'x'),
        ('Multiply', 'x·y', mul(x3, y3), 'y'),
        ('Add', 'x+x²', add(x3, mul(x3, x3)), 'x'),
        ('Sum', 'Sum(X²)', ev.Sum(mul(X23, X23)), 'X'),
        ('TakeDiag', 'TakeDiag(N·N)', ev.TakeDiag(mul(N3, N3)), 'N'),
        ('Take', 'Take(x², const)', ev.Take(mul(x3, x3), i3), 'x'),
        ('Take', 'Take(X², arg)', ev.Take(mul(X23, X23), iarg), 'X'),
        ('Power', 'x^3', ev.Power(x3, fconst((3,), 3)), 'x'),
        ('Power', 'x^0', ev.Power(x3, fconst((3,), 0)), 'x'),
        ('Power', 'x^1', ev.Power(x3, fconst((3,), 1)), 'x'),
        ('Power', '(1+x²)^(-3/2)', ev.Power(add(fconst((3,), 1), mul(x3, x3)), fconst((3,), -1.5)), 'x'),
        ('Power', '(1+x²)^y', ev.Power(add(fconst((3,), 1), mul(x3, x3)), y3), 'x'),
        ('Power', '(1+x²)^y wrt y', ev.Power(add(fconst((3,), 1), mul(x3, x3)), y3), 'y'),
        ('Power', '(1+y²)^(x·y)', ev.Power(add(fconst((3,), 1), mul(y3, y3)), mul(x3, y3)), 'y'),
        ('IntToFloat', 'IntToFloat(k)·x', mul(ev.InsertAxis(ev.IntToFloat(ev.Sum(A('k', 2, dtype=int))), ev.constant(3)), x3), 'x'),
        ('IntToFloat', 'IntToFloat(x > y)·x', mul(ev.IntToFloat(ev.BoolToInt(ev.Greater(x3, y3))), x3), 'x'),
        ('Sign', 'Sign(x)·x', mul(ev.Sign(x3), x3), 'x'),
        ('Inflate', 'Inflate(x², [2,0,2], 4)', ev.Inflate(mul(x3, x3), i3, ev.constant(4)), 'x'),
        ('Inflate', 'Inflate(X², 2-d dofmap)', ev.Inflate(mul(X23, X23), ev.Constant(types.arraydata(numpy.array([[0, 1, 1], [3, 0, 1]]))), ev.constant(4)), 'X'),
        ('Diagonalize', 'Diagonalize(sin x)', ev.Diagonalize(ev.Sin(x3)), 'x'),
        ('Guard', 'Guard(x²)', ev.Guard(mul(x3, x3)), 'x'),
        ('Ravel', 'Ravel(X²)', ev.Ravel(mul(X23, X23)), 'X'),
        ('Unravel', 'Unravel(Ravel X · 2)', ev.Unravel(ev.Ravel(mul(X23, X23)), ev.constant(3), ev.constant(2)), 'X'),
        ('Polyval', 'Polyval(coeffs x, points y)', ev.Polyval(ev.Take(mul(x3, y3), ev.Constant(types.arraydata(numpy.array([0, 1, 2, 0, 1, 2])))), ev.Take(mul(y3, x3), ev.Constant(types.arraydata(numpy.array([[0, 1], [2, 1]]))))), 'x'),
        ('Polyval', 'Polyval(coeffs X, points x)', ev.Polyval(X23, ev.InsertAxis(ev.Sum(mul(x3, x3)), ev.constant(1))), 'X'),
        ('Polyval', 'Polyval(coeffs X(x), points x)', ev.Polyval(mul(X23, ev.Transpose(ev.InsertAxis(x3, ev.constant(2)), (1, 0))), ev.Take(x3, ev.Constant(types.arraydata(numpy.array([[0], [2]])))) ), 'x'),
        ('Legendre', 'Legendre(x/8, 4)', ev.Legendre(mul(x3, fconst((3,), .125)), 4), 'x'),
        ('Choose', 'Choose(k, [x², x·y, y])', ev.Choose(ev.Constant(types.arraydata(numpy.array([2, 0, 1]))), ev.stack([mul(x3, x3), mul(x3, y3), y3], 1)), 'x'),
        ('LoopSum', 'LoopSum_i x[i]·i·x', ev.loop_sum(mul(ev.InsertAxis(mul(ev.Take(x3, li), ev.IntToFloat(li)), ev.constant(3)), x3), li), 'x'),
        ('LoopSum', 'nested LoopSum', ev.loop_sum(ev.loop_sum(mul(ev.Take(ev.Take(X23, li), lj), mul(ev.Take(x3, li), ev.IntToFloat(lj + 1))), lj), li), 'X'),
        ('LoopConcatenate', 'LoopConcatenate_i [x[i]·y]', ev.loop_concatenate(mul(ev.InsertAxis(ev.Take(x3, li), ev.constant(3)), y3), li), 'x'),
        ('LoopConcatenate', 'LoopConcatenate variable chunks', ev.loop_concatenate(ev.Take(mul(x3, x3), ev.Range(li + 1)), li), 'x'),
        ('LoopConcatenate', 'LoopConcatenate of 2-d body', ev.loop_concatenate(mul(ev.Transpose(ev.InsertAxis(ev.Take(X23, lj), ev.constant(3)), (1, 0)), ev.InsertAxis(ev.InsertAxis(ev.IntToFloat(lj + 1), ev.constant(3)), ev.constant(2))), lj), 'X'),
    ]
    for cls in pointwise_with_deriv():
        nargs = len(cls.deriv)
        name = cls.__name__
        if name in ('ArcSin', 'ArcCos', 'ArcTanH'):
            inst = cls(mul(ev.Sin(x3), fconst((3,), .5)))
        elif name == 'Log':
            inst = cls(add(mul(x3, x3), fconst((3,), .5)))
        elif name == 'Sinc':
            inst = cls(x3, 0)
        elif nargs == 1:
            inst = cls(x3)
        else:
            inst = cls(mul(x3, fconst((3,), 1.5)), add(y3, mul(x3, x3)))
        out.append(('Pointwise:' + name, name, inst, 'x'))
        if nargs == 2:
            out.append(('Pointwise:' + name, name + ' wrt y', inst, 'y'))
    res = []
    for t in out:
        # second derivatives of 3x3 Inverse / Determinant cost ~10 s each in the Lean evaluator: thorough tier only
        second = heavy or t[1] not in ('Inverse(N)', 'Determinant(N)')
        res.append((t[0], t[1], t[2], dict(args), t[3], second))
    return res


def highrank_instances(rng):
    """the node rules again on operands with 3 and 4 axes of pairwise different lengths (random axis order): every rule that permutes,
    pairs, ravels or scatters axes is exercised where a wrong axis/stride changes the result.  (class, label, expression, args, wrt)"""
    s = distinct_shape(rng, 3); u = distinct_shape(rng, 4)
    T, U, x = A('T', *s), A('U', *u), A('x', s[2])
    ys = distinct_shape(rng, 2); bs = rng.choice([(2, 3, 3), (3, 2, 2), (4, 2, 2)])
    Y, B = A('Y', *ys), A('B', *bs)
    args = dict(T=dyadic(rng, s), U=dyadic(rng, u), x=dyadic(rng, (s[2],)), Y=dyadic(rng, ys), B=dyadic(rng, bs))
    mul = lambda a, b: ev.Multiply(types.frozenmultiset([a, b]))
    add = lambda a, b: ev.Add(types.frozenmultiset([a, b]))
    cst = lambda v: ev.Constant(types.arraydata(numpy.asarray(v)))
    def perm(n):
        p = list(range(n))
        while p == list(range(n)): rng.shuffle(p)
        return tuple(p)
    p3, p4 = perm(3), perm(4)
    T2 = mul(T, T)
    li = ev.loop_index('i', ev.constant(s[2]))
    idx = cst(numpy.array([s[2]-1, 0]))
    dof2 = cst(numpy.random.default_rng(rng.getrandbits(32)).integers(0, 5, (s[1], s[2])))
    xb = ev.prependaxes(x, T.shape[:2])
    out = [
        ('Argument', 'T (3 axes)', T, 'T'),
        ('Argument', 'U (4 axes)', U, 'U'),
        ('Transpose', 'Sum(Transpose(T², %s))' % (p3,), ev.Sum(ev.Transpose(T2, p3)), 'T'),
        ('Transpose', 'Sum(Sum(Transpose(U², %s)))' % (p4,), ev.Sum(ev.Sum(ev.Transpose(mul(U, U), p4))), 'U'),
        ('InsertAxis', 'Sum(Transpose(InsertAxis(T², 2), (0,3,1,2)))', ev.Sum(ev.Transpose(ev.InsertAxis(T2, ev.constant(2)), (0, 3, 1, 2))), 'T'),
        ('Product', 'Product(T)', ev.Product(T), 'T'),
        ('Sum', 'Sum(T²·x)', ev.Sum(mul(T2, xb)), 'T'),
        ('Multiply', 'T·x wrt x', mul(T, xb), 'x'),
        ('Take', 'Take(T², [n-1, 0])', ev.Take(T2, idx), 'T'),
        ('Inflate', 'Inflate(T², 2-d dofmap, 5)', ev.Inflate(T2, dof2, ev.constant(5)), 'T'),
        ('Ravel', 'Ravel(T²)', ev.Ravel(T2), 'T'),
        ('Unravel', 'Unravel(Ravel(T²), n2, n1)', ev.Unravel(ev.Ravel(T2), ev.constant(s[2]), ev.constant(s[1])), 'T'),
        ('LoopSum', 'LoopSum_i T[..,i]·(i+1)', ev.loop_sum(mul(ev.Take(T, li), ev.prependaxes(ev.IntToFloat(li + 1), T.shape[:2])), li), 'T'),
        ('LoopConcatenate', 'LoopConcatenate_i T²[..,i:i+1]', ev.loop_concatenate(ev.InsertAxis(ev.Take(T2, li), ev.constant(1)), li), 'T'),
        ('Einsum', 'einsum(ijk,k->ji)', ev.einsum('ijk,k->ji', T2, x), 'T'),
        ('Polyval', 'Polyval(coeffs T, points x[:1])', ev.Polyval(T, ev.Take(x, cst(numpy.array([0])))), 'T') if s[2] in (2, 3, 4) else None,
        ('Diagonalize', 'Diagonalize(Y²) (2-d operand)', ev.Diagonalize(mul(Y, Y)), 'Y'),
        ('TakeDiag', 'TakeDiag(B²) (3-d operand)', ev.TakeDiag(mul(B, B)), 'B'),
    ]
    return [(t[0], t[1], t[2], {k: v for k, v in args.items()}, t[3]) for t in out if t is not None]


def stream_classes(c, J):
    cases = []
    for cname, label, e, args, wrt in highrank_instances(c.rng):
        used = {a.name for a in e.arguments if isinstance(a, ev.Argument)} | {wrt}
        cases += derivative_case(c, 'class-highrank', '%s: %s' % (cname, label), e, wrt, {k: v for k, v in args.items() if k in used}, second=False, outcome=J.outcome, max_entries=FACTOR_MAX_ENTRIES)
    for cname, label, e, args, wrt, second in class_instances(c.rng, heavy=c.tier != 'quick'):
        used = {a.name for a in e.arguments if isinstance(a, ev.Argument)} | {wrt}
        cases += derivative_case(c, 'class', '%s: %s' % (cname, label), e, wrt, {k: v for k, v in args.items() if k in used}, second=second, outcome=J.outcome)
    return cases


def stream_special(c, J):
    """classes outside the Lean fragment: the formal Jacobian of an equivalent expression inside the fragment is the oracle
    for the REAL evaluation of the real derivative tree"""
    cases = []
    rng = c.rng
    mul = lambda a, b: ev.Multiply(types.frozenmultiset([a, b]))
    # --- Orthonormal (both branches: dim kern = 1 and > 1)
    shapes = [('Orthonormal 3x1 (kernel dim 2)', 3, 1), ('Orthonormal 2x1 (kernel dim 1)', 2, 1)]
    if c.tier != 'quick':
        shapes.append(('Orthonormal 3x2 (kernel dim 1)', 3, 2))   # ~60 s in the Lean evaluator
    for label, n, k in shapes:
        G, v = A('G', n, k), A('v', n)
        args = dict(G=numpy.eye(n)[:, :k] * 2 + dyadic(rng, (n, k)) / 8, v=numpy.ones(n) + dyadic(rng, (n,)) / 8)
        for wrt in ('G', 'v'):
            Gx = mul(G, G) if wrt == 'G' and rng.random() < .3 else G
            e_real = ev.Orthonormal(Gx, v)
            e_spec = orthonormal_spec(Gx, v)
            cases += derivative_case(c, 'special', label + ' wrt ' + wrt, e_real, wrt, args, second=False, outcome=J.outcome, e_lean=e_spec, jacpt=True)
    # --- Monomial (evaluable.factor of a polynomial expression)
    x, y = A('x', 3), A('y', 2)
    args = dict(x=dyadic(rng, (3,)), y=dyadic(rng, (2,)))
    poly = ev.Sum(mul(ev.InsertAxis(mul(x, x), ev.constant(2)), ev.Transpose(ev.InsertAxis(y, ev.constant(3)), (1, 0)))) + x * 2.
    try:
        kind, f = X.guarded(lambda: ev.factor(poly), 60)
    except Exception as ex:
        kind, f = 'exception', ex
    if kind == 'ok':
        for wrt in ('x', 'y'):
            cases += derivative_case(c, 'special', 'Monomial: factor(Σ x²y + 2x) wrt ' + wrt, f, wrt, args, second=False, outcome=J.outcome, e_lean=poly, jacpt=True)
    else:
        J.outcome['factor-' + kind] += 1
    return cases


def distinct_shape(rng, rank):
    """axis lengths pairwise different (as far as small sizes allow) in random order: an axis permutation, a wrong stride or a wrong
    pairing of axes can only show when the shape is not invariant under it"""
    base = {0: [()], 1: [(2,), (3,), (4,)], 2: [(2, 3), (2, 4), (3, 4)], 3: [(2, 3, 4)], 4: [(1, 2, 3, 4)]}[rank]
    sh = list(rng.choice(base)); rng.shuffle(sh)
    return tuple(sh)


def sparse_dyadic(rng, shape, pzero=.35):
    """dyadic constant with some exact zeros (factor() keeps the coefficients in sparse COO form: irregular index sets)"""
    r = numpy.random.default_rng(rng.getrandbits(32))
    v = r.integers(1, 9, shape) * r.choice([-1., 1.], shape) / rng.choice([1., 2., 4.])
    v = numpy.where(r.random(shape) < pzero, 0., v)
    if v.size and not v.any(): v.reshape(-1)[0] = 1.
    return v


class SP:
    """sparse polynomial with Fraction coefficients in variables (argument name, multi-index): the exact-recomputation oracle for
    polynomial expressions (value, Jacobian and second derivatives by formal differentiation, independent of nutils)"""
    __slots__ = ('t',)

    def __init__(self, t=None):
        self.t = t if t is not None else {}

    @staticmethod
    def lift(v):
        if isinstance(v, SP): return v
        v = Fraction(v)
        return SP({(): v} if v else {})

    @staticmethod
    def var(key):
        return SP({((key, 1),): Fraction(1)})

    def __add__(self, o):
        o = SP.lift(o)
        t = dict(self.t)
        for m, cf in o.t.items():
            v = t.get(m, 0) + cf
            if v: t[m] = v
            else: t.pop(m, None)
        return SP(t)
    __radd__ = __add__

    def __mul__(self, o):
        o = SP.lift(o)
        t = {}
        for m1, c1 in self.t.items():
            for m2, c2 in o.t.items():
                d = dict(m1)
                for k, p in m2: d[k] = d.get(k, 0) + p
                m = tuple(sorted(d.items()))
                v = t.get(m, 0) + c1 * c2
                if v: t[m] = v
                else: t.pop(m, None)
        return SP(t)
    __rmul__ = __mul__

    def deriv(self, key):
        t = {}
        for m, cf in self.t.items():
            d = dict(m)
            p = d.get(key)
            if not p: continue
            if p == 1: del d[key]
            else: d[key] = p - 1
            mm = tuple(sorted(d.items()))
            t[mm] = t.get(mm, 0) + cf * p
        return SP(t)

    def eval(self, env):
        tot = Fraction(0)
        for m, cf in self.t.items():
            for k, p in m: cf = cf * env[k] ** p
            tot += cf
        return tot


def sp_interpret(ast, memo=None):
    """object ndarray of SP for a polynomial AST (see random_polynomial)"""
    op = ast[0]
    if op == 'const':
        out = numpy.empty(ast[1].shape, dtype=object)
        for j in numpy.ndindex(*ast[1].shape): out[j] = SP.lift(Fraction(float(ast[1][j])))
        return out
    if op == 'arg':
        out = numpy.empty(ast[2], dtype=object)
        for j in numpy.ndindex(*ast[2]): out[j] = SP.var((ast[1], j))
        return out
    def boxed(x):
        # numpy hands back the bare element for 0-d object results
        if isinstance(x, numpy.ndarray): return x
        out = numpy.empty((), dtype=object); out[()] = x
        return out
    if op == 'mul': return boxed(sp_interpret(ast[1]) * sp_interpret(ast[2]))
    if op == 'add': return boxed(sp_interpret(ast[1]) + sp_interpret(ast[2]))
    if op == 'sum':
        a = sp_interpret(ast[1])
        out = numpy.empty(a.shape[:-1], dtype=object)
        for j in numpy.ndindex(*a.shape[:-1]):
            out[j] = functools.reduce(lambda x, y: x + y, list(a[j]), SP())
        return out
    if op == 'transpose': return sp_interpret(ast[1]).transpose(ast[2])
    if op == 'prepend':
        a = sp_interpret(ast[1])
        return numpy.broadcast_to(a, tuple(ast[2]) + a.shape)
    raise AssertionError(op)


def ev_interpret(ast, argmap):
    """the same AST as an evaluable expression built from plain operations"""
    op = ast[0]
    if op == 'const': return ev.Constant(types.arraydata(numpy.asarray(ast[1], dtype=float)))
    if op == 'arg': return argmap[ast[1]]
    if op == 'mul': return ev_interpret(ast[1], argmap) * ev_interpret(ast[2], argmap)
    if op == 'add': return ev_interpret(ast[1], argmap) + ev_interpret(ast[2], argmap)
    if op == 'sum': return ev.Sum(ev_interpret(ast[1], argmap))
    if op == 'transpose':
        a = ev_interpret(ast[1], argmap)
        return a if tuple(ast[2]) == tuple(range(a.ndim)) else ev.Transpose(a, tuple(ast[2]))
    if op == 'prepend': return ev.prependaxes(ev_interpret(ast[1], argmap), tuple(ev.constant(n) for n in ast[2]))
    raise AssertionError(op)


def sp_env(args):
    return {(k, j): Fraction(float(numpy.asarray(v)[j])) for k, v in args.items() for j in numpy.ndindex(*numpy.asarray(v).shape)}


def sp_values(arr, env):
    out = numpy.empty(arr.shape, dtype=float)
    for j in numpy.ndindex(*arr.shape): out[j] = float(arr[j].eval(env))
    return out


def sp_derivative(arr, name, shape):
    """object array of shape arr.shape + shape: formal partial derivatives w.r.t. every entry of argument `name`"""
    out = numpy.empty(arr.shape + tuple(shape), dtype=object)
    for i in numpy.ndindex(*arr.shape):
        for j in numpy.ndindex(*shape):
            out[i + j] = arr[i].deriv((name, j))
    return out


def random_polynomial(rng, argv):
    """random polynomial (total degree <= 3) in the arguments `argv` = [(name, shape)] as an AST over
    const | arg | mul | add | sum (last axis) | transpose | prepend; returns (label, ast, result shape)"""
    cst = lambda v: ('const', numpy.asarray(v, dtype=float))
    def power(a, p):
        out = a
        for _ in range(p - 1): out = ('mul', out, a)
        return out
    def contract(name, shape, p, k):
        # sum over ALL axes of the argument against a sparse constant of shape k + shape
        f = ('mul', cst(sparse_dyadic(rng, k + shape)), ('prepend', power(('arg', name, shape), p), k))
        for _ in shape: f = ('sum', f)
        return f
    kind = rng.choice(['contract', 'contract', 'partial'])
    if kind == 'partial' and not any(len(sh) >= 2 for _, sh in argv): kind = 'contract'
    if kind == 'contract':
        k = rng.choice([(), (2,), (2,), (3,)])
        terms = []
        for _ in range(rng.choice([2, 3])):
            budget = 3; term = None
            mass = int(numpy.prod(k, dtype=int))      # size of the dense coefficient tensor factor() evaluates for this term
            for name, shape in rng.sample(argv, rng.randint(1, min(2, len(argv)))):
                size = int(numpy.prod(shape, dtype=int))
                p = rng.randint(1, min(2, budget))
                while p > 1 and mass * size**p > COEFF_TENSOR_LIMIT: p -= 1
                if term is not None and mass * size**p > COEFF_TENSOR_LIMIT: continue
                budget -= p; mass *= size**p
                f = contract(name, shape, p, k)
                term = f if term is None else ('mul', term, f)
                if budget <= 0: break
            terms.append(term)
        e = functools.reduce(lambda x, y: ('add', x, y), terms + [cst(sparse_dyadic(rng, k, 0.))])
        return 'contract%s' % (k,), e, k
    # 'partial': the result keeps some axes of a high-rank argument (transposed), the others are contracted; another argument enters
    # through a broadcast over the kept axes
    name, shape = rng.choice([t for t in argv if len(t[1]) >= 2])
    nd = len(shape)
    axes = list(range(nd)); rng.shuffle(axes)
    a = ('arg', name, shape)
    others = [t for t in argv if t[0] != name]
    size = int(numpy.prod(shape, dtype=int))
    pw = rng.choice([1, 2])
    if others:
        other = rng.choice(others)
        if size**pw * int(numpy.prod(other[1], dtype=int)) * max(shape)**2 > COEFF_TENSOR_LIMIT: pw = 1
    q = ('add', ('mul', cst(sparse_dyadic(rng, shape)), power(a, pw)), ('mul', a, cst(sparse_dyadic(rng, shape))))
    q = ('transpose', q, tuple(axes))
    tshape = tuple(shape[i] for i in axes)
    nkeep = rng.choice([1, 1, 2]) if nd > 2 else 1
    for _ in range(nd - nkeep): q = ('sum', q)
    kshape = tshape[:nkeep]
    if others:
        b, bshape = other
        q = ('add', ('mul', q, ('prepend', contract(b, bshape, 1, ()), kshape)), q)
    return 'partial(axes %s keep %d)' % (axes, nkeep), q, kshape


FACTOR_MAX_ENTRIES = 600
COEFF_TENSOR_LIMIT = 20000


def factor_one(rng, c, J, confirm):
    """one random polynomial -> factor -> derivative trees vs the exact polynomial Jacobian; candidates are confirmed with finite
    differences and reported (`confirm=False`: only counted in J.candidates, for use inside worker processes)"""
    def judge(label, tree_tag, d, args, exact, e_real, e_for_fd, wrt, second):
        """d: derivative tree of e_real w.r.t. argument wrt; exact: the exact Jacobian; e_for_fd: () -> real expression whose finite
        differences confirm a candidate (the differentiated expression itself, or for second derivatives the first derivative of the
        un-factored expression)"""
        kd, dv = X.real_eval(d, args)
        c.case(('factor', label, tree_tag, getattr(d, '__nutils_hash__', id(d))))
        if kd == 'ok' and dv.shape == exact.shape and rel_close(dv, exact, 1e-9):
            J.outcome['factor:equals-exact-polynomial-jacobian:' + tree_tag] += 1; J.nnum += 1
            return
        # candidate: the real derivative value differs from the exact derivative of the polynomial (or cannot be evaluated)
        if not confirm:
            J.candidates += 1; return
        if kd == 'ok':
            sig = 'derivative-wrong:Monomial(factor)'
            if any(v_[2] == sig for v_ in c.violations):
                J.outcome['factor:candidate:same-signature-already-reported'] += 1; return
            ref = e_for_fd()
            v, Jfd = fd_verdict(ref, dv, args, wrt) if ref is not None else ('unreliable', None)
            if v == 'agree':
                c.broken_no_input('corr:exact-polynomial-oracle', 'exact polynomial Jacobian differs from the real derivative value, but finite differences of the real code agree with the real derivative',
                                  dict(label=label, real=dv.tolist(), exact=exact.tolist()))
                return
            J.outcome['factor:candidate:fd-' + v] += 1
            what = 'differs from the exact Jacobian of the polynomial' + ('; confirmed by 6-point finite differences of the real eval_once' if v == 'disagree' else '')
        else:
            J.outcome['factor:derivative-not-evaluable:%s' % kd] += 1
            sig = 'derivative-evaluation-%s:Monomial(factor)' % ('raises:' + type(dv).__name__ if kd == 'exception' else kd)
            what = 'cannot be evaluated (%s: %r) although the expression is a polynomial' % (kd, dv if kd == 'exception' else None)
        J.fail(sig, 'the %s %s derivative tree of %s %s' % (tree_tag, 'second' if second else 'first', label, what),
               dict(stream='factor', label=label, wrt=wrt, which=tree_tag, expr=X.describe(e_real, args), pickled=pack(e_real, args),
                    real_derivative=dv.tolist() if kd == 'ok' else repr(dv), expected=exact.tolist()))
        J.outcome['VIOLATION'] += 1
    def raised(d, label, e, args, wrt):
        if kind_is_notimplemented(d): return
        if not confirm:
            J.candidates += 1; return
        J.fail('derivative-raises:%s:%s' % (type(d).__name__ if d is not None else 'hang', (raising_rule(d) if d is not None else None) or 'Monomial(factor)'),
               'evaluable.derivative raises %r on %s' % (d, label), dict(stream='factor', label=label, wrt=wrt, expr=X.describe(e, args), pickled=pack(e, args)))
    def kind_is_notimplemented(d):
        return isinstance(d, NotImplementedError)
    def trees(d):
        out = [('raw', d)]
        ks, s_ = safe_simplified(d)
        if ks == 'ok' and s_ is not d: out.append(('simplified', s_))
        elif ks != 'ok': J.outcome['factor:derivative-simplify-' + ks] += 1
        return out
    nargs = rng.choice([1, 2, 2, 3])
    ranks = [rng.choice([3, 3, 4])] + [rng.choice([0, 1, 1, 2, 2, 3]) for _ in range(nargs - 1)]
    rng.shuffle(ranks)
    argv, args = [], {}
    for j, r in enumerate(ranks):
        shape = distinct_shape(rng, r)
        argv.append(('pqr'[j], shape)); args['pqr'[j]] = dyadic(rng, shape)
    api = rng.choice(['evaluable', 'evaluable', 'function'])
    try:
        plabel, ast, eshape = random_polynomial(rng, argv)
        sp = sp_interpret(ast)
        if api == 'evaluable':
            poly = ev_interpret(ast, {nm: A(nm, *sh) for nm, sh in argv})
            kind, f = X.guarded(lambda: ev.factor(poly), 60)
        else:
            fpoly = function.Array.cast(ev_interpret_function(ast, {nm: function.Argument(nm, sh) for nm, sh in argv}))
            poly = fpoly.as_evaluable_array
            kind, ff = X.guarded(lambda: function.factor(fpoly), 60)
            f = ff.as_evaluable_array if kind == 'ok' else ff
    except Exception as ex:
        J.outcome['factor:generator-exception:' + type(ex).__name__] += 1; return
    label = '%s.factor(%s in %s)' % (api, plabel, ', '.join('%s%s' % t for t in argv))
    if kind != 'ok':
        J.outcome['factor-%s:%s' % (kind, type(f).__name__)] += 1; return
    env = sp_env(args)
    # oracle sanity + the factored VALUE (C02's business; a mismatch would make the comparison below meaningless)
    want = sp_values(sp, env)
    k1, v1 = X.real_eval(f, args); k2, v2 = X.real_eval(poly, args)
    if k2 != 'ok' or v2.shape != want.shape or not rel_close(v2, want, 1e-12):
        if confirm:
            c.broken_no_input('corr:exact-polynomial-oracle', 'the exact polynomial value differs from the real evaluation of the un-factored expression', dict(label=label, real=repr(v2), exact=want.tolist()))
        else:
            J.candidates += 1
        return
    if k1 != 'ok' or not rel_close(v1, want, 1e-9):
        J.outcome['factor:value-differs-from-unfactored'] += 1; return
    c.count('factor:polynomials')
    c.count('factor:Monomial-nodes', sum(1 for nd in shrink.all_nodes(f) if type(nd).__name__ == 'Monomial'))
    used = [(nm, sh) for nm, sh in argv if find_argument(poly, nm) is not None]
    for nm, sh in used:
        size = int(numpy.prod(sh, dtype=int))
        if static_size(poly) * size > FACTOR_MAX_ENTRIES:
            J.outcome['skipped-too-many-jacobian-entries'] += 1; continue
        c.count('factor:wrt-rank-%d' % len(sh))
        var = find_argument(f, nm)
        if var is None: var = A(nm, *sh)
        kd, d1 = safe_derivative(f, var)
        if kd != 'ok':
            J.outcome['factor:derivative-%s' % kd] += 1
            raised(d1, label, f, args, nm)
            continue
        sp1 = sp_derivative(sp, nm, sh)
        exact1 = sp_values(sp1, env)
        for tag, d in trees(d1):
            judge(label + ' wrt ' + nm, tag, d, args, exact1, f, (lambda: f), nm, False)
        # repeated differentiation of the factored form (the rule recurses through the Monomials it builds), mixed partials included
        seconds = [(b, shb) for b, shb in used if static_size(d1) * int(numpy.prod(shb, dtype=int)) <= FACTOR_MAX_ENTRIES]
        if seconds:
            b, shb = rng.choice(seconds)
            var2 = find_argument(d1, b)
            kd, d2 = safe_derivative(d1, var2 if var2 is not None else A(b, *shb))
            if kd != 'ok':
                J.outcome['factor:second-derivative-%s' % kd] += 1
                raised(d2, label + ' (first derivative wrt %s)' % nm, d1, args, b)
                continue
            c.count('factor:second-wrt-rank-%d-%d' % (len(sh), len(shb)))
            exact2 = sp_values(sp_derivative(sp1, b, shb), env)
            # (the un-simplified second-derivative tree materialises Diagonalize(Monomial)² densely: seconds per evaluation; its simplified form is evaluated)
            for tag, d in trees(d2)[-1:]:
                # finite differences of the first derivative of the UN-factored expression (the ordinary rules) as confirmation
                judge(label + ' wrt %s, %s' % (nm, b), tag, d, args, exact2, d1, (lambda: (lambda r: r[1] if r[0] == 'ok' else None)(safe_derivative(poly, find_argument(poly, nm)))), b, True)


def stream_factor(c, J, n):
    """Monomial._derivative: evaluable.factor / function.factor of random polynomials (total degree <= 3) in arguments of 0..4 axes with
    pairwise different axis lengths; first derivatives w.r.t. every argument (un-simplified and simplified tree) and (mixed) second
    derivatives of the FACTORED form, evaluated by the real code and compared with the exact Jacobian of the polynomial (formal
    differentiation of a sparse polynomial with Fraction coefficients at the dyadic sample point, independent of nutils); candidates are
    confirmed with finite differences of the real evaluation.  (Sequential: ~0.4 s per polynomial; worker processes gain nothing on a
    loaded machine.)"""
    import random, treelog
    for seed in [c.rng.getrandbits(31) for _ in range(n)]:
        try:
            with treelog.set(treelog.NullLog()):
                factor_one(random.Random(seed), c, J, confirm=True)
        except X.Hang:
            J.outcome['factor:hang'] += 1
    return []


def ev_interpret_function(ast, argmap):
    """the polynomial AST through the function-level API (numpy operations on function.Array)"""
    op = ast[0]
    if op == 'const': return function.Array.cast(numpy.asarray(ast[1], dtype=float))
    if op == 'arg': return argmap[ast[1]]
    if op == 'mul': return ev_interpret_function(ast[1], argmap) * ev_interpret_function(ast[2], argmap)
    if op == 'add': return ev_interpret_function(ast[1], argmap) + ev_interpret_function(ast[2], argmap)
    if op == 'sum': return numpy.sum(ev_interpret_function(ast[1], argmap), -1)
    if op == 'transpose': return numpy.transpose(ev_interpret_function(ast[1], argmap), ast[2])
    if op == 'prepend':
        a = ev_interpret_function(ast[1], argmap)
        return numpy.broadcast_to(a, tuple(ast[2]) + tuple(a.shape)) if ast[2] else a
    raise AssertionError(op)


def stream_transformcoords(c, J):
    """TransformCoords: no specification inside the Lean fragment; real derivative vs finite differences of the real code (exploration)"""
    from nutils import mesh
    n = 0
    try:
        topo, geom = mesh.rectilinear([2, 2])
        coords = A('xi', 2)
        e = ev.TransformCoords(None, topo.transforms, ev.constant(2), ev.Sin(coords) * coords)
        args = dict(xi=numpy.array([.25, .5]))
        k, d = safe_derivative(e, coords)
        if k == 'ok':
            kd, dv = X.real_eval(d, args)
            if kd == 'ok':
                v, Jfd = fd_verdict(e, dv, args, 'xi')
                J.outcome['transformcoords:fd-' + v] += 1
                c.case(('transformcoords',))
                n += 1
                if v == 'disagree':
                    c.failing_input('derivative-wrong:TransformCoords', 'derivative of TransformCoords differs from finite differences of the real evaluation',
                                    dict(expr=X.describe(e, args), real_derivative=dv.tolist(), expected=Jfd.tolist()))
        else:
            J.outcome['transformcoords:derivative-' + k] += 1
    except Exception as ex:
        J.outcome['transformcoords:setup-exception:' + type(ex).__name__] += 1
    return n


def stream_withderivative(c, J, n):
    """virtual derivative targets: WithDerivative(f, T, D) behaves for d/dT like f + D·t at t = 0, for every value of the real arguments"""
    cases = []
    rng = c.rng
    for i in range(n):
        g = DGen(rng, loops=False)
        k = rng.choice([1, 2, 3])
        shape = tuple(rng.choice([1, 2, 3]) for _ in range(rng.choice([0, 1, 2])))
        try:
            f = g.array(float, shape, rng.choice([1, 2]))
            D = g.array(float, shape + (k,), rng.choice([1, 2]))
        except Exception:
            continue
        T = ev.IdentifierDerivativeTarget('T%d' % i, (ev.constant(k),))
        w = ev.WithDerivative(f, T, D)
        t = A('t', k)
        lin = f + ev.Sum(D * ev.prependaxes(t, f.shape))
        outer = rng.choice(['sin·w', 'sum w²', 'w·f', 'w', 'det'])
        def build(u):
            if outer == 'sin·w': return ev.Sin(u) * u
            if outer == 'sum w²': return ev.Sum(ev.InsertAxis(u * u, ev.constant(2)))
            if outer == 'w·f': return u * f + ev.Exp(u * .125)
            return u
        e_real, e_lean = build(w), build(lin)
        kd, d = safe_derivative(e_real, T)
        if kd != 'ok':
            J.outcome['withderivative:derivative-' + kd] += 1; continue
        ds = [('raw', d)]
        ks, s = safe_simplified(d)
        if ks == 'ok' and s is not d: ds.append(('simplified', s))
        args = dict(g.args, t=numpy.zeros(k))
        fl = [nm for nm in float_argument_names(e_lean) if nm != 't']
        cases.append(Case('withderivative', 'WithDerivative/%s' % outer, e_lean, 't', args, ds, e_real=e_real, presubst=True, symbolic=fl, fd=False))
        # the other branch of WithDerivative._derivative: a real argument passes through to func
        if fl:
            cases += derivative_case(c, 'withderivative', 'WithDerivative/%s wrt real argument' % outer, e_real, rng.choice(fl), g.args, second=False, outcome=J.outcome)
    return cases


def stream_function(c, J, n):
    """function-level API: function.derivative / Array.derivative lowered with as_evaluable_array"""
    cases = []
    rng = c.rng
    for i in range(n):
        nu, nv = rng.choice([1, 2, 3]), rng.choice([1, 2])
        u = function.Argument('u', (nu,))
        v = function.Argument('v', (nv,))
        M = function.Argument('M', (2, 2))
        args = dict(u=dyadic(rng, (nu,)), v=dyadic(rng, (nv,)), M=numpy.array([[2., .5], [-.25, 1.5]]) + dyadic(rng, (2, 2)) / 8)
        templates = [
            ('sin(u)·exp(Σv/8)', lambda: numpy.sin(u) * numpy.exp(v.sum() / 8)),
            ('u⊗v summed', lambda: (u[:, None] * v[None, :]).sum(1) * u),
            ('dot/norm', lambda: (u @ u) / numpy.sqrt(1 + u @ u)),
            ('inverse(M)·M²', lambda: (numpy.linalg.inv(M) @ (M @ M)).sum(0)),
            ('determinant', lambda: numpy.linalg.det(M @ M + numpy.eye(2))),
            ('arctan2', lambda: numpy.arctan2(u, 1 + u**2) * v[0]),
            ('power', lambda: numpy.power(1 + u**2, v[0] / 4)),
            ('max/min', lambda: numpy.maximum(u, v[0]) - numpy.minimum(u * u, .75)),
            ('stack/concatenate', lambda: numpy.concatenate([u * v[0], numpy.tanh(u)])),
            ('trace', lambda: numpy.trace(M @ M) * numpy.cosh(u / 8)),
            ('abs·sign', lambda: abs(u) * numpy.sign(v[0]) + u**3),
            ('ln', lambda: numpy.log(2 + numpy.cos(u)) * numpy.arctan(v[0])),
            ('norm', lambda: numpy.linalg.norm(numpy.stack([u[0], v[0], 1 + u[0] * v[0]]))),
            ('divide', lambda: u / (1 + v[0]**2) + numpy.sinh(v.sum() / 8)),
        ]
        name, mk = rng.choice(templates)
        try:
            f = mk()
            wrt = rng.choice([k for k in ('u', 'v', 'M') if k in f.arguments])
            how = rng.choice(['str', 'arg', 'method'])
            if how == 'str': d = function.derivative(f, wrt)
            elif how == 'arg': d = function.derivative(f, function.Argument(wrt, f.arguments[wrt][0]))
            else: d = f.derivative(wrt)
            fe, de = f.as_evaluable_array, d.as_evaluable_array
        except Exception as ex:
            J.outcome['function:setup-exception:%s:%s' % (name, type(ex).__name__)] += 1; continue
        a = {k: w for k, w in args.items() if k in f.arguments}
        ds = [('raw', de)]
        ks, s = safe_simplified(de)
        if ks == 'ok' and s is not de: ds.append(('simplified', s))
        cases.append(Case('function', 'function.derivative[%s](%s, %s)' % (how, name, wrt), fe, wrt, a, ds))
        # second derivative w.r.t. (possibly) another argument through the function API
        try:
            w2 = rng.choice(sorted(f.arguments))
            dd = function.derivative(d, w2).as_evaluable_array
            ds2 = [('raw', dd)]
            ks, s2 = safe_simplified(dd)
            if ks == 'ok' and s2 is not dd: ds2.append(('simplified', s2))
            cases.append(Case('function', 'function.derivative²(%s, %s, %s)' % (name, wrt, w2), de, w2, a, ds2))
        except Exception as ex:
            J.outcome['function:second-exception:' + type(ex).__name__] += 1
    return cases


def _diag_all(arr):
    # d f[i…] / d a[j…] = g[i…] δ_{ij…}: diagonalize every axis
    out = arr
    n = arr.ndim
    for i in range(n):
        out = function.diagonalize(out, i, n + i)
    return out


class _PolyCustom(function.Custom):
    """f(a, b) = a·b² + a (entrywise), partial derivatives (b² + 1)·δ and 2ab·δ"""

    def __init__(self, a, b, npointwise):
        a, b = function.broadcast_arrays(a, b)
        super().__init__(args=(a, b), shape=a.shape[npointwise:], dtype=float, npointwise=npointwise)

    @types.hashable_function('nvh.c04._PolyCustom.evalf v1')
    def evalf(a, b):
        return a * b**2 + a

    @types.hashable_function('nvh.c04._PolyCustom.partial_derivative v1')
    def partial_derivative(iarg, a, b):
        return _diag_all(b**2 + 1) if iarg == 0 else _diag_all(2 * a * b)


class _ContractCustom(function.Custom):
    """f(a, w)[i] = Σ_j a[i, j]² w[j]  (argument shapes differ from the result shape)"""

    def __init__(self, a, w):
        a, w = function.Array.cast(a), function.Array.cast(w)
        super().__init__(args=(a, w), shape=(a.shape[0],), dtype=float, npointwise=0)

    @types.hashable_function('nvh.c04._ContractCustom.evalf v1')
    def evalf(a, w):
        return numpy.einsum('pij,pj->pi', a**2, w)

    @types.hashable_function('nvh.c04._ContractCustom.partial_derivative v1')
    def partial_derivative(iarg, a, w):
        if iarg == 0:   # d f[i] / d a[k, j] = δ_ik 2 a[i, j] w[j]
            return function.diagonalize(2 * a * w[None, :], 0, 1)
        return a**2     # d f[i] / d w[j]


def stream_custom(c, J, n):
    """_CustomEvaluable._derivative: user-defined operation with polynomial partial derivatives against the same polynomial built from plain operations"""
    cases = []
    rng = c.rng
    for i in range(n):
        nu = rng.choice([2, 3])
        u = function.Argument('u', (nu,))
        v = function.Argument('v', (nu,))
        args = dict(u=dyadic(rng, (nu,)), v=dyadic(rng, (nu,)))
        kind = rng.choice(['pointwise', 'shape', 'contract', 'chain'])
        try:
            if kind == 'pointwise':
                a, b = u * v, numpy.sin(u) + v
                cust, plain = _PolyCustom(a, b, 1), a * b**2 + a
            elif kind == 'shape':
                a, b = u * 2 + v, u * u
                cust, plain = _PolyCustom(a, b, 0), a * b**2 + a
            elif kind == 'chain':
                a, b = u * v, u - v
                inner = _PolyCustom(a, b, rng.choice([0, 1]))
                cust, plain = numpy.exp(inner / 16) * u, numpy.exp((a * b**2 + a) / 16) * u
            else:
                a = u[:, None] * v[None, :] + 1
                w = numpy.cos(v)
                cust, plain = _ContractCustom(a, w), (a**2 * w[None, :]).sum(1)
            ce, pe = cust.as_evaluable_array, plain.as_evaluable_array
        except Exception as ex:
            J.outcome['custom:setup-exception:%s:%s' % (kind, type(ex).__name__)] += 1; continue
        k1, v1 = X.real_eval(ce, args); k2, v2 = X.real_eval(pe, args)
        if k1 != 'ok' or k2 != 'ok' or not X.arrays_close(v1, v2):
            J.outcome['custom:harness-operation-mismatch'] += 1; continue
        wrt = rng.choice(['u', 'v'])
        cases += derivative_case(c, 'custom', '_CustomEvaluable/%s wrt %s' % (kind, wrt), ce, wrt, args, second=False, outcome=J.outcome, e_lean=pe, jacpt=True)
    return cases


def stream_defined_where_differentiable(c, J):
    """directed probe of the clause "at every argument value where the expression is differentiable": polynomial expressions
    (differentiable everywhere) at points where an intermediate of the derivative rule degenerates (singular matrix for
    Determinant._derivative = det · inverse)"""
    stack = lambda rows: ev.stack([ev.stack(r, 0) for r in rows], 0)
    x = A('x', 3)
    g = lambda i: ev.Take(x, ev.constant(i))
    one, zero = ev.constant(1.), ev.constant(0.)
    probes = [
        ('Determinant', 'Determinant([[x0,1],[1,x1]]) at a singular point', ev.Determinant(stack([[g(0), one], [one, g(1)]])), dict(x=numpy.array([2., .5, 1.]))),
        ('Determinant', 'Determinant(diag(x)) at rank 2', ev.Determinant(ev.Diagonalize(x)), dict(x=numpy.array([2., .5, 0.]))),
        ('Determinant', 'Determinant(x⊗x) at rank 1 (derivative zero)', ev.Determinant(ev.einsum('i,j->ij', x, x)), dict(x=numpy.array([2., .5, 1.]))),
        ('Product', 'Product(x) at a zero entry', ev.Product(x), dict(x=numpy.array([2., 0., 1.]))),
        ('Power', 'x² with a computed exponent at a negative base', ev.Power(x, ev.IntToFloat(ev.constant(2)) * ev.ones(x.shape)), dict(x=numpy.array([-2., .5, 1.]))),
        ('Divide', 'x0·x1/x1 is not a polynomial: control (undefined where not differentiable)', g(0) * g(1) / g(1), dict(x=numpy.array([2., 0., 1.]))),
    ]
    n = 0
    for sigclass, label, e, args in probes:
        kd, d = safe_derivative(e, find_argument(e, 'x'))
        if kd != 'ok':
            J.outcome['probe:derivative-' + kd] += 1; continue
        ks, ds_ = safe_simplified(d)
        if ks != 'ok':
            J.outcome['probe:simplify-' + ks] += 1; continue
        case = Case('probe', label, e, 'x', args, [('simplified', ds_)], jacpt=True)
        a = J.session.ask(case.request(), 30)
        if a is None or a.startswith('bad-request'):
            J.outcome['probe:no-lean-answer'] += 1; continue
        a = json.loads(a)
        c.case(('probe', label))
        jp = a.get('jacpt') or {}
        kr, dv = X.real_eval(ds_, args, simplify=True)
        n += 1
        if 'data' not in jp:
            # the expression itself is not differentiable / defined here according to the specification: nothing is demanded
            J.outcome['probe:not-differentiable-here(%s)' % jp.get('error', a.get('error', '?'))] += 1
            continue
        try:
            Jl = keys_to_array(jp)
        except Exception:
            J.outcome['probe:oracle-not-numeric'] += 1; continue
        if kr == 'ok' and rel_close(dv, Jl, 1e-9):
            J.outcome['probe:defined-and-equal'] += 1
            continue
        v, Jfd = fd_verdict(e, numpy.zeros(Jl.shape), args, 'x')
        fd_ok = Jfd is not None and v != 'unreliable' and rel_close(Jfd, Jl, 1e-6)
        J.outcome['probe:derivative-%s-where-differentiable(fd %s)' % (kr, 'confirms' if fd_ok else 'unreliable')] += 1
        skel = shrink.skeleton(e)
        J.fail('derivative-undefined-where-differentiable:' + sigclass if kr != 'ok' else 'derivative-wrong:' + skel,
                        'the derivative tree of %s evaluates to %s at a point where the expression is a polynomial (true Jacobian %s)' % (label, 'NaN/inf' if kr == 'nonfinite' else kr, Jl.tolist()),
                        dict(stream='probe', label=label, wrt='x', expr=X.describe(e, args), pickled=pack(e, args), real_derivative=repr(dv), expected=Jl.tolist(), finite_differences=None if Jfd is None else Jfd.tolist()))
    return n


def stream_intbool(c, J):
    """the clause "expressions of integer or boolean type have an identically zero derivative": every node class on an integer / boolean
    operand that DEPENDS on a real argument (through a comparison), so that the class's own `_derivative` rule runs"""
    x, y = A('x', 2), A('y', 2)
    args = dict(x=numpy.array([1., 2.]), y=numpy.array([2., 1.]))
    b = ev.Greater(x, y)
    i = ev.BoolToInt(b)
    ic = lambda *v: ev.Constant(types.arraydata(numpy.array(v)))
    ms = lambda *a: types.frozenmultiset(a)
    k = ev.loop_index('k', ev.constant(2))
    tests = [
        ('Product(bool)', lambda: ev.Product(b)), ('Product(int)', lambda: ev.Product(i)),
        ('Minimum(int)', lambda: ev.Minimum(i, ic(0, 1))), ('Maximum(int)', lambda: ev.Maximum(i, ic(0, 1))),
        ('Power(int)', lambda: ev.Power(i, ic(2, 3))), ('Multiply(int)', lambda: ev.Multiply(ms(i, i))), ('Multiply(bool)', lambda: ev.Multiply(ms(b, b))),
        ('Add(bool)', lambda: ev.Add(ms(b, b))), ('Add(int)', lambda: ev.Add(ms(i, i))), ('Sum(bool)', lambda: ev.Sum(b)), ('Sum(int)', lambda: ev.Sum(i)),
        ('Sign(int)', lambda: ev.Sign(i)), ('Choose(int)', lambda: ev.Choose(ic(0, 1), ev.stack([i, i], 1))),
        ('Inflate(int)', lambda: ev.Inflate(i, ic(1, 0), ev.constant(2))), ('Take(bool)', lambda: ev.Take(b, ic(1, 0))), ('Take(int)', lambda: ev.Take(i, ic(1, 0))),
        ('Diagonalize(int)', lambda: ev.Diagonalize(i)), ('TakeDiag(int)', lambda: ev.TakeDiag(ev.Diagonalize(i))), ('InsertAxis(bool)', lambda: ev.InsertAxis(b, ev.constant(3))),
        ('Transpose(int)', lambda: ev.Transpose(ev.Diagonalize(i), (1, 0))), ('Ravel(int)', lambda: ev.Ravel(ev.Diagonalize(i))), ('Unravel(int)', lambda: ev.Unravel(i, ev.constant(2), ev.constant(1))),
        ('LoopSum(int)', lambda: ev.loop_sum(ev.Take(i, k), k)), ('LoopConcatenate(int)', lambda: ev.loop_concatenate(ev.InsertAxis(ev.Take(i, k), ev.constant(1)), k)),
        ('FloorDivide(int)', lambda: ev.FloorDivide(i, ic(1, 2))), ('Mod(int)', lambda: ev.Mod(i, ic(1, 2))), ('Absolute(int)', lambda: ev.Absolute(i)), ('Negative(int)', lambda: ev.Negative(i)),
        ('Guard(int)', lambda: ev.Guard(i)), ('Determinant-free: Equal', lambda: ev.Equal(i, ic(0, 1))), ('LogicalNot', lambda: ev.LogicalNot(b)),
    ]
    n = 0
    for label, mk in tests:
        try:
            e = mk()
        except Exception as ex:
            J.outcome['intbool:cannot-build:%s' % label] += 1; continue
        n += 1
        c.case(('intbool', label))
        kd, d = safe_derivative(e, x)
        if kd == 'ok':
            kv, v = X.real_eval(d, args)
            shape_ok = kv == 'ok' and v.shape == tuple(int(m) for m in e.shape) + (2,) and d.dtype == e.dtype
            if shape_ok and not numpy.any(v):
                J.outcome['intbool:zero'] += 1
            else:
                J.outcome['intbool:nonzero-or-wrong-shape'] += 1
                J.fail('derivative-of-%s-expression-not-zero:%s' % (e.dtype.__name__, type(e).__name__), 'the derivative of the %s expression %s is not identically zero of shape e.shape+x.shape' % (e.dtype.__name__, label),
                       dict(stream='intbool', label=label, wrt='x', expr=X.describe(e, args), pickled=pack(e, args), real_derivative=repr(v)))
        elif kd == 'exception' and isinstance(d, NotImplementedError):
            J.outcome['intbool:not-implemented'] += 1
        else:
            J.outcome['intbool:raises:%s' % (type(d).__name__ if d is not None else 'hang')] += 1
            J.fail('derivative-raises:%s:%s' % (type(d).__name__ if d is not None else 'hang', (raising_rule(d) if d is not None else None) or type(e).__name__),
                   'evaluable.derivative raises %r on the %s expression %s (must be identically zero)' % (d, e.dtype.__name__, label),
                   dict(stream='intbool', label=label, wrt='x', expr=X.describe(e, args), pickled=pack(e, args)))
    return n


# ------------------------------------------------------------------------------------------------ (X) search when the table proof breaks

def search_pointwise_failing(c, rows):
    """finite differences of the REAL evaluable.derivative of every extracted scalar operation at dyadic points; returns number of failing inputs found"""
    found = 0
    pts = [(-.75, .5), (.25, 1.5), (.5, -.25), (1.5, 2.), (-.375, .125)]
    ops = [(cls.__name__, len(cls.deriv), (lambda cls: lambda *xs: cls(*xs, *[p.default for p in list(inspect.signature(cls).parameters.values())[len(cls.deriv):]]))(cls)) for cls in pointwise_with_deriv()]
    ops += [(name, n, mk) for name, n, mk in derived_ops()]
    for name, n, mk in ops:
        xs = scalar_args(n)
        try:
            e = mk(*xs)
        except Exception:
            continue
        for i in range(n):
            k, d = safe_derivative(e, xs[i])
            if k != 'ok': continue
            for p in pts:
                args = {'x%d' % j: numpy.array(p[j]) for j in range(n)}
                ke, ve = X.real_eval(e, args); kd, dv = X.real_eval(d, args)
                if ke != 'ok' or kd != 'ok': continue
                v, Jfd = fd_verdict(e, dv, args, 'x%d' % i)
                c.count('table-search:' + v)
                if v == 'disagree':
                    found += 1
                    c.failing_input('deriv-table-wrong:%s:%d' % (name, i), 'derivative of %s w.r.t. argument %d differs from finite differences of the real evaluation' % (name, i),
                                    dict(op=name, position=i, arguments={k: float(v) for k, v in args.items()}, real_derivative=float(dv), finite_difference=float(Jfd)))
                    break
    return found


# ------------------------------------------------------------------------------------------------ main

def run(c):
    c.rule = ('(V) random well-typed float/int/bool evaluable DAGs from nvh.genexpr extended with transcendental operations, Power with argument-dependent exponent, '
              'division, Polyval with argument-dependent coefficients and points, loops with index-dependent bodies; one real argument symbolic, the others dyadic; '
              'REAL evaluable.derivative tree un-simplified and simplified, derivative of the derivative, up to two arguments per expression; '
              '(M) one minimal instance per node class with a _derivative rule, and the axis-handling rules again on operands with 3 and 4 axes of pairwise different lengths; '
              'function.derivative / Custom / WithDerivative / Orthonormal streams; factor stream: evaluable.factor / function.factor of random polynomials in arguments of 0..4 axes '
              '(pairwise different lengths), first and mixed second derivatives of the factored form against the exact polynomial Jacobian (Fractions); '
              'a case is non-trivial when the derivative tree is not Zeros; distinct by stream, label and nutils hash of the derivative trees')
    c.assumptions += ['complex dtype is not generated (FloatToComplex._derivative and the complex branches are not covered)',
                      'the argument differentiated to is symbolic; other arguments, axis lengths and loop lengths are sampled dyadic values',
                      'symbolic "same" means: equal normal forms of the Lean value of the real derivative tree and the formal partial derivative (Model/C04.pderiv, rules proved in specRules_sound) of the Lean value of the expression, '
                      'i.e. equality for all real values of the argument where both are defined and away from kinks of abs/sign/min/max/floor/comparisons; "same-modinv" additionally uses inv(k)·k = 1 (sound where k ≠ 0)',
                      'the Lean evaluator (Model/Expr.lean) is executed, not kernel-reduced; its parametricity in the carrier relies on Props/Poly',
                      'a symbolic "differ" is never a verdict: exact comparison at the sample point, then numeric reading of transcendental atoms, then confirmation on the real code (real evaluation + 6-point finite differences)',
                      'SE semantics over ℝ: pow is Real.rpow; arctan2 is proved on x ≠ 0 minus the branch cut; the derivatives of sinc are not claimed']
    install_hit_counters()
    # ---- (X) regenerate the table from the running code
    rows = extract_table()
    changed = c.write_generated('C04.lean', generated_text(rows))
    c.extra['deriv_table'] = [dict(name=r[0], arity=r[1], pos=r[2], source=r[6], note=r[5]) for r in rows]
    c.extra['deriv_table_unproved'] = sorted({r[0] for r in rows if r[4] is None or r[0].startswith('sinc')})
    if changed: c.log('Generated/C04.lean changed')
    broken = c.build_and_audit()
    c.log('build and audit done')
    c.obligation('extract:deriv-table', len([r for r in rows if r[4] is not None]) >= 30, 'extraction', '%d rows extracted from the running code, %d outside SE' % (len(rows), len([r for r in rows if r[4] is None])))

    quick = c.tier == 'quick'
    J = Judge(c)
    if getattr(c, 'replay', None):
        # ./check C04 --replay file: re-run the recorded (shrunk) expression through the same validation
        r = c.replay
        try:
            e, args = pickle.loads(base64.b64decode(r['pickled']))
        except Exception as ex:
            raise Infra('replay file has no usable pickled expression: %r' % ex)
        try:
            J.run(derivative_case(c, 'replay', r.get('label', 'replay'), e, r['wrt'], args, second=False, outcome=J.outcome, of_simplified=True))
        finally:
            J.session.stop()
        for k, v in sorted(J.outcome.items()): c.count(k, v)
        c.obligation('replay', not c.violations, 'validation', 'recorded input re-validated')
        return
    cases = []
    cases += stream_classes(c, J)
    cases += stream_special(c, J)
    ntc = stream_transformcoords(c, J)
    cases += stream_withderivative(c, J, 6 if quick else 60)
    cases += stream_function(c, J, 10 if quick else 120)
    cases += stream_custom(c, J, 6 if quick else 40)
    stream_factor(c, J, 12 if quick else 120)
    c.log('factor stream done')
    cases += stream_random(c, J, 40 if quick else 700, 3 if quick else 4)
    c.log('%d cases generated' % len(cases))
    c.rng.shuffle(cases) if False else None
    # batches keep the driver's memory and the latency bounded
    B = 200
    try:
        for i in range(0, len(cases), B):
            J.run(cases[i:i+B])
            c.log('judged %d/%d' % (min(i+B, len(cases)), len(cases)))
        nprobe = stream_defined_where_differentiable(c, J)
        nint = stream_intbool(c, J)
    finally:
        J.session.stop()
    c.extra['lean_time_limit_restarts'] = J.session.restarts
    # open known findings of this property: the directed probes above are their corpus cases
    for entry in c.findings:
        if entry.get('status') == 'open':
            c.report_known_still_failing(entry, entry.get('signature') in J.known_hit or any(entry.get('signature') == k for k in RAISED_KNOWN))
    c.obligation('explore:int-bool-zero-derivative', nint > 0, 'exploration', '%d integer/boolean node classes depending on a real argument through a comparison' % nint)
    for k, v in sorted(J.outcome.items()): c.count(k, v)
    c.extra['by_stream'] = {k: dict(v) for k, v in J.by_stream.items()}
    c.extra['proved_symbolically_for_all_real_values'] = J.nsym
    c.extra['decided_exactly_or_closely_at_sample_point'] = J.npoint
    c.extra['decided_numerically_on_real_code'] = J.nnum
    # ---- per-class hit table of the real `_derivative` rules
    table = {cls.__name__: HITS.get(cls.__name__, 0) for cls in derivative_classes()}
    c.extra['derivative_rule_hits'] = table
    c.extra['derivative_rule_hits_by_node_class'] = dict(HITS_CONCRETE)
    never = sorted(k for k, v in table.items() if v == 0)
    c.extra['derivative_rules_never_hit'] = never
    expected_unhit = {'FloatToComplex'}
    c.obligation('coverage:every-derivative-rule-hit', set(never) <= expected_unhit, 'coverage', 'never hit: %s' % (never or 'none'))
    pw_never = sorted(cls.__name__ for cls in pointwise_with_deriv() if HITS_CONCRETE.get(cls.__name__, 0) == 0)
    c.obligation('coverage:every-pointwise-deriv-entry-hit', not pw_never, 'coverage', 'never hit: %s' % (pw_never or 'none'))
    c.obligation('corr:spec-eval', J.nspec_bad == 0 and J.nspec > 0, 'correspondence', '%d trees (expressions and derivative trees) evaluated identically by the Lean spec and the real code' % J.nspec)
    viol = [v for v in c.violations if v[2].startswith('derivative-')]
    c.obligation('valid:derivative-equals-formal-jacobian', not viol and J.nsym > 0, 'validation',
                 '%d symbolic (all real values) + %d at the sample point + %d numeric' % (J.nsym, J.npoint, J.nnum))
    c.obligation('explore:transformcoords-fd', ntc > 0, 'exploration', 'TransformCoords derivative against finite differences only')
    # ---- a broken table proof / build: search a failing input on the real code first
    for b in broken:
        found = search_pointwise_failing(c, rows)
        if not found and not c.violations:
            c.broken_no_input('proof', b, dict(detail=b))
        elif not found:
            c.log('proof broken (%s); failing inputs already reported by the validation streams' % b[:80])
