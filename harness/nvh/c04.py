"""C04 — symbolic derivatives equal the true derivatives.

(X) `Generated/C04.lean` is regenerated on every run: every `Pointwise.deriv` entry found by introspection is APPLIED
    to scalar evaluable Arguments and the resulting evaluable tree is serialised into the scalar language `SE`
    (plus the derivative trees of reciprocal / negative / sqrt / abs / divide / power); `Props/C04.lean` proves over ℝ
    (Mathlib) that every claimed entry is the true partial derivative (`derivTable_sound`).
(V) for generated expressions `e` the REAL tree `evaluable.derivative(e, x)` (un-simplified and simplified; also the
    derivative of the derivative) is serialised and evaluated by the Lean specification semantics; the driver
    `Drivers/C04.lean` compares every entry with the formal partial derivative (`Model/C04.lean: pderiv`) of the
    symbolic value of `e`: equal normal forms = equal for all real values of x.
(M) one minimal instance per node class that defines `_derivative`, same check; the per-class hit table (counted by
    wrapping the real `_derivative` methods) is printed in the evidence.
Candidates are confirmed on the real code (real evaluation of the derivative tree + 6-point central finite
differences of the real `eval_once` at dyadic points) before they are reported as failing inputs.
"""
import base64, pickle, json, collections, functools, inspect, itertools, math
from fractions import Fraction
import numpy
from nutils import evaluable as ev, function, types
from . import genexpr, ser, shrink, polykey, exprcheck as X
from .common import Infra

# ------------------------------------------------------------------------------------------------ (X) extraction

FN_NAME = {'Sin': 'sin', 'Cos': 'cos', 'Tan': 'tan', 'ArcSin': 'arcsin', 'ArcCos': 'arccos', 'ArcTan': 'arctan', 'Exp': 'exp', 'Log': 'log',
           'SinH': 'sinh', 'CosH': 'cosh', 'TanH': 'tanh', 'ArcTanH': 'arctanh', 'ArcTan2': 'arctan2', 'Minimum': 'min', 'Maximum': 'max',
           'Sign': 'sign', 'Absolute': 'abs', 'Reciprocal': 'inv', 'FloorDivide': 'fdiv', 'Mod': 'fmod'}


class NotScalarLanguage(Exception):
    pass


def rat_lean(x):
    f = Fraction(x)
    return '.const (%d) %d' % (f.numerator, f.denominator)


def to_se(e):
    """scalar evaluable tree over Arguments x0, x1 -> SE term (Lean syntax)"""
    cls, args = e.__reduce__()
    n = cls.__name__
    if n == 'Argument':
        if not (args[0].startswith('x') and args[0][1:].isdigit()): raise NotScalarLanguage('argument ' + args[0])
        return '.var %s' % args[0][1:]
    if e.ndim != 0:
        raise NotScalarLanguage('not 0-d: ' + n)
    if n == 'Constant':
        v = numpy.asarray(args[0]).reshape(())[()]
        if isinstance(v, (complex, numpy.complexfloating)): raise NotScalarLanguage('complex')
        return rat_lean(float(v) if isinstance(v, (float, numpy.floating)) else int(v))
    if n == 'Zeros':
        return '.const (0) 1'
    if n in ('IntToFloat', 'BoolToInt'):
        return to_se(args[0])
    if n in ('Add', 'Multiply'):
        ops = sorted(to_se(a) for a in args[0])
        if len(ops) != 2: raise NotScalarLanguage(n + ' arity')
        return '(%s (%s) (%s))' % ('.add' if n == 'Add' else '.mul', ops[0], ops[1])
    if n == 'Power':
        return '(.pow (%s) (%s))' % (to_se(args[0]), to_se(args[1]))
    if n == 'Sinc':
        return '(.app1 "sinc%d" (%s))' % (args[1], to_se(args[0]))
    fn = FN_NAME.get(n)
    if fn is not None and len(args) == 1:
        return '(.app1 "%s" (%s))' % (fn, to_se(args[0]))
    if fn is not None and len(args) == 2:
        return '(.app2 "%s" (%s) (%s))' % (fn, to_se(args[0]), to_se(args[1]))
    raise NotScalarLanguage(n)


def all_subclasses(c):
    out = []
    for s in c.__subclasses__():
        out.append(s); out += all_subclasses(s)
    return out


def pointwise_with_deriv():
    seen, out = set(), []
    for cls in sorted(all_subclasses(ev.Pointwise), key=lambda c: c.__name__):
        if cls in seen or cls.deriv is None: continue
        seen.add(cls); out.append(cls)
    return out


def scalar_args(n):
    return [ev.Argument('x%d' % i, (), float) for i in range(n)]


def derived_ops():
    """(name, arity, constructor on scalar arguments): array functions whose derivative goes through the generic rules
    (Power._derivative both branches, Multiply._derivative, Add._derivative, Argument._derivative)"""
    return [('reciprocal', 1, lambda x: ev.reciprocal(x)), ('negative', 1, lambda x: ev.negative(x)), ('sqrt', 1, lambda x: ev.sqrt(x)),
            ('abs', 1, lambda x: ev.abs(x)), ('power:3', 1, lambda x: ev.power(x, ev.constant(3.))), ('power:5/2', 1, lambda x: ev.power(x, ev.constant(2.5))),
            ('power:-2', 1, lambda x: ev.power(x, ev.constant(-2.))), ('divide', 2, lambda x, y: ev.divide(x, y)), ('subtract', 2, lambda x, y: ev.subtract(x, y)),
            ('powvar', 2, lambda x, y: ev.Power(x, y))]


def extract_table():
    """rows (name, arity, pos, fn SE, deriv SE | None, note, class) from the REAL code"""
    rows = []
    for cls in pointwise_with_deriv():
        nargs = len(cls.deriv)
        params = [p.default for p in list(inspect.signature(cls).parameters.values())[nargs:]]
        xs = scalar_args(nargs)
        try:
            inst = cls(*xs, *params)
            fn = to_se(inst)
        except Exception as ex:
            rows.append((cls.__name__, nargs, 0, None, None, 'cannot instantiate: %r' % ex, cls.__name__)); continue
        name = FN_NAME.get(cls.__name__) or ('sinc%d' % inst.n if cls.__name__ == 'Sinc' else cls.__name__.lower())
        for i, d in enumerate(cls.deriv):
            try:
                tree = d(*inst.dependencies, *inst.parameters)
                rows.append((name, nargs, i, fn, to_se(ev.asarray(tree)), None, cls.__name__))
            except NotScalarLanguage as ex:
                rows.append((name, nargs, i, fn, None, 'outside SE: %s' % ex, cls.__name__))
    for name, n, mk in derived_ops():
        xs = scalar_args(n)
        op = mk(*xs)
        for i in range(n):
            try:
                rows.append((name, n, i, to_se(op), to_se(ev.derivative(op, xs[i])), None, 'derived'))
            except (NotScalarLanguage, NotImplementedError) as ex:
                rows.append((name, n, i, None, None, 'outside SE: %r' % ex, 'derived'))
    return rows


def generated_text(rows):
    lines = ['import NutilsVerif.Model.C04',
             '/-! GENERATED on every run by harness/nvh/c04.py from the running nutils source: every `Pointwise.deriv` entry applied to scalar',
             'Arguments and the derivative trees of the derived scalar operations, serialised into `SE` — do not edit. -/',
             'namespace NutilsVerif.C04.Generated', 'open NutilsVerif.C04', '',
             '/-- (function name, arity, position, the function, the derivative tree the code produces) -/', 'def table : List Entry := [']
    ents = ['  ⟨"%s", %d, %d, %s, %s⟩' % (name, n, i, fn, d) for name, n, i, fn, d, note, cls in rows if d is not None]
    lines.append(',\n'.join(ents))
    lines += [']', '', '/-- entries of the code that could not be expressed in `SE` (not claimed) -/',
              'def outside : List (String × Nat) := [' + ', '.join('("%s", %d)' % (name, i) for name, n, i, fn, d, note, cls in rows if d is None) + ']', '',
              'end NutilsVerif.C04.Generated', '']
    return '\n'.join(lines)
