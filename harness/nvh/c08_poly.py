"""Exact polynomial oracle for C08: multivariate polynomials with Fraction coefficients (fields and geometry maps),
formal derivatives, composition, exact integration over the unit box, float evaluation, and the nutils expression of
the same polynomial in a given function array."""
from fractions import Fraction
import itertools, numpy


class P:
    """polynomial in n variables: {exponent tuple: Fraction}"""

    def __init__(self, n, terms=None):
        self.n = n
        self.t = {}
        for e, c in (terms or {}).items():
            c = Fraction(c)
            if c:
                e = tuple(e) + (0,) * (n - len(e))
                self.t[e] = self.t.get(e, 0) + c
        self.t = {e: c for e, c in self.t.items() if c}

    # ---- construction
    @staticmethod
    def const(n, c):
        return P(n, {(0,) * n: c})

    @staticmethod
    def var(n, i):
        return P(n, {tuple(1 if j == i else 0 for j in range(n)): 1})

    @staticmethod
    def random(rng, n, maxdeg, nterms=None, coeffs=(-3, -2, -1, 1, 2, 3)):
        monos = [e for e in itertools.product(range(maxdeg + 1), repeat=n) if sum(e) <= maxdeg]
        k = nterms or rng.randint(2, 4)
        chosen = rng.sample(monos, min(k, len(monos)))
        top = [e for e in monos if sum(e) == maxdeg]
        if not any(sum(e) == maxdeg for e in chosen):
            chosen[0] = rng.choice(top)
        return P(n, {e: rng.choice(coeffs) for e in chosen})

    # ---- algebra
    def __add__(self, o):
        if not isinstance(o, P): o = P.const(self.n, o)
        t = dict(self.t)
        for e, c in o.t.items(): t[e] = t.get(e, 0) + c
        return P(self.n, t)

    __radd__ = __add__

    def __neg__(self):
        return P(self.n, {e: -c for e, c in self.t.items()})

    def __sub__(self, o):
        return self + (-o if isinstance(o, P) else -Fraction(o))

    def __mul__(self, o):
        if not isinstance(o, P):
            return P(self.n, {e: c * Fraction(o) for e, c in self.t.items()})
        t = {}
        for e1, c1 in self.t.items():
            for e2, c2 in o.t.items():
                e = tuple(a + b for a, b in zip(e1, e2))
                t[e] = t.get(e, 0) + c1 * c2
        return P(self.n, t)

    __rmul__ = __mul__

    def __pow__(self, k):
        r = P.const(self.n, 1)
        for _ in range(k): r = r * self
        return r

    def deriv(self, i):
        return P(self.n, {tuple(a - (j == i) for j, a in enumerate(e)): c * e[i] for e, c in self.t.items() if e[i]})

    def degree(self):
        return max((sum(e) for e in self.t), default=0)

    def maxdegree(self):
        """largest exponent of a single variable"""
        return max((max(e, default=0) for e in self.t), default=0)

    def compose(self, maps):
        """self(maps[0], maps[1], ...) exactly; maps are P in m variables"""
        m = maps[0].n
        r = P(m)
        cache = {}
        for e, c in self.t.items():
            term = P.const(m, c)
            for i, a in enumerate(e):
                if a:
                    key = (i, a)
                    if key not in cache: cache[key] = maps[i] ** a
                    term = term * cache[key]
            r = r + term
        return r

    def integrate_box(self):
        """exact integral over [0,1]^n"""
        s = Fraction(0)
        for e, c in self.t.items():
            d = 1
            for a in e: d *= a + 1
            s += c / d
        return s

    # ---- evaluation
    def __call__(self, X):
        X = numpy.asarray(X, dtype=float)
        r = numpy.zeros(X.shape[:-1])
        for e, c in self.t.items():
            term = numpy.full(X.shape[:-1], float(c))
            for i, a in enumerate(e):
                if a: term = term * X[..., i] ** a
            r = r + term
        return r

    def exact(self, x):
        """exact value at a point of Fractions"""
        s = Fraction(0)
        for e, c in self.t.items():
            for i, a in enumerate(e): c = c * x[i] ** a
            s += c
        return s

    def nutils(self, x):
        """the same polynomial as a nutils function of the (function) vector x"""
        r = 0.
        for e, c in self.t.items():
            term = float(c)
            for i, a in enumerate(e):
                if a: term = term * x[i] ** a
            r = r + term
        if isinstance(r, float):
            from nutils import function
            r = function.Array.cast(r) + x[0] * 0.
        return r

    def json(self):
        def q(c): return str(c.numerator) if c.denominator == 1 else '%d/%d' % (c.numerator, c.denominator)
        return [[q(c), list(e)] for e, c in sorted(self.t.items())]

    def __repr__(self):
        return ' + '.join('%s*%s' % (c, 'x'.join(map(str, e))) for e, c in sorted(self.t.items())) or '0'


def jacobian_det(maps):
    """exact determinant of the Jacobian of a square polynomial map (n <= 3)"""
    n = len(maps)
    J = [[m.deriv(j) for j in range(n)] for m in maps]
    if n == 1: return J[0][0]
    if n == 2: return J[0][0] * J[1][1] - J[0][1] * J[1][0]
    if n == 3:
        return (J[0][0] * (J[1][1] * J[2][2] - J[1][2] * J[2][1]) - J[0][1] * (J[1][0] * J[2][2] - J[1][2] * J[2][0])
                + J[0][2] * (J[1][0] * J[2][1] - J[1][1] * J[2][0]))
    raise NotImplementedError


def jac_at(maps, X):
    """float Jacobian (..., D, d) of a polynomial map at points X (..., d)"""
    return numpy.stack([numpy.stack([m.deriv(j)(X) for j in range(m.n)], -1) for m in maps], -2)


DY = [Fraction(a, b) for b in (1, 2, 4) for a in range(-3 * b, 3 * b + 1)]


def random_affine(rng, n, D=None):
    """anisotropic, non-symmetric dyadic matrix with |det| >= 1/4 (square) or full column rank (D = n+1), plus offset"""
    D = D or n
    vals = [Fraction(v) for v in (-2, -1, Fraction(-1, 2), 0, 0, Fraction(1, 2), 1, Fraction(3, 2), 2, 3)]
    while True:
        A = [[rng.choice(vals) for _ in range(n)] for _ in range(D)]
        M = numpy.array([[float(a) for a in r] for r in A])
        if D == n:
            if abs(numpy.linalg.det(M)) < .25: continue
            if n > 1 and numpy.allclose(M, M.T): continue
            sv = numpy.linalg.svd(M, compute_uv=False)
            if n > 1 and sv[0] / sv[-1] < 1.3: continue   # isotropic scalings hide J <-> J^-1 confusions
        else:
            sv = numpy.linalg.svd(M, compute_uv=False)
            if sv[-1] < .3: continue
        b = [rng.choice(vals) for _ in range(D)]
        return A, b


def affine_map(A, b):
    n = len(A[0])
    return [sum((P.var(n, j) * A[i][j] for j in range(n)), P.const(n, b[i])) for i in range(len(A))]


def random_map(rng, n, kind, D=None):
    """polynomial map of the unit box: 'affine' | 'bilinear' | 'quadratic'; returns (maps, sign of det or None for D>n)"""
    D = D or n
    for _ in range(200):
        A, b = random_affine(rng, n, D)
        maps = affine_map(A, b)
        if kind != 'affine':
            eps = [Fraction(1, 8), Fraction(-1, 8), Fraction(1, 4), Fraction(-1, 4), Fraction(1, 16)]
            for i in range(D):
                if kind == 'bilinear':
                    monos = [e for e in itertools.product(range(2), repeat=n) if sum(e) >= 2] or [tuple([2] * n)]
                else:
                    monos = [e for e in itertools.product(range(3), repeat=n) if sum(e) == 2]
                for e in rng.sample(monos, min(len(monos), rng.randint(1, 2))):
                    maps[i] = maps[i] + P(n, {e: rng.choice(eps)})
        # validity on the unit box: the Jacobian stays away from singular
        g = numpy.stack(numpy.meshgrid(*[numpy.linspace(0, 1, 7)] * n, indexing='ij'), -1).reshape(-1, n)
        J = jac_at(maps, g)
        if D == n:
            d = numpy.linalg.det(J)
            if d.min() * d.max() <= 0 or abs(d).min() < .2: continue
            return maps, (1 if d[0] > 0 else -1)
        else:
            sv = numpy.linalg.svd(J, compute_uv=False)
            if sv[..., -1].min() < .25: continue
            return maps, None
    raise RuntimeError('no valid map found')
