import sys, importlib
from . import common

def main():
    prop = sys.argv[1]
    mod = importlib.import_module('nvh.' + prop.lower())
    sys.exit(common.run_check(prop, mod.run, sys.argv[2:]))

if __name__ == '__main__':
    main()
