"""Systematic small-tree enumeration of evaluable expressions (the interaction space of the swap rules).

Level 0 holds leaves (shared Arguments, constants, zeros) of a few small shapes; level L+1 applies every unary
constructor to level-L trees and every binary constructor to (level-L tree, any earlier tree of the same type),
so all class triples (outer, middle, inner) with shared leaves are reachable at level 3.  Each level is capped by
bucketed sampling (bucket = (outer class, classes of the operands)), so that rare class combinations are kept
preferentially; with enough budget (thorough tier) the levels are exhaustive for the chosen leaves.
"""
import numpy, itertools
from nutils import evaluable as ev, types


def const(v):
    return ev.Constant(types.arraydata(numpy.asarray(v)))


def cshape(shape):
    return tuple(ev.constant(int(n)) for n in shape)


def _name(o):
    n = type(o).__name__
    if isinstance(o, ev.Power):
        c = o.power._const_uniform if isinstance(o.power, ev.Constant) and o.power.ndim == 0 else (o.power.value.flat[0] if isinstance(o.power, ev.Constant) and o.power.value.size else None)
        return 'Power[%s]' % c
    if isinstance(o, ev.Transpose):
        return 'Transpose%s' % (o.axes,)
    if isinstance(o, ev.Take) and isinstance(o.indices, ev.Constant):
        return 'Take%s' % (o.indices.value.tolist(),)
    if isinstance(o, ev.Inflate) and isinstance(o.dofmap, ev.Constant):
        return 'Inflate%s' % (o.dofmap.value.tolist(),)
    return n


def _operands(o):
    """the array-valued operands that carry data (not shapes / constant indices)"""
    if isinstance(o, (ev.Add, ev.Multiply)):
        return list(o.funcs)
    if isinstance(o, (ev.Minimum, ev.Maximum)):
        return [o.x, o.y]
    if isinstance(o, ev.LoopSum):
        return [o.func]
    for attr in ('func', 'arg'):
        if hasattr(o, attr) and isinstance(getattr(o, attr), ev.Array):
            return [getattr(o, attr)]
    return []


def skeleton(o, depth):
    if depth == 0 or isinstance(o, (ev.Argument, ev.Constant, ev.Zeros)):
        return _name(o)
    return _name(o) + '(' + ','.join(sorted(skeleton(c, depth-1) for c in _operands(o))) + ')'


def _leaves(o, acc=None):
    acc = set() if acc is None else acc
    ops = _operands(o)
    if not ops:
        acc.add(id(o))
    for c in ops:
        _leaves(c, acc)
    return acc


class Enum:
    def __init__(self, rng, n=2, dtype=float):
        self.rng = rng
        self.n = n
        self.dtype = dtype
        shapes = [(n,), (n, n), (n, n, n)]
        self.args = {}
        self.leaves = []
        vals = numpy.random.default_rng(rng.getrandbits(32))
        for sh in shapes:
            for name in ('a', 'b'):
                nm = '%s%d' % (name, len(sh))
                if dtype == float:
                    v = vals.integers(-6, 7, sh) / rng.choice([1., 2.])
                    v[v == 0] = 1.5
                else:
                    v = vals.integers(-3, 4, sh)
                self.args[nm] = v
                self.leaves.append(ev.Argument(nm, cshape(sh), dtype))
            self.leaves.append(const(numpy.arange(1, 1 + int(numpy.prod(sh))).reshape(sh).astype(dtype) / (2 if dtype == float else 1)) if dtype == float
                               else const(numpy.arange(1, 1 + int(numpy.prod(sh))).reshape(sh)))
        self.leaves.append(ev.Zeros(cshape((n, n)), dtype))

    def negated_args(self):
        return {k: -v for k, v in self.args.items()}

    @staticmethod
    def shape(e):
        return tuple(int(k) for k in e.shape)

    def unary(self, e):
        sh = self.shape(e); nd = len(sh); n = self.n
        F = self.dtype == float
        T = [lambda: ev.Negative(e), lambda: ev.Absolute(e), lambda: ev.Sign(e),
             lambda: ev.negative(e),   # what the library's unary minus builds: Multiply(e, -1)
             lambda: ev.Multiply(types.frozenmultiset([e, const(numpy.full(sh, 2, dtype=self.dtype))]))]
        for p in ([2., 3., 4., .5, .25, .125, 1.5, -1., -2.] if F else [0, 1, 2, 3]):
            T.append(lambda p=p: ev.Power(e, const(numpy.full(sh, p, dtype=self.dtype))))
        if nd >= 1:
            T += [lambda: ev.Sum(e), lambda: ev.Product(e)]
            if nd < 3:
                T.append(lambda: ev.Diagonalize(e))
            if sh[-1] == 2:
                T.append(lambda: ev.Take(e, const(numpy.array([1, 0]))))
            T.append(lambda: ev.Take(e, const(numpy.array(1))))
            T.append(lambda: ev.Inflate(e, const(numpy.array([1, 0])), ev.constant(n)))
            T.append(lambda: ev.Inflate(e, const(numpy.array([0, 0])), ev.constant(n)))
            T.append(lambda: ev.Inflate(e, const(numpy.array(1)), ev.constant(n)))
        if nd >= 2:
            T.append(lambda: ev.TakeDiag(e))
            T.append(lambda: ev.Ravel(e))
            for axes in itertools.permutations(range(nd)):
                if axes != tuple(range(nd)):
                    T.append(lambda axes=axes: ev.Transpose(e, axes))
            if F and sh[-1] == sh[-2]:
                T.append(lambda: ev.Determinant(e))
        if nd >= 1 and sh[-1] == n * n:
            T.append(lambda: ev.Unravel(e, ev.constant(n), ev.constant(n)))
        if nd <= 2:
            T.append(lambda: ev.InsertAxis(e, ev.constant(n)))
        if F:
            T += [lambda: ev.Sin(e), lambda: ev.Exp(e)]
        def loop():
            idx = ev.loop_index('l', ev.constant(2))
            w = ev.IntToFloat(idx) if F else idx
            for k in sh:
                w = ev.InsertAxis(w, ev.constant(k))
            return ev.loop_sum(ev.Multiply(types.frozenmultiset([e, w])), idx)
        T.append(loop)
        return self._run(T)

    def binary(self, e, f):
        return self._run([lambda: ev.Add(types.frozenmultiset([e, f])), lambda: ev.Multiply(types.frozenmultiset([e, f])),
                          lambda: ev.Minimum(e, f), lambda: ev.Maximum(e, f)])

    def _run(self, thunks):
        out = []
        for t in thunks:
            try:
                o = t()
            except (AssertionError, ValueError, TypeError):
                continue
            if len(self.shape(o)) <= 3:
                out.append(o)
        return out

    def related(self, pool, cap):
        """binary combinations of a tree with partners it is structurally related to: its own leaves and operands of the
        same shape, and the tree's outer constructor applied to every leaf (where that gives the same shape).  These are
        the cases in which the merging / cancelling rules (_add, _multiply of equal factors, diagonal sums, ...) fire."""
        out = []
        seen = set()
        leafvariants = {}
        for leaf in self.leaves:
            for o in self.unary(leaf):
                leafvariants.setdefault((_name(o), self.shape(o)), []).append(o)
        for t in pool:
            sh = self.shape(t)
            partners = []
            def collect(o, depth=0):
                for c in _operands(o):
                    if self.shape(c) == sh: partners.append(c)
                    if depth < 3: collect(c, depth+1)
            collect(t)
            partners += leafvariants.get((_name(t), sh), [])
            for p_ in partners[:8]:
                for o in self.binary(t, p_)[:2]:   # Add, Multiply
                    if id(o) not in seen:
                        seen.add(id(o)); out.append(o)
        self.rng.shuffle(out)
        return out[:cap]

    def core(self):
        """deterministic, exhaustive 'algebraic core': t = op(u, leaf) for every unary variant u of a leaf and every leaf of
        the same shape, combined (Add / Multiply) with every operand / leaf it is built from.  Covers x*y+x, (-x)*y+x,
        f(x)+f(y)-type interactions of the _add / _multiply rules without sampling."""
        level1 = [o for leaf in self.leaves for o in self.unary(leaf)]
        out, seen = [], set()
        for u in level1:
            sh = self.shape(u)
            for leaf in self.leaves:
                if self.shape(leaf) != sh: continue
                for t in self.binary(u, leaf)[:2]:
                    partners = [u, leaf] + [c for c in _operands(u) if self.shape(c) == sh]
                    for p_ in partners:
                        for o in self.binary(t, p_)[:2]:
                            if id(o) not in seen:
                                seen.add(id(o)); out.append(o)
        return out

    def levels(self, nlevels, cap):
        """returns list of lists of trees per level"""
        pools = [list(self.leaves)]
        seen = {id(e) for e in self.leaves}
        for L in range(nlevels):
            cands = {}
            def add(o, key):
                if id(o) in seen: return
                seen.add(id(o)); cands.setdefault(key, []).append(o)
            cur = pools[-1]
            earlier = [e for p in pools for e in p]
            byshape = {}
            for e in earlier:
                byshape.setdefault(self.shape(e), []).append(e)
            for e in cur:
                for o in self.unary(e):
                    add(o, skeleton(o, 2))
                partners = byshape.get(self.shape(e), [])
                if len(partners) > 14:
                    same = [f for f in partners if type(f) is type(e)]
                    lv = _leaves(e)
                    sharing = [f for f in partners if _leaves(f) & lv and len(_operands(f)) <= 1]
                    partners = self.rng.sample(same, min(5, len(same))) + self.rng.sample(sharing, min(5, len(sharing))) + self.rng.sample(partners, 4)
                for f in partners:
                    shared = bool(_leaves(e) & _leaves(f))
                    for o in self.binary(e, f):
                        add(o, skeleton(o, 2) + ('|shared' if shared else '|same' if type(e) is type(f) and _operands(e) else ''))
            # bucketed sampling; buckets of binary nodes whose operands are related (shared leaf / same outer class) are the
            # interaction cases of the swap rules (_add, _multiply): they get half of the budget
            def pick(keys, budget, chosen):
                keys = list(keys); self.rng.shuffle(keys)
                n0 = len(chosen)
                while keys and len(chosen) - n0 < budget:
                    for k in list(keys):
                        lst = cands[k]
                        chosen.append(lst.pop(self.rng.randrange(len(lst))))
                        if not lst: keys.remove(k)
                        if len(chosen) - n0 >= budget: break
            related = [k for k in cands if k.endswith('|shared') or k.endswith('|same')]
            chosen = []
            pick(related, cap // 2, chosen)
            pick([k for k in cands if cands[k]], cap - len(chosen), chosen)
            pools.append(chosen)
        return pools

