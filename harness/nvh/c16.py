"""C16 — parallel evaluation equals serial evaluation.

Ties to the source (see notes/C16.md):
 (X)+(V) every script that `evaluable.compile` generates under `parallel.maxprocs(n>1)` for a corpus of real expressions (and the
     source of `Topology._locate`) is parsed with `ast`; the purely syntactic description goes to the Lean driver, which decides the
     lock discipline `lockOK` (Props: `lockOK_sufficient`, `locked_accumulate`, `disjoint_puts_serial`).
 (M) real runs: results under maxprocs 2,3,4,8 == maxprocs(1) (integer / dyadic data → exact), with and without a race amplifier
     (non-atomic `numpy.add(out=)` / `numpy.add.at` in the script's globals) and with randomised per-iteration delays;
     the real `parallel.range.__next__` and `parallel.fork` driven micro step by micro step from real processes under a deterministic
     scheduler and compared with the Lean machine; fault injection (exception / SIGKILL in a chosen process at a chosen iteration);
     `_wait` on all 65536 raw wait statuses and on real children; `fork` width / nesting; `shempty`/`shzeros`.
"""
import os, sys, time, signal, struct, pickle, select, itertools, inspect, re, multiprocessing, contextlib
import numpy
from .common import Infra
from . import c16_extract as X
from . import c16_sched as S
from . import c16_zoo as Z

MAIN_PID = os.getpid()

# ------------------------------------------------------------------------------------------------ script capture / amplifier

class _AddProxy:
    """numpy.add with an artificially wide window between the read and the write of an in-place update"""
    def __init__(self, delay): self.delay = delay
    def __call__(self, x, y, out=None, **kw):
        if out is None:
            return numpy.add(x, y, **kw)
        tmp = numpy.add(x, y, **kw)
        time.sleep(self.delay)
        numpy.copyto(out, tmp)
        return out
    def at(self, a, idx, vals):
        tmp = numpy.array(a, copy=True)
        numpy.add.at(tmp, idx, vals)
        time.sleep(self.delay)
        a[...] = tmp
    def __getattr__(self, name):
        return getattr(numpy.add, name)


class _NumpyProxy:
    def __init__(self, delay): self.add = _AddProxy(delay)
    def __getattr__(self, name):
        return getattr(numpy, name)


class Capture:
    """records every script compiled through nutils._util.function; optionally swaps `numpy` in its globals"""
    def __init__(self, amplify=0.):
        self.scripts = []; self.amplify = amplify
    def __enter__(self):
        import nutils._util as U
        self.U = U; self.orig = U.function
        def wrapped(script, globals={}):
            self.scripts.append(script)
            if self.amplify and 'ctxrange' in script:
                globals = dict(globals, numpy=_NumpyProxy(self.amplify))
            return self.orig(script, globals)
        U.function = wrapped
        return self
    def __exit__(self, *exc):
        self.U.function = self.orig


@contextlib.contextmanager
def quiet():
    import treelog
    with treelog.set(treelog.NullLog()):
        yield


@contextlib.contextmanager
def parent_claims_last(timeout=15.):
    """scheduling perturbation: on every `parallel.range` that is created outside a fork body, the calling process' first `__next__`
    is delayed until another process has claimed an iteration (or the timeout expires).  The real `__init__` / `__next__` do the work;
    a delay before a call is just one more legal schedule."""
    from nutils import parallel
    me = os.getpid()
    orig_init, orig_next = parallel.range.__init__, parallel.range.__next__
    def init(self, stop):
        orig_init(self, stop)
        self._c16flag = multiprocessing.RawValue('i', 0) if parallel.maxprocs.current > 1 and stop > 0 else None
    def steered(self):
        flag = getattr(self, '_c16flag', None)
        if flag is not None and os.getpid() == me and not flag.value:
            t_end = time.time() + timeout
            while not flag.value and time.time() < t_end:
                time.sleep(0.002)
        v = orig_next(self)
        if flag is not None: flag.value = 1
        return v
    parallel.range.__init__, parallel.range.__next__ = init, steered
    try:
        yield
    finally:
        parallel.range.__init__, parallel.range.__next__ = orig_init, orig_next


# ------------------------------------------------------------------------------------------------ probe evaluable

HOOK = [None]
_probe_cls = [None]

def probe_class():
    if _probe_cls[0] is None:
        from nutils import evaluable as ev, _pyast
        class C16Probe(ev.Array):
            index: ev.Array
            dtype = int
            @property
            def dependencies(self): return self.index,
            @property
            def shape(self): return ()
            @staticmethod
            def evalf(index):
                h = HOOK[0]
                if h is not None: h(int(index))
                return index
            def _compile_expression(self, index):
                return _pyast.Variable('evaluable').get_attr('_C16Probe').get_attr('evalf').call(index)
            def _intbounds_impl(self):
                return self.index._intbounds
        ev._C16Probe = C16Probe   # reachable from the generated script through its `evaluable` global (attribute of the imported module object, /repo is untouched)
        _probe_cls[0] = C16Probe
    return _probe_cls[0]


# ------------------------------------------------------------------------------------------------ expression generators

def canon(x):
    """exact canonical form of a (nested) result: dtype kind, shape, values as python ints or float.hex"""
    if isinstance(x, (tuple, list)):
        return tuple(canon(y) for y in x)
    a = numpy.asarray(x)
    if a.dtype.kind in 'biu':
        return ('i', a.shape, tuple(int(v) for v in a.ravel()))
    if a.dtype.kind == 'f':
        return ('f', a.shape, tuple(float(v).hex() for v in a.ravel()))
    if a.dtype.kind == 'c':
        return ('c', a.shape, tuple((float(v.real).hex(), float(v.imag).hex()) for v in a.ravel()))
    return ('o', a.shape, repr(a.tolist()))


def gen_evaluable(rng, probe=True):
    """random evaluable with outer (and nested) loops over integer / dyadic data; returns (tag, tuple of evaluables, n)"""
    from nutils import evaluable as ev
    P = probe_class()
    n = rng.choice([1, 2, 3, 4, 5, 6, 8])
    i = ev.loop_index('i', n)
    ip = P(i) if probe else i
    m = rng.choice([2, 3, 4])
    tags = []; outs = []
    dt = [int]
    def fl(x):
        return ev.astype(x, float) * 0.5 if dt[0] is float else x
    def scalar():
        k = rng.randrange(3)
        if k == 0: return fl(ip * ip + 1)
        if k == 1: return fl(ip * 3 - 2)
        return fl(ip % 2 + ev.FloorDivide(ip, ev.constant(2)))
    def vector(length=None):
        L = length or rng.choice([1, 2, 3])
        r = ev.Range(ev.constant(L))
        if rng.random() < .5: return fl(ev.insertaxis(ip, 0, ev.constant(L)) * (r + 1))
        return fl((r + ip) % m)
    for _ in range(rng.choice([1, 1, 2, 3])):
        kind = rng.choice(['sum-scalar', 'sum-vector', 'sum-inflate', 'sum-inflate2', 'concat', 'concat-var', 'nested', 'sum-add', 'concat-inflate', 'twoloops', 'post'])
        tags.append(kind)
        dt[0] = rng.choice([int, float])
        if kind == 'sum-scalar':
            outs.append(ev.loop_sum(scalar(), i))
        elif kind == 'sum-vector':
            outs.append(ev.loop_sum(vector(), i))
        elif kind == 'sum-inflate':
            L = rng.choice([1, 2, 3])
            dofs = (ev.Range(ev.constant(L)) * rng.choice([1, 2]) + ip) % (m + 2)
            outs.append(ev.loop_sum(ev._inflate(vector(L), dofs, ev.constant(m + 2), 0), i))
        elif kind == 'sum-inflate2':
            L = 2
            dofs = (ev.Range(ev.constant(L)) + ip) % 3
            v = vector(L)
            mat = ev.insertaxis(v, 1, ev.constant(L)) * ev.insertaxis(v, 0, ev.constant(L))
            a = ev._inflate(ev._inflate(mat, dofs, ev.constant(3), 1), dofs, ev.constant(3), 0)
            outs.append(ev.loop_sum(a, i) if rng.random() < .5 else ev.Transpose(ev.loop_sum(a, i), (1, 0)))
        elif kind == 'concat':
            outs.append(ev.loop_concatenate(vector(), i))
        elif kind == 'concat-var':
            L = ip % 3 + 1
            outs.append(ev.loop_concatenate(ev.Range(L) * 2 + ip, i))
        elif kind == 'nested':
            nj = rng.choice([1, 2, 3])
            j = ev.loop_index('j', nj)
            inner = ev.loop_sum(ip * j + j * j + 1, j)
            outs.append(ev.loop_sum(inner * 2 + ip, i) if rng.random() < .5 else ev.loop_concatenate(ev.insertaxis(inner, 0, ev.constant(1)), i))
        elif kind == 'sum-add':
            L = 2
            d1 = (ev.Range(ev.constant(L)) + ip) % 4
            d2 = (ev.Range(ev.constant(L)) * 2 + ip) % 4
            a = ev._inflate(vector(L), d1, ev.constant(4), 0) + ev._inflate(vector(L), d2, ev.constant(4), 0) + ev.insertaxis(scalar(), 0, ev.constant(4))
            outs.append(ev.loop_sum(a, i))
        elif kind == 'concat-inflate':
            L = 2
            d1 = (ev.Range(ev.constant(L)) + ip) % 3
            a = ev._inflate(vector(L), d1, ev.constant(3), 0) + ev.insertaxis(scalar(), 0, ev.constant(3))
            outs.append(ev.loop_concatenate(ev.insertaxis(a, 1, ev.constant(1)), i))
        elif kind == 'twoloops':
            n2 = rng.choice([n, n + 1, 2])
            k = ev.loop_index('k', n2)
            kp = P(k) if probe else k
            first = ev.loop_sum(kp * 2 + 1, k)
            outs.append(ev.loop_sum(ip * first + 1, i))       # the second loop reads the result of the first
        elif kind == 'post':
            s1 = ev.loop_sum(vector(2), i)
            c1 = ev.loop_concatenate(vector(1), i)
            outs.append(s1 + s1); outs.append(ev.Take(c1, ev.constant(n - 1)))
    return '+'.join(tags), tuple(outs), n


def gen_nutils(rng):
    """nutils-level problems with dyadic data (unit elements, midpoint/uniform/vertex/bezier points) -> (tag, callable returning results)"""
    from nutils import mesh, function
    dim = rng.choice([1, 2, 2])
    shape = [rng.choice([1, 2, 3, 4]) for _ in range(dim)]
    topo, geom = mesh.rectilinear([numpy.arange(k + 1) * 2. for k in shape])      # element size 2: midpoints are integers
    btype, deg = rng.choice([('std', 1), ('discont', 0), ('discont', 1), ('std', 2)])
    basis = topo.basis(btype, degree=deg)
    nb = len(basis)
    uval = numpy.array([float(rng.randint(-3, 3)) for _ in range(nb)])
    u = function.dotarg('u', basis)
    kind = rng.choice(['integrate-vec', 'integrate-mat', 'integrate-scalar', 'sample-eval', 'boundary', 'interfaces', 'integrate-multi', 'refined', 'integral-eval', 'sample-integral'])
    sch = rng.choice([('gauss', 1), ('uniform', 1), ('uniform', 2), ('vertex', 0), ('bezier', 2)])
    J = function.J(geom)
    args = dict(u=uval)
    if kind == 'integrate-vec':
        f = lambda: topo.sample(*sch).integrate(basis * u * J, arguments=args)
    elif kind == 'integrate-mat':
        f = lambda: topo.sample(*sch).integrate(basis[:, None] * basis[None, :] * J, arguments=args)
    elif kind == 'integrate-scalar':
        f = lambda: topo.sample(*sch).integrate((u * u + geom[0]) * J, arguments=args)
    elif kind == 'sample-eval':
        f = lambda: topo.sample(*sch).eval([u, geom, basis], arguments=args)
    elif kind == 'boundary':
        f = lambda: topo.boundary.sample(*sch).integrate([u * J, basis * J], arguments=args)
    elif kind == 'interfaces':
        f = lambda: topo.interfaces.sample(*sch).integrate(function.jump(u) * J, arguments=args) if len(topo.interfaces) else numpy.zeros(())
    elif kind == 'integrate-multi':
        f = lambda: topo.sample(*sch).integrate([basis * J, u * J, basis[:, None] * basis[None, :] * u * J], arguments=args)
    elif kind == 'refined':
        f = lambda: topo.refined.sample(*sch).integrate([basis * J, u * u * J], arguments=args)
    elif kind == 'integral-eval':
        f = lambda: function.eval([topo.sample(*sch).integral(basis * u * J), topo.sample(*sch).integral(u * J)], arguments=args)
    else:
        f = lambda: function.eval(topo.sample(*sch).integral(basis[:, None] * basis[None, :] * u * J), arguments=args)
    def run():
        r = f()
        if isinstance(r, (tuple, list)):
            return tuple(x.export('dense') if hasattr(x, 'export') else x for x in r)
        return r.export('dense') if hasattr(r, 'export') else r
    return '%s/%s%s/%s%d/%s' % (kind, btype, deg, sch[0], sch[1], 'x'.join(map(str, shape))), run


# ------------------------------------------------------------------------------------------------ sub-process runner

def in_subprocess(fn, timeout=30.):
    """run fn() in a forked process (own process group); returns ('ok', value) | ('exc', type, msg) | ('killed', sig) | ('timeout',)"""
    r, w = os.pipe()
    sys.stdout.flush(); sys.stderr.flush()
    pid = os.fork()
    if pid == 0:
        code = 5
        try:
            os.setpgid(0, 0)
            os.close(r)
            dn = os.open(os.devnull, os.O_WRONLY); os.dup2(dn, 1); os.dup2(dn, 2)
            try:
                val = ('ok', fn())
            except BaseException as e:
                val = ('exc', type(e).__name__, str(e)[:300])
            b = pickle.dumps(val)
            os.write(w, struct.pack('<I', len(b)) + b)
            code = 0
        finally:
            os._exit(code)
    os.close(w)
    try:
        try:
            n, = struct.unpack('<I', S._readn(r, 4, timeout))
            val = pickle.loads(S._readn(r, n, timeout))
        except TimeoutError:
            val = ('timeout',)
        except EOFError:
            val = None
    finally:
        os.close(r)
        if val == ('timeout',) or val is None:
            try: os.killpg(pid, signal.SIGKILL)
            except ProcessLookupError: pass
        _, status = os.waitpid(pid, 0)
        try: os.killpg(pid, signal.SIGKILL)      # orphaned grandchildren, if any
        except (ProcessLookupError, PermissionError): pass
    if val is None:
        return ('killed', os.WTERMSIG(status) if os.WIFSIGNALED(status) else -os.WEXITSTATUS(status))
    return val


ALIAS_CORPUS = """def compiled(a):
    lock0 = multiprocessing.Lock()
    v0 = parallel.shempty((c1, c1), dtype='int64')
    with lock0:
        v1 = %s
    with lock0:
        v0.fill(0)
    v6 = c3 + c4
    with parallel.ctxrange('loop 0', c2) as v7:
        for i0 in map(numpy.int_, v7):
            v3 = numpy.einsum(',a->a', i0, v6)
            %s
    return (v0,)
"""

# ================================================================================================ the check

def run(c):
    from nutils import parallel, evaluable as ev, mesh, function, topology
    import treelog
    quick = c.tier == 'quick'
    c.rule = ('scripts: random evaluable DAGs with 1-3 outer loops (LoopSum / LoopConcatenate over scalars, vectors, Inflate scatters, nested loops, '
              'loops reading earlier loops), the in-place protocol zoo (all chains of Transpose / Diagonalize / Add outside and Transpose / Diagonalize / Add / inner LoopSum / inner LoopConcatenate inside a parallel LoopSum / LoopConcatenate over generic / Inflate / Assemble / matrix leaves: all 192 chains of length <= 1 as written, plus a random sample (quick 60, thorough 1500) of the 5424 other (chain of length <= 2, as written | simplified+optimized) combinations) '
              'and nutils integrals / sample evaluations on rectilinear meshes, compiled under maxprocs 2-8; '
              'schedules: event lists s<w>/k<w>/x<w> for 1-4 real processes sharing one parallel.range(0..4), biased to contention inside __next__; '
              'faults: (role, kind, ordinal) in a probe evaluated inside the loop; a case is non-trivial when the loop has >= 2 iterations and >= 2 processes; '
              'distinct by script text / event list / fault triple')
    c.assumptions += [
        'a `with lock:` block is atomic w.r.t. other blocks on the same multiprocessing.Lock, and shared mmap memory is coherent between processes (OS / CPython)',
        'the slices `out[..., start:stop]` written by different iterations of a LoopConcatenate are disjoint (offsets are cumulative sizes); lockOK treats them as private slots',
        'evalf functions called from generated scripts do not modify their arguments in place',
        'tiling: the buffer of an inner LoopConcatenate (process-local, allocated in front of the parallel loop) is completely rewritten by one pass of the inner loop, slice by slice; lockOK accepts such a buffer as per-iteration scratch without establishing that the slices cover it (the exact serial/parallel comparison of the zoo covers it dynamically)',
        'OS scheduling cannot be enumerated: real-process streams explore it (random delays, race amplifier); the theorems quantify over all schedules of the model',
        'a worker SIGKILLed while holding a lock makes the call hang (liveness is outside the property); faults are injected outside lock regions',
    ]
    broken = c.build_and_audit()
    c.log('lean build + audit done')
    import warnings as _w
    _w.filterwarnings('ignore')
    reqs = []      # (kind, payload, request line)
    def ask(kind, payload, line):
        reqs.append((kind, payload, line))

    t_budget = dict(quick=dict(nscripts=45, nnutils=14, nsched=110, nfault=16, amp=10, zoo_extra=60, zoo_dyn=48, zoo_amp=48),
                    thorough=dict(nscripts=700, nnutils=160, nsched=4000, nfault=220, amp=120, zoo_extra=1500, zoo_dyn=500, zoo_amp=400))[c.tier]
    # wall-clock boxes per real-process stream (seconds): the case lists are deterministic, a loaded machine just gets through a shorter prefix
    box = dict(quick=dict(m1=10, m2=6, m3=4, loc=3, sched=10, width=4, shared=4, fault=8, zoo=5, zooamp=5), thorough=dict(m1=200, m2=100, m3=80, loc=40, sched=240, width=30, shared=30, fault=180, zoo=70, zooamp=60))[c.tier]
    import random
    R = {k: random.Random(c.rng.getrandbits(64)) for k in ('m1', 'm2', 'm3', 'loc', 'x', 'sched', 'shared', 'fault', 'explore', 'search', 'zoo')}
    c.search_rng = R['search']
    def boxed(name, items, minimum=3):
        """iterate over items until the stream's time box is used up (but at least `minimum` items)"""
        t_end = time.time() + box[name]
        for k, it in enumerate(items):
            if k >= minimum and time.time() > t_end:
                c.count('timebox:%s:stopped-after' % name, k); return
            yield it

    def mk_regen(evaluate):
        """thunk(nprocs, amplify): evaluate the same expression again, no hooks, optionally with the race amplifier"""
        def thunk(nprocs, amplify=0.):
            HOOK[0] = None
            with quiet(), Capture(amplify=amplify), parallel.maxprocs(nprocs):
                try:
                    return evaluate()
                except Exception as e:
                    return ('exception', type(e).__name__, str(e)[:200])
        return thunk

    # ------------------------------------------------------------------ stream M1: parallel == serial on generated evaluables
    HOOK[0] = None
    par_scripts = {}           # script text -> tag
    regen = {}                 # script text -> thunk(nprocs, amplify) re-evaluating the expression the script was compiled from (failing-input search)
    c._regen = regen
    m1_fail = 0; m1_n = 0
    counts = multiprocessing.RawArray('i', 64); cnt_lock = multiprocessing.Lock(); pidlog = multiprocessing.RawArray('i', 64)
    def count_hook(k):
        with cnt_lock:
            counts[k] += 1
        pidlog[k] = os.getpid()
    seed_delay = R['m1'].randrange(1 << 30)
    def delay_hook(k):
        count_hook(k)
        h = (os.getpid() * 2654435761 + k * 40503 + seed_delay) & 0xffff
        time.sleep((h % 7) * 0.0015)
    cases = []
    for _ in range(t_budget['nscripts']):
        cases.append(gen_evaluable(R['m1']))
    for icase, (tag, outs, n) in enumerate(boxed('m1', cases, 8)):
        flags = dict(_simplify=R['m1'].random() < .85, _optimize=R['m1'].random() < .85)
        twice = icase % 4 == 3      # `evaluable.compile` with cached constant intermediates, called twice with different arguments
        if twice:
            tag += '+compiled-twice'
            arg = ev.Argument('c16arg', (), int)
            outs = tuple(o * ev.astype(ev.appendaxes(arg, o.shape), o.dtype) if o.ndim else o * ev.astype(arg, o.dtype) for o in outs) + outs
            def evaluate(outs=outs, flags=flags):
                f = ev.compile(outs, **flags)
                return canon((f({'c16arg': numpy.array(2)}), f({'c16arg': numpy.array(3)})))
        else:
            def evaluate(outs=outs, flags=flags):
                return canon(ev.eval_once(outs, **flags))
        with quiet():
            HOOK[0] = None
            try:
                with parallel.maxprocs(1):
                    ref = evaluate()
            except Exception as e:
                c.count('m1:serial-exception:' + type(e).__name__); continue
            nprocs = R['m1'].choice([2, 3, 4, 8])
            for i_ in range(64): counts[i_] = 0
            HOOK[0] = delay_hook if R['m1'].random() < .7 else count_hook
            with Capture() as cap, parallel.maxprocs(nprocs):
                try:
                    got = evaluate()
                except Exception as e:
                    got = ('exception', type(e).__name__, str(e)[:200])
            HOOK[0] = None
        m1_n += 1
        pscripts = [s for s in cap.scripts if 'parallel.ctxrange' in s]
        for s in pscripts: par_scripts.setdefault(s, tag); regen.setdefault(s, mk_regen(evaluate))
        c.case(('m1', tuple(pscripts)), nontrivial=n >= 2 and bool(pscripts))
        c.count('m1:nprocs=%d' % nprocs); c.count('m1:parallel-script' if pscripts else 'm1:no-parallel-script')
        for k in tag.split('+'): c.count('m1:kind:' + k)
        npid = len({pidlog[k] for k in range(n) if counts[k]})
        c.count('m1:distinct-worker-pids=%d' % npid)
        replay = dict(stream='m1', tag=tag, n=n, nprocs=nprocs, flags=flags, serial=ref, parallel=got, scripts=pscripts)
        if got != ref:
            m1_fail += 1
            c.failing_input('parallel-result-differs:evaluable', 'evaluable with outer loop(s) gives a different result under maxprocs(%d) than under maxprocs(1) (%s)' % (nprocs, tag), replay)
        elif not twice and len(pscripts) == 1 and pscripts[0].count('parallel.ctxrange') == 1 and pscripts[0].count('_C16Probe.evalf') == 1 and any(counts[k] != 1 for k in range(n)):
            m1_fail += 1
            c.failing_input('iteration-not-exactly-once', 'loop iterations executed %s times under maxprocs(%d)' % ([counts[k] for k in range(n)], nprocs), replay)
        else:
            c.traces += 1
        c.sample(dict(stream='m1', tag=tag, n=n, nprocs=nprocs, equal=got == ref, parallel_scripts=len(pscripts)))
    c.obligation('corr:parallel-equals-serial:evaluable', m1_fail == 0, 'correspondence', '%d expressions' % m1_n)
    c.log('done: corr:parallel-equals-serial:evaluable')

    # ------------------------------------------------------------------ stream M2: nutils level (integrate / sample.eval / integral eval)
    m2_fail = 0; m2_n = 0
    for _ in boxed('m2', range(t_budget['nnutils']), 4):
        tag, fn = gen_nutils(R['m2'])
        with quiet():
            try:
                with parallel.maxprocs(1):
                    ref = canon(fn())
            except Exception as e:
                c.count('m2:serial-exception:' + type(e).__name__); continue
            nprocs = R['m2'].choice([2, 3, 4, 8])
            with Capture() as cap, parallel.maxprocs(nprocs):
                try:
                    got = canon(fn())
                except Exception as e:
                    got = ('exception', type(e).__name__, str(e)[:200])
        m2_n += 1
        pscripts = [s for s in cap.scripts if 'parallel.ctxrange' in s]
        for s in pscripts: par_scripts.setdefault(s, tag); regen.setdefault(s, mk_regen(lambda fn=fn: canon(fn())))
        c.case(('m2', tag, tuple(pscripts)), nontrivial=bool(pscripts))
        c.count('m2:kind:' + tag.split('/')[0]); c.count('m2:parallel-script' if pscripts else 'm2:no-parallel-script')
        if got != ref:
            m2_fail += 1
            c.failing_input('parallel-result-differs:nutils', 'nutils evaluation gives a different result under maxprocs(%d) than under maxprocs(1) (%s)' % (nprocs, tag),
                            dict(stream='m2', tag=tag, nprocs=nprocs, serial=ref, parallel=got, scripts=pscripts))
        else:
            c.traces += 1
    c.obligation('corr:parallel-equals-serial:nutils', m2_fail == 0, 'correspondence', '%d problems (exact, dyadic data)' % m2_n)
    c.log('done: corr:parallel-equals-serial:nutils')

    # ------------------------------------------------------------------ stream Z: the in-place protocol zoo (c16_zoo): every `_compile_with_out`
    # chain (Transpose / Diagonalize / Add / LoopSum / LoopConcatenate views of an output array) around and inside a parallel loop
    z_fail = 0; z_n = 0; z_dyn = 0; z_amp = 0
    core = Z.all_specs(1, 1)
    coreset = set(core)
    rest = [sp for sp in Z.all_specs(2, 2) if sp not in coreset]
    asis = dict(_simplify=False, _optimize=False); full = dict(_simplify=True, _optimize=True)
    plan = [(sp, asis) for sp in core]                                  # deterministic core: the structure compiled as written
    extra = [(sp, full) for sp in core] + [(sp, fl) for sp in rest for fl in (asis, full)]
    R['zoo'].shuffle(extra)
    plan += extra[:t_budget['zoo_extra']]
    def zoo_evaluate(spec, n, variant, flags, probe):
        def evaluate():
            return canon(ev.eval_once((Z.build(spec, n, variant, probe=P_ if probe else None),), **flags))
        return evaluate
    P_ = probe_class()
    zoo_cases = []
    with Z.CountInplace() as inplace:
        for spec, flags in plan:
            n = R['zoo'].choice([2, 3, 4, 5, 6]); variant = R['zoo'].randrange(6); nprocs = R['zoo'].choice([2, 3, 4])
            name = Z.spec_name(spec)
            with quiet():
                try:
                    expr = Z.build(spec, n, variant)
                except Exception as e:
                    c.count('zoo:build-exception:' + type(e).__name__); continue
                with Capture() as cap, parallel.maxprocs(nprocs):
                    try:
                        ev.compile((expr,), **flags); err = None
                    except Exception as e:
                        err = ('exception', type(e).__name__, str(e)[:200])
                if err is not None:
                    try:
                        with parallel.maxprocs(1):
                            ev.compile((expr,), **flags)
                        serial_ok = True
                    except Exception:
                        serial_ok = False
                    c.count('zoo:compile-exception:' + err[1])
                    if serial_ok:
                        z_fail += 1
                        c.failing_input('parallel-result-differs:evaluable', 'compiling %s raises %s under maxprocs(%d) but not under maxprocs(1)' % (name, err[1], nprocs),
                                        dict(stream='zoo-compile', spec=name, n=n, variant=variant, flags=flags, nprocs=nprocs, parallel=err))
                    continue
            z_n += 1
            pscripts = [s_ for s_ in cap.scripts if 'parallel.ctxrange' in s_]
            tag = 'zoo:' + name
            for s_ in pscripts:
                par_scripts.setdefault(s_, tag); regen.setdefault(s_, mk_regen(zoo_evaluate(spec, n, variant, flags, False)))
            c.case(('zoo', tuple(pscripts)), nontrivial=bool(pscripts))
            c.count('zoo:compiled'); c.count('zoo:parallel-script' if pscripts else 'zoo:no-parallel-script')
            for w in spec[0]: c.count('zoo:outside:' + w)
            for w in spec[2]: c.count('zoo:inside:' + w)
            c.count('zoo:par:' + spec[1]); c.count('zoo:leaf:' + spec[3])
            zoo_cases.append((spec, flags, n, variant))
    for k_, v_ in sorted(inplace.hits.items()): c.count('zoo:_compile_with_out:' + k_, v_)
    # dynamic runs: one random member per stratum (first outside wrapper, parallel loop kind, first inside wrapper), exact comparison
    def strata_round():
        by_ = {}
        for case in zoo_cases:
            sp = case[0]
            by_.setdefault((sp[0][:1], sp[1], sp[2][:1]), []).append(case)
        picks = [R['zoo'].choice(v) for k, v in sorted(by_.items())]
        R['zoo'].shuffle(picks)
        return picks
    dyn = []
    while len(dyn) < t_budget['zoo_dyn'] and zoo_cases: dyn += strata_round()
    for spec, flags, n, variant in boxed('zoo', dyn[:t_budget['zoo_dyn']], 6):
        name = Z.spec_name(spec); evaluate = zoo_evaluate(spec, n, variant, flags, True)
        nprocs = R['zoo'].choice([2, 3, 4, 8])
        with quiet():
            HOOK[0] = None
            try:
                with parallel.maxprocs(1):
                    ref = evaluate()
            except Exception as e:
                c.count('zoo:serial-exception:' + type(e).__name__); continue
            HOOK[0] = delay_hook if R['zoo'].random() < .7 else None
            with Capture() as cap, parallel.maxprocs(nprocs):
                try:
                    got = evaluate()
                except Exception as e:
                    got = ('exception', type(e).__name__, str(e)[:200])
            HOOK[0] = None
        z_dyn += 1
        pscripts = [s_ for s_ in cap.scripts if 'parallel.ctxrange' in s_]
        for s_ in pscripts:
            par_scripts.setdefault(s_, 'zoo:' + name); regen.setdefault(s_, mk_regen(evaluate))
        c.case(('zoo-dyn', tuple(pscripts)), nontrivial=bool(pscripts)); c.count('zoo:dynamic:nprocs=%d' % nprocs)
        if got != ref:
            z_fail += 1
            c.failing_input('parallel-result-differs:evaluable', 'in-place protocol zoo: %s gives a different result under maxprocs(%d) than under maxprocs(1)' % (name, nprocs),
                            dict(stream='zoo', spec=name, n=n, variant=variant, flags=flags, nprocs=nprocs, serial=ref, parallel=got, scripts=pscripts))
        else:
            c.traces += 1
        c.sample(dict(stream='zoo', spec=name, n=n, nprocs=nprocs, equal=got == ref), limit=12)
    # the same family under the race amplifier (non-atomic in-place adds): an update that is not mutually exclusive loses contributions
    amp = []
    while len(amp) < t_budget['zoo_amp'] and zoo_cases: amp += strata_round()
    for spec, flags, n, variant in boxed('zooamp', amp[:t_budget['zoo_amp']], 6):
        name = Z.spec_name(spec); n = max(n, 3)
        thunk = mk_regen(zoo_evaluate(spec, n, variant, flags, False))
        ref = thunk(1)
        if ref[0] == 'exception': continue
        nprocs = R['zoo'].choice([2, 3, 4])
        got = thunk(nprocs, 0.003)
        z_amp += 1; c.count('zoo:amplified')
        c.case(('zoo-amp', name, n, variant, repr(flags), nprocs), nontrivial=True)
        if got != ref:
            z_fail += 1
            c.failing_input('parallel-result-differs:amplified', 'in-place protocol zoo: with non-atomic in-place adds (race amplifier) %s under maxprocs(%d) differs from serial: an update is not protected' % (name, nprocs),
                            dict(stream='zoo-amplified', spec=name, n=n, variant=variant, flags=flags, nprocs=nprocs, serial=ref, parallel=got))
        else:
            c.traces += 1
    c.obligation('corr:parallel-equals-serial:inplace-zoo', z_fail == 0, 'correspondence', '%d chains compiled under maxprocs>1, %d evaluated exactly, %d under the race amplifier' % (z_n, z_dyn, z_amp))
    c.log('done: corr:parallel-equals-serial:inplace-zoo')

    # ------------------------------------------------------------------ stream M3: race amplifier (non-atomic in-place adds) on a subset
    m3_fail = 0; m3_n = 0
    for _ in boxed('m3', range(t_budget['amp']), 3):
        tag, outs, n = gen_evaluable(R['m3'], probe=False)
        if n < 2: continue
        with quiet():
            try:
                with parallel.maxprocs(1):
                    ref = canon(ev.eval_once(outs))
            except Exception as e:
                continue
            with Capture(amplify=0.003) as cap, parallel.maxprocs(R['m3'].choice([2, 3, 4])):
                try:
                    got = canon(ev.eval_once(outs))
                except Exception as e:
                    got = ('exception', type(e).__name__, str(e)[:200])
        m3_n += 1
        pscripts = [s for s in cap.scripts if 'parallel.ctxrange' in s]
        for s in pscripts: par_scripts.setdefault(s, tag)
        c.case(('m3', tuple(pscripts)), nontrivial=bool(pscripts)); c.count('m3:amplified')
        if got != ref:
            m3_fail += 1
            c.failing_input('parallel-result-differs:amplified', 'with non-atomic in-place adds (race amplifier) the result under maxprocs differs from serial: an update is not protected (%s)' % tag,
                            dict(stream='m3', tag=tag, serial=ref, parallel=got, scripts=pscripts))
    c.obligation('corr:parallel-equals-serial:race-amplifier', m3_fail == 0, 'correspondence', '%d expressions' % m3_n)
    c.log('done: corr:parallel-equals-serial:race-amplifier')

    # ------------------------------------------------------------------ stream M4: locate
    loc_fail = 0; loc_n = 0
    for iloc in boxed('loc', range(6 if quick else 60), 2):
        shape = [R['loc'].choice([1, 2, 3]) for _ in range(R['loc'].choice([1, 2]))]
        npts = R['loc'].choice([1, 2, 3, 5])
        mode = R['loc'].choice(['inside', 'inside', 'missing-raise', 'missing-skip'])
        if iloc < 3:      # corpus: many points (every worker gets some), one case per mode
            shape = [2, 2]; npts = 5; mode = ['missing-raise', 'inside', 'missing-skip'][iloc]
        topo, geom = mesh.rectilinear([numpy.arange(k + 1) * 1. for k in shape])
        # a non-affine geometry, so that StructuredTopology._locate does not take its affine shortcut but the generic Newton search
        # of Topology._locate (every point's computation is independent of the process that performs it: results are bit-identical)
        g = numpy.stack([geom[0] + 0.125 * geom[-1] * geom[-1], geom[-1] + 0.0625 * geom[0] * geom[0]][:len(shape)]) if len(shape) == 2 else geom + 0.125 * geom * geom
        with quiet(), parallel.maxprocs(1):
            cand = topo.sample('uniform', 3).eval(g)
        pts = numpy.array([cand[R['loc'].randrange(len(cand))] for _ in range(npts)])
        if mode != 'inside':
            # corpus case 0: only the very first point is missing, so that it is (almost surely) claimed by a child, which the parent
            # is still busy forking the others: the outcome must nevertheless be the serial one (LocateError naming that point)
            for r_ in ([0] if iloc == 0 else R['loc'].sample(range(npts), R['loc'].randint(1, min(2, npts)))):
                pts[r_, 0] = 100. + r_
        def locate():
            smp = topo.locate(g, pts, tol=1e-9, skip_missing=(mode == 'missing-skip'))
            return (smp.eval(geom), smp.npoints)
        def outcome(nprocs):
            # corpus case 0: the missing first point is deterministically handed to a child (the parent's first claim waits for it)
            with quiet(), parallel.maxprocs(nprocs), (parent_claims_last() if (iloc == 0 and nprocs > 1) else contextlib.nullcontext()):
                try:
                    return canon(locate())
                except Exception as e:
                    return ('exception', type(e).__name__, str(e)[:200])
        ref = outcome(1)
        nprocs = R['loc'].choice([2, 3, 4, 8]) if iloc >= 3 else [8, 4, 3][iloc]
        got = outcome(nprocs)
        loc_n += 1; c.case(('loc', tuple(shape), pts.tobytes(), mode, nprocs), nontrivial=npts >= 2); c.count('locate:' + mode)
        if got != ref:
            loc_fail += 1
            c.failing_input('parallel-result-differs:locate', 'Topology.locate gives a different outcome under maxprocs(%d) than under maxprocs(1) (%s)' % (nprocs, mode),
                            dict(stream='locate', shape=shape, points=pts.tolist(), mode=mode, nprocs=nprocs, serial=ref, parallel=got))
        else:
            c.traces += 1
    c.obligation('corr:parallel-equals-serial:locate', loc_fail == 0, 'correspondence', '%d point sets' % loc_n)
    c.log('done: corr:parallel-equals-serial:locate')

    # ------------------------------------------------------------------ stream X: static lock discipline of every captured script + _locate source
    xs = []
    for s, tag in par_scripts.items():
        try:
            toks, st = X.describe(s)
        except Exception as e:
            c.broken_no_input('extract:script', 'cannot describe a generated script: %r' % e, dict(script=s)); continue
        for k, v in st.items(): c.count('x:stmt:' + k, v)
        xs.append(('script', s, tag))
        ask('lockok', ('script', s, tag), 'lockok||' + ' '.join(toks))
    try:
        loc_src = inspect.getsource(topology.Topology._locate)
        toks, st = X.describe(loc_src)
        ask('lockok', ('locate', loc_src, '_locate'), 'lockok|arguments|' + ' '.join(toks))
        ask('lockok-neg', ('locate-noscratch', loc_src, '_locate'), 'lockok||' + ' '.join(toks))
    except Exception as e:
        c.broken_no_input('extract:locate', 'cannot describe Topology._locate: %r' % e, dict())
    # negative controls: the same scripts with one `with lock` removed / shempty replaced must be rejected
    negs = 0
    for s, tag in list(par_scripts.items())[:12 if quick else 80]:
        for mut in ('drop-with', 'unshare'):
            if mut == 'drop-with':
                import ast as _ast
                lines = s.split('\n'); idx = []
                for node in _ast.walk(_ast.parse(s)):      # `with lock<k>:` statements inside a parallel loop that guard a whole-array accumulation
                    if isinstance(node, _ast.With) and isinstance(node.items[0].context_expr, _ast.Call) and X.dotted(node.items[0].context_expr.func) == 'parallel.ctxrange':
                        for sub in _ast.walk(node):
                            if isinstance(sub, _ast.With) and isinstance(sub.items[0].context_expr, _ast.Name) and len(sub.body) == 1 \
                                    and isinstance(sub.body[0], _ast.Expr) and _ast.unparse(sub.body[0]).startswith('numpy.add') and 'slice(' not in _ast.unparse(sub.body[0]):
                                idx.append(sub.lineno - 1)
                idx = [k for k in idx if re.match(r'\s+with lock\d+:\s*$', lines[k])]
                if not idx: continue
                k = R['x'].choice(sorted(set(idx)))
                ind = len(lines[k]) - len(lines[k].lstrip())
                lines[k] = ' ' * ind + 'if True:'
                s2 = '\n'.join(lines)
            else:
                import ast as _ast
                inloop = []     # target expressions of the mutating statements inside parallel loops
                for node in _ast.walk(_ast.parse(s)):
                    if isinstance(node, _ast.With) and isinstance(node.items[0].context_expr, _ast.Call) and X.dotted(node.items[0].context_expr.func) == 'parallel.ctxrange':
                        for sub in _ast.walk(node):
                            if isinstance(sub, _ast.Expr) and isinstance(sub.value, _ast.Call):
                                call = sub.value; kw = {q.arg: q.value for q in call.keywords}
                                tgt = kw.get('out') or (call.args[0] if (X.dotted(call.func) or '').endswith(('.at', 'numpy.copyto')) and call.args else None) \
                                    or (call.func.value if isinstance(call.func, _ast.Attribute) and call.func.attr == 'fill' else None)
                                if tgt is not None: inloop.append(_ast.unparse(tgt))
                lines = s.split('\n'); cand = []
                for k, l in enumerate(lines):
                    m_ = re.match(r'\s+(v\d+) = parallel\.shempty\(', l)
                    if m_ and any(re.search(r'\b%s\b' % m_.group(1), t.split('[')[0]) for t in inloop):
                        cand.append(k)
                if not cand: continue
                k = R['x'].choice(cand)
                lines[k] = lines[k].replace('parallel.shempty', 'numpy.empty', 1)
                s2 = '\n'.join(lines)
            try:
                toks, _ = X.describe(s2)
            except Exception:
                continue
            ask('lockok-neg', (mut, s2, tag), 'lockok||' + ' '.join(toks)); negs += 1

    # alias controls: a view of the target (einsum diagonal, transpose, slice, reshape, …) bound to a fresh variable in front of the loop
    # IS the shared array: the update through it needs the lock (negative control) and is fine with it (positive control)
    for view in Z.VIEWS:      # corpus: the minimal script shape (view of a shared result created once in front of the loop), every view form
        for keep in (False, True):
            upd = 'numpy.add(v1, v3, out=v1)'
            src = ALIAS_CORPUS % (view.format(T='v0'), ('with lock0:\n                ' + upd) if keep else upd)
            toks, _ = X.describe(src)
            ask('lockok-pos' if keep else 'lockok-neg', ('alias-corpus-locked' if keep else 'alias-corpus-unlocked', src, 'alias-corpus', None, view), 'lockok||' + ' '.join(toks))
    pool = sorted(par_scripts.items())
    R['x'].shuffle(pool)
    nalias = 0
    for s, tag in pool:
        if nalias >= (16 if quick else 150): break
        made = False
        for keep in (False, True):
            try:
                h = Z.hoist_alias(s, R['x'], keep)
                if h is None: break
                toks, _ = X.describe(h[0])
            except Exception:
                break
            ask('lockok-pos' if keep else 'lockok-neg', ('alias-hoist-locked' if keep else 'alias-hoist-unlocked', h[0], tag, s, h[1]), 'lockok||' + ' '.join(toks)); made = True
        nalias += made

    # ------------------------------------------------------------------ stream M5: parallel.range / fork micro steps under a deterministic scheduler
    sched_cases = []
    corpus = [(2, 2, 's0 s0 s1 s0 s1 s1 s0 s1'.split()), (2, 1, 's0 s1 s0 s1 s0 s1 s0 s1'.split()), (3, 2, 's0 s1 s2 s0 s0 s0 k0'.split()),
              (2, 3, 's1 s1 s1 k1 s0 s0'.split()), (2, 2, 's1 s1 x1 s0 s0 s0 s0'.split()), (1, 2, []), (2, 0, 's0 s1'.split()), (3, 3, 's0 s0 s0 s0 x0'.split()),
              (2, 2, 's1 s1 s1 s1 s1 k1'.split()), (3, 1, 's2 s2 s2 s2 s2 s2 s2 s2 s2'.split())]
    sched_cases += corpus
    for _ in range(t_budget['nsched']):
        N = R['sched'].choice([1, 2, 2, 3, 3, 4]); n = R['sched'].choice([0, 1, 2, 2, 3, 4])
        L = R['sched'].randint(0, 10 * max(1, min(n + 1, 4)))
        evs = []; w = 0
        for _k in range(L):
            if R['sched'].random() < .55: w = R['sched'].randrange(N)      # stay on the same worker with probability .45: runs through __next__
            evs.append('s%d' % w)
        r_ = R['sched'].random()
        if N > 1 and r_ < .35:
            pos = R['sched'].randint(0, len(evs)); kind = R['sched'].choice('kx'); who = R['sched'].randrange(N)
            if who == 0: evs = evs[:pos] + [kind + '0']
            else: evs.insert(pos, kind + str(who))
        sched_cases.append((N, n, evs))
    real = []
    t0 = time.time()
    for N, n, evs in boxed('sched', sched_cases, len(corpus)):
        try:
            real.append(S.run_schedule(N, n, evs))
        except Exception as e:
            raise Infra('range scheduler failed on %r: %r' % ((N, n, evs), e))
        ask('sched', (N, n, evs, real[-1]), 'sched|%d|%d|0|0||%s' % (N, n, ' '.join(real[-1]['events'])))
    c.log('range scheduler: %d real sessions in %.1fs' % (len(real), time.time() - t0))

    # ------------------------------------------------------------------ stream M6: _wait on raw statuses + real children, fork width, shared memory
    ask('wait', None, 'wait|0|65536')
    real_status = []; nwait_exc = [0]
    def fake_waitpid(pid, opts):
        return pid, pid - 100000
    orig_waitpid = os.waitpid
    with quiet():
        os.waitpid = fake_waitpid
        try:
            for st in range(65536):
                try:
                    ok = parallel._wait(100000 + st)
                except ValueError as e:
                    # `signal.Signals(s).name` in the log message has no name for signal numbers outside the enum (e.g. 32, 33, 65..127):
                    # `_wait` raises instead of returning False.  The `with fork` still raises (not the property's concern), recorded in the evidence.
                    ok = False; nwait_exc[0] += 1
                except Exception as e:
                    ok = 'exc:' + type(e).__name__
                real_status.append(ok)
        finally:
            os.waitpid = orig_waitpid
    child_cases = [('exit', k) for k in (0, 1, 2, 7, 255)] + [('signal', s_) for s_ in (signal.SIGKILL, signal.SIGTERM, signal.SIGSEGV, signal.SIGUSR1)]
    child_real = []
    for kind, v in child_cases:
        pid = os.fork()
        if pid == 0:
            try:
                if kind == 'exit': os._exit(v)
                if v not in (signal.SIGKILL, signal.SIGSTOP): signal.signal(v, signal.SIG_DFL)
                os.kill(os.getpid(), v); time.sleep(5)
            finally:
                os._exit(99)
        with quiet():
            child_real.append(parallel._wait(pid))
    for k, mp in itertools.product([None, 0, 1, 2, 3, 4, 5, 9], [1, 2, 3, 4]):
        ask('width', (k, mp), 'width|%s|%d' % ('none' if k is None else k, mp))

    # ------------------------------------------------------------------ exploration: model vs its own specification on random schedules with faults (sanity of driver/model glue)
    for _ in range(40 if quick else 600):
        N = R['explore'].choice([1, 2, 3]); n = R['explore'].choice([0, 1, 2, 3])
        locked = R['explore'].random() < .7
        code = R['explore'].choice(['t a0 m0:1,1 r0', 'a0 m0:2,0 r0 t a1 m1:0,1 r1', 'a0 a1 m0:1,0 m1:1,2 r1 r0 p0,1:7,1', 'p0,1:3,3 t']) if locked else R['explore'].choice(['m0:1,1', 't m0:1,0 a0 r0', 'a1 m0:1,1 r1'])
        L = R['explore'].randint(0, 120)
        evs = ['s%d' % R['explore'].randrange(N) for _ in range(L)]
        if R['explore'].random() < .2 and evs: evs[R['explore'].randrange(len(evs))] = R['explore'].choice('kx') + str(R['explore'].randrange(N))
        evs += ['s%d' % (k % N) for k in range(60 * N)]
        ask('explore', None, 'sched|%d|%d|2|4|%s|%s' % (N, n, code, ' '.join(evs)))
    # ------------------------------------------------------------------ run the model
    c.log('asking the model: %d requests' % len(reqs))
    ans = c.model([r[2] for r in reqs])
    c.log('model answered')
    by = {}
    for (kind, payload, line), a in zip(reqs, ans):
        by.setdefault(kind, []).append((payload, line, a))
        if a == 'bad-request':
            raise Infra('driver rejected request: ' + line[:300])

    # ---- X verdicts
    x_fail = 0; rejected = []
    for (what, src, tag), line, a in by.get('lockok', []):
        f = a.split('|')
        ok = f[0] == 'ok=1'
        c.case(('x', src), nontrivial=f[1] != 'nbodies=0'); c.count('x:lockOK' if ok else 'x:lockOK-failed'); c.count('x:' + f[1])
        if what == 'script': c.traces += 1
        c.sample(dict(stream='x', tag=tag, verdict=f[0], bodies=f[4][:300]), limit=10)
        if ok: continue
        x_fail += 1
        rejected.append((what, src, tag, f[3], a))
    # a rejected script is not yet a failing input: search for one.  First the very expressions the rejected scripts were compiled from
    # (race amplifier at increasing widths), then fresh expressions; one real wrong result stands for all rejected scripts
    found_race = False
    for what, src, tag, bad, a in rejected:
        if what != 'locate' and not found_race:
            found_race = search_same(c, src, tag)
    if not found_race and any(what != 'locate' for what, *_ in rejected):
        found_race = search_race(c, rejected[0][2])
    nreported = 0
    for what, src, tag, bad, a in rejected:
        found = search_locate(c) if what == 'locate' else found_race
        if not found and nreported < 5:
            nreported += 1
            c.broken_no_input('lockOK:' + what, 'Lean rejects the lock discipline of a generated script (%s; %s)' % (bad, tag), dict(script=src, answer=a, tag=tag))
    if rejected: c.count('x:rejected-scripts', len(rejected))
    c.obligation('lockOK:generated-scripts', x_fail == 0, 'correspondence', '%d scripts + _locate' % len(by.get('lockok', [])))
    c.log('done: lockOK:generated-scripts')
    neg_fail = 0
    for (what, src, tag, *_), line, a in by.get('lockok-neg', []):
        c.count('x:negative-control:' + what)
        if a.startswith('ok=1'):
            neg_fail += 1
            c.broken_no_input('lockOK:negative-control', 'Lean accepts a script whose lock discipline was deliberately broken (%s): the static check is blind' % what, dict(script=src, answer=a))
    c.obligation('lockOK:negative-controls-rejected', neg_fail == 0, 'exploration', '%d broken scripts' % len(by.get('lockok-neg', [])))

    verdict_of = {src: a.startswith('ok=1') for (what, src, tag), line, a in by.get('lockok', [])}
    pos_fail = 0
    for (what, src, tag, orig, view), line, a in by.get('lockok-pos', []):
        c.count('x:positive-control:' + what); c.count('x:alias-view:' + view.replace('{T}', 'T').replace(' ', ''))
        if (orig is None or verdict_of.get(orig)) and not a.startswith('ok=1'):
            pos_fail += 1
            c.broken_no_input('lockOK:alias-positive-control', 'Lean rejects an accepted script after its locked accumulation target was bound to a variable (%s) in front of the loop: the alias rule is broken' % view,
                              dict(script=src, answer=a))
    c.obligation('lockOK:alias-views-are-the-shared-array', pos_fail == 0, 'exploration', '%d scripts with a hoisted view, lock kept' % len(by.get('lockok-pos', [])))

    # ---- range scheduler verdicts
    s_fail = 0
    for (N, n, evs, r), line, a in by.get('sched', []):
        f = dict(x.split('=', 1) for x in a.split('|'))
        mtrace = [re.sub(r'^release:\d+$', 'release', t) for t in f['trace'].split()]
        rtrace = [re.sub(r'^next:\d+$', 'next', t) for t in r['trace']]
        mclaims = [tuple(map(int, x.split(':'))) for x in f['claimed'].split()]
        mout = f['outcome']
        rout = r['outcome']
        if rout.startswith('raised:Exception:fork failed in'):
            m_ = re.match(r'raised:Exception:fork failed in (\d+) out of (\d+) processes', rout)
            rout = 'forkfailed:%s:%s' % (m_.group(1), m_.group(2))
        elif rout.startswith('raised:_Injected'):
            rout = 'reraises'
        if mout.startswith('reraises'): mout = 'reraises'
        complete = rout == 'returns'
        nontriv = N >= 2 and n >= 2
        c.case(('sched', N, n, tuple(evs)), nontrivial=nontriv); c.count('sched:outcome:' + rout.split(':')[0]); c.count('sched:N=%d' % N)
        if any(e[0] == 'k' for e in evs): c.count('sched:with-kill')
        if any(e[0] == 'x' for e in evs): c.count('sched:with-raise')
        if 'blocked' in rtrace: c.count('sched:contention-observed')
        replay = dict(stream='sched', N=N, n=n, events=r['events'], real=dict(trace=r['trace'], claims=r['claims'], outcome=r['outcome']), model=a)
        its = [i for _, i in r['claims']]
        # property oracle on the real run
        if len(set(its)) != len(its) or any(i >= n or i < 0 for i in its):
            s_fail += 1
            c.failing_input('range-claims-not-unique', 'parallel.range handed out %s for range(%d) under a deterministic schedule of %d processes' % (its, n, N), replay); continue
        if complete and sorted(its) != list(range(n)):
            s_fail += 1
            c.failing_input('range-incomplete-but-returns', '`with fork` returned normally although only iterations %s of range(%d) were claimed' % (sorted(its), n), replay); continue
        if r.get('survivors'):
            s_fail += 1
            c.failing_input('children-survive-parent-exception', 'the body of `with fork` raised in the parent but %d child process(es) were not killed' % len(r['survivors']), replay); continue
        faulted = any(t in ('kill', 'raise') for t in r['trace'])
        if complete and faulted:
            s_fail += 1
            c.failing_input('fork-returns-after-fault', '`with fork` returned normally although a worker was killed / raised inside the loop', replay); continue
        if rtrace != mtrace or r['claims'] != mclaims or rout != mout:
            s_fail += 1
            c.broken_no_input('corr:range-microsteps', 'real parallel.range/fork and the Lean machine disagree on the trace / claims / outcome of a schedule', replay)
        else:
            c.traces += 1
        c.sample(dict(stream='sched', N=N, n=n, events=' '.join(evs)[:120], outcome=rout, claims=r['claims']), limit=14)
    c.obligation('corr:range-and-fork-microsteps', s_fail == 0, 'correspondence', '%d schedules on real processes' % len(by.get('sched', [])))
    c.log('done: corr:range-and-fork-microsteps')

    # ---- _wait
    (_, _, a), = by['wait']
    w_fail = 0
    for st in range(65536):
        want = real_status[st]
        model_ok = a[st] == 'T'
        spec_ok = (os.WIFEXITED(st) and os.WEXITSTATUS(st) == 0)
        if want is not True and want is not False:
            w_fail += 1; c.broken_no_input('corr:_wait', '_wait raises on raw status %d: %s' % (st, want), dict(status=st)); break
        if want != spec_ok:
            w_fail += 1
            c.failing_input('wait-status-misjudged', '_wait reports %s for raw wait status %d (exited=%s code=%s signaled=%s)' % (want, st, os.WIFEXITED(st), os.WEXITSTATUS(st) if os.WIFEXITED(st) else None, os.WIFSIGNALED(st)), dict(status=st, real=want)); break
        if want != model_ok:
            w_fail += 1; c.broken_no_input('corr:_wait', 'model and _wait disagree on raw status %d' % st, dict(status=st, real=want, model=a[st])); break
    for (kind, v), ok in zip(child_cases, child_real):
        c.case(('child', kind, int(v))); c.count('wait:real-child:' + kind)
        if ok != (kind == 'exit' and v == 0):
            w_fail += 1
            c.failing_input('wait-status-misjudged', '_wait returned %s for a real child that %s %d' % (ok, 'exited with' if kind == 'exit' else 'was killed by signal', v), dict(kind=kind, value=int(v), real=ok))
    c.evaluations += 65536
    c.count('wait:raw-statuses-where-_wait-raises-ValueError-instead-of-returning-False', nwait_exc[0])
    c.obligation('corr:_wait', w_fail == 0, 'correspondence', '65536 raw statuses + %d real children' % len(child_cases))
    c.log('done: corr:_wait')

    # ---- fork width / nesting / shared memory
    f_fail = 0
    width_of = {km: int(a) for km, line, a in by.get('width', [])}
    for (k, mp), line, a in boxed('width', by.get('width', []), 6):
        def widths():
            seen = multiprocessing.RawArray('i', 16)
            nested = multiprocessing.RawArray('i', 64)
            with parallel.maxprocs(mp):
                ctx = parallel.fork(k) if k is not None else parallel.fork()
                truth = bool(ctx)
                with ctx as procid:
                    seen[procid] = 1
                    with parallel.fork(4) as inner:
                        sh = parallel.shempty(3, dtype=int)
                        nested[procid * 4 + inner] = 1 + 1000 * int(sh.base is None)   # plain allocation inside a fork body / under maxprocs(1)
                entered = multiprocessing.RawValue('i', 0); elock = multiprocessing.Lock()
                if k is not None:
                    with parallel.ctxrange('c16', k) as rng_:       # ctxrange forks min(nitems, maxprocs) processes
                        with elock: entered.value += 1
                        for _i in rng_: time.sleep(0.001)
            return sum(seen), truth, list(nested), entered.value
        with quiet():
            r_ = in_subprocess(widths, timeout=90.)
        c.case(('width', k, mp)); c.count('width:cases')
        want = int(a)
        if r_[0] != 'ok':
            f_fail += 1; c.broken_no_input('corr:fork-width', 'fork(%r) under maxprocs(%d): %r' % (k, mp, r_), dict(k=k, maxprocs=mp, real=r_)); continue
        nseen, truth, nested, entered = r_[1]
        if k is not None and entered != want:
            f_fail += 1
            c.broken_no_input('corr:fork-width', 'ctxrange(%r items) under maxprocs(%d) ran its body in %d processes, model %d' % (k, mp, entered, want), dict(k=k, maxprocs=mp, entered=entered, model=want)); continue
        if want > 1:    # really forked: inside the body every fork is a no-op and allocation is process-local
            want_nested = [1001 if (q % 4 == 0 and q // 4 < want) else 0 for q in range(64)]
        else:           # _DontFork does not enter maxprocs(1): the inner fork(4) is an ordinary fork under maxprocs(mp)
            w2 = width_of[(4, mp)]
            want_nested = [1001 if q < w2 else 0 for q in range(64)]
        if nested != want_nested:
            f_fail += 1
            if want > 1:
                c.failing_input('nested-fork-not-disabled', 'a fork inside a fork body created processes or shared memory: %s' % nested[:16], dict(k=k, maxprocs=mp, nested=nested)); continue
            c.broken_no_input('corr:fork-width', 'inner fork under a no-op outer fork: %s, model %s' % (nested[:8], want_nested[:8]), dict(k=k, maxprocs=mp, nested=nested)); continue
        if nseen != want or truth != (want > 1):
            f_fail += 1
            c.broken_no_input('corr:fork-width', 'fork(%r) under maxprocs(%d) ran %d processes (truth %s), model %d' % (k, mp, nseen, truth, want), dict(k=k, maxprocs=mp, real=[nseen, truth], model=want))
    c.obligation('corr:fork-width-and-nesting', f_fail == 0, 'correspondence', '%d (nprocs, maxprocs) pairs' % len(by.get('width', [])))
    c.log('done: corr:fork-width-and-nesting')

    sh_fail = 0
    shgrid = list(itertools.product([3, 1], [(4,), (), (0,), (2, 3), [2, 2], 5, numpy.int64(3)], [int, float, bool, complex], [False, True]))
    R['shared'].shuffle(shgrid)
    for mp, shape, dtype, zeros in boxed('shared', shgrid, 6):
        def sharing():
            with parallel.maxprocs(mp):
                a = (parallel.shzeros if zeros else parallel.shempty)(shape, dtype=dtype)
                meta = (a.shape, a.dtype.str, bool(a.flags.writeable), (not zeros) or not a.any())
                a[...] = 0
                with parallel.fork(3) as procid:
                    if procid < a.size:
                        a.flat[procid] = procid + 1
            return meta, [complex(v).real for v in a.ravel()]
        with quiet():
            r_ = in_subprocess(sharing, timeout=90.)
        c.case(('sh', mp, repr(shape), dtype.__name__, zeros)); c.count('shared:cases')
        eshape = tuple(shape) if isinstance(shape, (tuple, list)) else (int(shape),)
        size = int(numpy.prod(eshape)) if eshape else 1
        nproc_eff = 3 if mp == 3 else 1
        want_vals = [complex(dtype(k + 1)).real if (k < nproc_eff and k < size) else 0. for k in range(size)]
        want = ((eshape, numpy.dtype(dtype).str, True, True), want_vals)
        if r_[0] != 'ok' or (r_[1][0], r_[1][1]) != want:
            sh_fail += 1
            c.failing_input('shared-array-not-shared', 'parallel.%s(%r, %s) under maxprocs(%d): writes of the workers are not what the parent sees / wrong array: %r (want %r)' % ('shzeros' if zeros else 'shempty', shape, dtype.__name__, mp, r_, want),
                            dict(maxprocs=mp, shape=repr(shape), dtype=dtype.__name__, zeros=zeros, real=repr(r_), want=repr(want)))
    c.obligation('corr:shempty-shzeros', sh_fail == 0, 'correspondence', 'shape x dtype x maxprocs grid')
    c.log('done: corr:shempty-shzeros')

    # ------------------------------------------------------------------ stream M7: fault injection in compiled loops
    fi_fail = 0; fi_n = 0; P = probe_class()
    triples = [(role, kind, ordn) for role in ('child', 'parent') for kind in ('raise', 'kill') for ordn in (0, 1, 2)]
    R['fault'].shuffle(triples)
    plan = (triples * 40)[:t_budget['nfault']]
    for role, kind, ordn in boxed('fault', plan, 6):
        n = R['fault'].choice([3, 4, 5, 6, 8]); nprocs = R['fault'].choice([2, 3, 4])
        i = ev.loop_index('i', n); ip = P(i)
        shapekind = R['fault'].choice(['sum', 'concat', 'inflate'])
        if shapekind == 'sum': outs = (ev.loop_sum(ip * ip + 1, i),)
        elif shapekind == 'concat': outs = (ev.loop_concatenate(ev.insertaxis(ip + 1, 0, ev.constant(1)), i),)
        else: outs = (ev.loop_sum(ev._inflate(ev.insertaxis(ip + 1, 0, ev.constant(2)), (ev.Range(ev.constant(2)) + ip) % 3, ev.constant(3), 0), i),)
        with quiet(), parallel.maxprocs(1):
            ref = canon(ev.eval_once(outs))
        fired = multiprocessing.RawValue('i', 0)
        def session():
            me = os.getpid()
            mine = [0]
            def hook(k):
                amparent = os.getpid() == me
                if (role == 'parent') == amparent:
                    if mine[0] == ordn and not fired.value:
                        fired.value = 1
                        if kind == 'raise': raise RuntimeError('injected fault at iteration %d' % k)
                        os.kill(os.getpid(), signal.SIGKILL)
                    mine[0] += 1
                else:
                    t_end = time.time() + 2.0          # keep out of the way until the fault has fired
                    while not fired.value and time.time() < t_end: time.sleep(0.002)
            HOOK[0] = hook
            with quiet(), parallel.maxprocs(nprocs):
                return canon(ev.eval_once(outs))
        r_ = in_subprocess(session, timeout=120.)
        fi_n += 1
        did_fire = bool(fired.value)
        c.case(('fault', role, kind, ordn, n, nprocs, shapekind), nontrivial=did_fire); c.count('fault:%s-%s:%s' % (role, kind, 'fired' if did_fire else 'not-triggered')); c.count('fault:outcome:' + r_[0])
        replay = dict(stream='fault', role=role, kind=kind, ordinal=ordn, n=n, nprocs=nprocs, expr=shapekind, fired=did_fire, outcome=repr(r_), serial=ref)
        if did_fire:
            if r_[0] == 'ok':
                fi_fail += 1
                c.failing_input('returns-after-worker-fault', 'evaluation under maxprocs(%d) RETURNED %s although a %s process %s inside the loop (serial result %s)' % (
                    nprocs, 'the complete result' if r_[1] == ref else 'a partial result', role, 'raised' if kind == 'raise' else 'was SIGKILLed', ref[0][2] if ref else ref), replay)
            elif r_[0] == 'timeout':
                fi_fail += 1
                c.broken_no_input('corr:fault-injection', 'evaluation hangs after a %s %s outside any lock region' % (role, kind), replay)
            else:
                c.traces += 1
        else:
            if r_ != ('ok', ref):
                fi_fail += 1
                c.failing_input('parallel-result-differs:fault-stream', 'no fault fired but the result under maxprocs(%d) is %r, serial %r' % (nprocs, r_, ref), replay)
        c.sample(dict(stream='fault', role=role, kind=kind, ordinal=ordn, n=n, nprocs=nprocs, fired=did_fire, outcome=r_[0]), limit=20)
    HOOK[0] = None
    c.obligation('corr:fault-injection', fi_fail == 0, 'correspondence', '%d runs' % fi_n)
    c.log('done: corr:fault-injection')

    ex_fail = 0
    for _, line, a in by.get('explore', []):
        f = dict(x.split('=', 1) for x in a.split('|'))
        its = [int(x.split(':')[1]) for x in f['claimed'].split()]
        c.count('explore:disc=%s:outcome=%s' % (f['disc'], f['outcome'].split(':')[0]))
        bad = its != list(range(int(f['idx'])))
        if f['outcome'] == 'returns':
            bad = bad or f['alldone'] != '1' or (f['disc'] == '1' and f['shared'] != f['serial']) or f['slots'] != f['serialslots']
            if f['disc'] == '0' and f['shared'] != f['serial']: c.count('explore:lost-update-without-lock')
        if bad:
            ex_fail += 1
            c.broken_no_input('explore:model-vs-theorems', 'the executable model contradicts a proved theorem on a random schedule (driver / model glue broken)', dict(request=line, answer=a))
    c.obligation('explore:model-runs-satisfy-theorems', ex_fail == 0, 'exploration', '%d random schedules with faults' % len(by.get('explore', [])))
    c.log('done: explore:model-runs-satisfy-theorems')

    for b in broken:
        found = search_race(c, 'proof-broken')
        if not found:
            c.broken_no_input('proof', b, dict(detail=b))


def search_locate(c):
    """failing-input search for `Topology._locate`: many points, several processes, a few repetitions"""
    from nutils import parallel, mesh, function
    topo, geom = mesh.rectilinear([numpy.arange(4.), numpy.arange(4.)])
    g = numpy.stack([geom[0] + 0.125 * geom[1] * geom[1], geom[1] + 0.0625 * geom[0] * geom[0]])
    with quiet(), parallel.maxprocs(1):
        cand = topo.sample('uniform', 3).eval(g)
    for rep in range(4 if c.tier == 'quick' else 20):
        pts = numpy.array([cand[c.search_rng.randrange(len(cand))] for _ in range(32)])
        res = []
        for nprocs in (1, 4):
            with quiet(), parallel.maxprocs(nprocs):
                try:
                    smp = topo.locate(g, pts, tol=1e-9)
                    res.append(canon((smp.eval(geom), smp.npoints)))
                except Exception as e:
                    res.append(('exception', type(e).__name__, str(e)[:200]))
        c.count('search:locate-runs')
        if res[0] != res[1]:
            c.failing_input('parallel-result-differs:locate', 'search after a broken obligation: Topology.locate of 32 points gives a different outcome under maxprocs(4) than under maxprocs(1)',
                            dict(stream='search-locate', points=pts.tolist(), serial=res[0], parallel=res[1]))
            return True
    return False


def search_same(c, script, tag):
    """failing-input search for one rejected script: evaluate the very expression it was compiled from again, under maxprocs with the
    race amplifier at increasing widths; at most a few scripts per run are searched"""
    thunk = getattr(c, '_regen', {}).get(script)
    c._same_left = getattr(c, '_same_left', 6 if c.tier == 'quick' else 20)
    if thunk is None or c._same_left <= 0:
        return False
    c._same_left -= 1
    ref = thunk(1)
    for rep in range(5 if c.tier == 'quick' else 12):
        nprocs = c.search_rng.choice([2, 3, 4])
        got = thunk(nprocs, (0.005, 0.01, 0.02, 0.03, 0.05)[rep % 5])      # wider than a fork under load
        c.count('search:same-expression-amplified-runs')
        if got != ref:
            c.failing_input('parallel-result-differs:amplified', 'search after the static lock discipline rejected a generated script (%s): with non-atomic in-place adds the same expression under maxprocs(%d) differs from serial' % (tag, nprocs),
                            dict(stream='search-same', tag=tag, nprocs=nprocs, serial=ref, parallel=got, script=script))
            return True
    return False


def search_race(c, tag, rounds=None):
    """failing-input search used when the static discipline or a proof is broken: evaluate fresh loop expressions under maxprocs with the
    race amplifier and random delays; report a real wrong result if one shows up"""
    from nutils import parallel, evaluable as ev
    if getattr(c, '_race_searched', None) is not None:
        return c._race_searched       # one search per run: further broken obligations share its verdict
    c._race_searched = False
    rounds = rounds or (25 if c.tier == 'quick' else 150)
    for k in range(rounds):
        t, outs, n = gen_evaluable(c.search_rng, probe=False)
        if n < 2: continue
        with quiet():
            try:
                with parallel.maxprocs(1):
                    ref = canon(ev.eval_once(outs))
                with Capture(amplify=0.004) as cap, parallel.maxprocs(c.search_rng.choice([2, 3, 4])):
                    got = canon(ev.eval_once(outs))
            except Exception as e:
                got = ('exception', type(e).__name__, str(e)[:200]); ref = ref if 'ref' in dir() else None
        c.count('search:amplified-runs')
        if got != ref:
            c.failing_input('parallel-result-differs:amplified', 'search after a broken obligation (%s): with non-atomic in-place adds the result under maxprocs differs from serial (%s)' % (tag, t),
                            dict(stream='search', tag=t, serial=ref, parallel=got, scripts=[s for s in cap.scripts if 'ctxrange' in s]))
            c._race_searched = True
            return True
    return False
