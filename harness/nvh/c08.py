"""C08 — differential-geometric operators obey their defining identities.

Ties:
(X) `Generated/C08.lean` is regenerated from the real reference elements / transform items (edge transforms, `ext`,
    `isflipped`, children, composites, swap pairs) and `Props/C08.lean` re-proves orthogonality, outwardness, measure,
    closedness, tiling for every entry; the mirrored constructors of `Model/C08.lean` are proved equal to the table.
(M) the driver's model functions (numeric.ext, ScaledUpdim, chain basis / linear, Orthonormal before normalisation,
    sqrt_abs_det_gram) are compared with the real functions on generated rational data.
(V) real lowered+simplified trees of grad/div/curl/laplace/symgrad/J of polynomial fields of affine geometries on single
    elements (structured 1-3D; triangles, tetrahedra, mixed and boundary elements with the element's affine transform
    bound from the real chain) are evaluated by the Lean specification evaluator at a SYMBOLIC point and compared with the
    Lean specification operators (`gradSpec`, … = formal derivatives, bridged to Mathlib's `pderiv`): equality of normal
    forms = the identity holds at all points of the element.
Oracle streams (numeric, exact oracles): see c08_streams.py.
"""
import json, numpy, warnings, time
from fractions import Fraction
from .common import Infra
from . import c08_extract as XT, c08_streams as ST, c08_zoo as ZOO, ser
from .c08_poly import P, random_affine, affine_map, random_map

warnings.simplefilter('ignore')


def q(c):
    c = Fraction(c)
    return str(c.numerator) if c.denominator == 1 else '%d/%d' % (c.numerator, c.denominator)


def qv(v): return [q(x) for x in v]
def qm(m): return [qv(r) for r in m]
def fv(v): return [Fraction(x) for x in v]


def frac(s):
    return Fraction(s)


def exact_vec(a):
    return [Fraction(float(x)) for x in numpy.asarray(a, dtype=float).reshape(-1)]


def exact_mat(a):
    a = numpy.asarray(a, dtype=float)
    return [[Fraction(float(x)) for x in r] for r in a]


def defer(c, name, what, replay):
    """model / code disagreement: first search the real code for a failing input (directed numeric search), report afterwards"""
    c._deferred.append((name, what, replay))


def lean(c, reqs):
    out = []
    for a in c.model([json.dumps(r, separators=(',', ':')) for r in reqs], driver='C08'):
        out.append({'bad': a} if a.startswith('bad-request') else json.loads(a))
    return out


# ------------------------------------------------------------------------------------------------ (M) model vs real
def dyadic(rng):
    return Fraction(rng.randint(-8, 8), rng.choice([1, 2, 4]))


def m_prepare(c, N):
    from nutils import numeric, transform, element, types, evaluable as ev
    rng = c.rng
    ad = types.arraydata
    reqs, checks = [], []
    # --- numeric.ext / Updim.ext
    for _ in range(N):
        shape = rng.choice([(1, 0), (2, 1), (3, 2), (3, 2), (2, 1), (4, 3), (2, 2), (1, 1), (3, 1)])
        A = [[dyadic(rng) for _ in range(shape[1])] for _ in range(shape[0])]
        flip = rng.random() < .5
        An = numpy.array([[float(x) for x in r] for r in A], dtype=float).reshape(shape)
        try:
            if shape[0] == shape[1] + 1:
                real = exact_vec(transform.Updim(ad(An), ad(numpy.zeros(shape[0])), flip).ext)
            else:
                real = exact_vec(numeric.ext(An))
        except (NotImplementedError, AssertionError) as e:
            real = None
        reqs.append(dict(op='ext', linear=qm(A) if shape[1] else [[] for _ in range(shape[0])], flip=flip))
        checks.append(('ext', (shape, A, flip), real))
    # --- ScaledUpdim / Matrix.__mul__
    for _ in range(N):
        n = rng.choice([1, 2, 3])
        while True:
            C = numpy.array([[float(dyadic(rng)) for _ in range(n)] for _ in range(n)])
            if abs(numpy.linalg.det(C)) > .1: break
        oc = numpy.array([float(dyadic(rng)) for _ in range(n)])
        E = numpy.array([[float(dyadic(rng)) for _ in range(n - 1)] for _ in range(n)]).reshape(n, n - 1)
        oe = numpy.array([float(dyadic(rng)) for _ in range(n)])
        fl = rng.random() < .5
        sq = transform.Square(ad(C), ad(oc)); up = transform.Updim(ad(E), ad(oe), fl)
        comp = transform.ScaledUpdim(sq, up) if rng.random() < .5 else sq * up
        reqs.append(dict(op='scaled', child=dict(linear=qm(exact_mat(C)), offset=qv(exact_vec(oc))),
                         edge=dict(linear=qm(exact_mat(E)) if n > 1 else [[]], offset=qv(exact_vec(oe)), flip=fl)))
        checks.append(('scaled', (C.tolist(), E.tolist(), fl), dict(linear=exact_mat(comp.linear), offset=exact_vec(comp.offset), flip=bool(comp.isflipped), ext=exact_vec(comp.ext))))
    # --- Orthonormal.evalf
    for _ in range(N):
        n, k = rng.choice([(2, 1), (3, 2), (3, 1), (3, 2), (2, 1)])
        while True:
            G = numpy.array([[float(dyadic(rng)) for _ in range(k)] for _ in range(n)])
            if numpy.linalg.svd(G, compute_uv=False)[-1] > .2: break
        while True:
            v = numpy.array([float(dyadic(rng)) for _ in range(n)])
            if numpy.linalg.norm(v - G @ numpy.linalg.lstsq(G, v, rcond=None)[0]) > .1: break
        real = ev.Orthonormal.evalf(G, v)
        reqs.append(dict(op='project', G=qm(exact_mat(G)), k=k, v=qv(exact_vec(v))))
        checks.append(('project', (G.tolist(), v.tolist()), real))
    # --- sqrt_abs_det_gram, inverse-based gradient, surface gradient, exterior normal (evaluable level, constant data)
    for _ in range(N):
        r, k = rng.choice([(1, 1), (2, 2), (3, 3), (2, 1), (3, 2), (3, 1)])
        while True:
            J = numpy.array([[float(dyadic(rng)) for _ in range(k)] for _ in range(r)])
            if numpy.linalg.svd(J, compute_uv=False)[-1] > .2: break
        df = numpy.array([float(dyadic(rng)) for _ in range(k)])
        Je = ev.constant(J); dfe = ev.constant(df)
        real = dict(sq=float(ev.eval_once(ev.sqrt_abs_det_gram(Je))))
        if r == k:
            real['grad'] = ev.eval_once(ev.einsum('i,ij->j', dfe, ev.inverse(Je)))
        real['surfgrad'] = ev.eval_once(ev.einsum('i,ij->j', dfe, ev.einsum('jk,ik->ij', Je, ev.inverse(ev.grammium(Je)))))
        reqs.append(dict(op='matrix', J=qm(exact_mat(J)), rows=r, cols=k, df=qv(exact_vec(df))))
        checks.append(('matrix', (J.tolist(), df.tolist()), real))
    # --- reference tables through the driver (the same comparison is proved in Lean on the generated table)
    for name, _, ref in XT.kinds():
        try:
            data = XT.ref_data(ref)
        except Exception as e:
            c.count('M:ref-data-exception:' + type(e).__name__); continue
        reqs.append(dict(op='ref', kind=name))
        checks.append(('ref', name, data))
    # --- chains: TransformBasis._transform_basis / TransformLinear._transform_linear on real boundary chains
    for chain in real_chains(c, 3 * N):
        items = []
        for it in chain:
            if isinstance(it, transform.Updim):
                items.append(dict(up=dict(linear=qm(exact_mat(it.linear)) if it.fromdims else [[] for _ in range(it.todims)], offset=qv(exact_vec(it.offset)), flip=bool(it.isflipped))))
            else:
                items.append(dict(sq=dict(linear=qm(exact_mat(it.linear)), offset=qv(exact_vec(it.offset)))))
        fromdims = chain[-1].fromdims; todims = chain[0].todims
        real = dict(linear=ev.TransformLinear._transform_linear(chain, fromdims))
        try:
            real['basis'] = ev.TransformBasis._transform_basis(chain, fromdims, todims)
        except AssertionError:
            real['basis'] = None
        reqs.append(dict(op='basis', chain=items, fromdims=fromdims))
        checks.append(('basis', [type(i).__name__ for i in chain], real))
    return reqs, lambda ans: m_finish(c, reqs, checks, ans)


def m_finish(c, reqs, checks, ans):
    from . import c08_streams as ST
    nbad = {}
    for (kind, data, real), a, r in zip(checks, ans, reqs):
        ok = True
        if 'bad' in a:
            ok = False
        elif kind == 'ext':
            ok = (a['ext'] is None) == (real is None) and (real is None or fv(a['ext']) == real)
        elif kind == 'scaled':
            ok = [fv(x) for x in a['linear']] == [list(x) for x in real['linear']] and fv(a['offset']) == real['offset'] and a['flip'] == real['flip'] and a['ext'] is not None and fv(a['ext']) == real['ext']
            if len(real['linear']) == 1: ok = fv(a['offset']) == real['offset'] and a['flip'] == real['flip'] and fv(a['ext']) == real['ext']
        elif kind == 'project':
            if a['w'] is None: ok = False
            else:
                w = numpy.array([float(Fraction(x)) for x in a['w']]); ww = float(Fraction(a['ww']))
                ok = ST.relerr(real * numpy.sqrt(ww), w) < 1e-12 and abs(numpy.linalg.norm(real) - 1) < 1e-12
        elif kind == 'matrix':
            ok = abs(real['sq'] ** 2 - float(Fraction(a['sqdetgram']))) < 1e-10 * max(1, real['sq'] ** 2)
            if 'grad' in real: ok = ok and a['grad'] is not None and ST.relerr(real['grad'], [float(Fraction(x)) for x in a['grad']]) < 1e-11
            ok = ok and a['surfgrad'] is not None and ST.relerr(real['surfgrad'], [float(Fraction(x)) for x in a['surfgrad']]) < 1e-11
        elif kind == 'ref':
            try:
                ok = (a['ndims'] == real['ndims'] and Fraction(a['volume']) == XT.rat(real['volume']) and fv(a['centroid']) == [XT.rat(x) for x in real['centroid']]
                      and len(a['edges']) == len(real['edges']) and len(a['children']) == len(real['children']))
                for ea, er in zip(a['edges'], real['edges']):
                    ok = ok and [fv(x) for x in ea['linear']] == [[XT.rat(v) for v in row] for row in er['linear']] and fv(ea['offset']) == [XT.rat(v) for v in er['offset']] \
                        and fv(ea['ext']) == [XT.rat(v) for v in er['ext']] and ea['isflipped'] == er['isflipped'] and Fraction(ea['refVolume']) == XT.rat(er['volume'])
                for ca, cr in zip(a['children'], real['children']):
                    ok = ok and [fv(x) for x in ca['linear']] == [[XT.rat(v) for v in row] for row in cr['linear']] and fv(ca['offset']) == [XT.rat(v) for v in cr['offset']]
            except ValueError:
                ok = False
        elif kind == 'basis':
            L = numpy.array([[float(Fraction(x)) for x in row] for row in a['linear']]).reshape(numpy.shape(real['linear']))
            ok = numpy.array_equal(L, real['linear'])
            if real['basis'] is None: ok = ok and a['basis'] is None
            else: ok = ok and a['basis'] is not None and numpy.array_equal(numpy.array([[float(Fraction(x)) for x in row] for row in a['basis']]), real['basis'])
        c.count('M:' + kind)
        c.case(('M', kind, repr(data)), nontrivial=True)
        if ok:
            c.traces += 1
        else:
            nbad[kind] = nbad.get(kind, 0) + 1
            defer(c, 'corr:' + kind, 'model and implementation disagree on ' + kind, dict(request=r, model=a, real=repr(real), data=repr(data)))
    for kind in ('ext', 'scaled', 'project', 'matrix', 'ref', 'basis'):
        c.obligation('corr:' + kind, nbad.get(kind, 0) == 0, 'correspondence', '%d cases' % c.counters.get('M:' + kind, 0))


def real_chains(c, n):
    """transform chains of boundary / interface elements of refined topologies (canonical chains with edges and children)"""
    from nutils import mesh
    rng = c.rng
    out = []
    makers = [lambda: mesh.rectilinear([2, 2])[0], lambda: mesh.unitsquare(2, 'triangle')[0], lambda: mesh.unitsquare(2, 'mixed')[0],
              lambda: mesh.rectilinear([1, 2, 1])[0], lambda: mesh.simplex(*ZOO.kuhn(1), ZOO.kuhn(1)[1], {}, {}, {})[0] if False else None, lambda: mesh.rectilinear([3])[0]]
    topos = []
    for mk in makers:
        try:
            t = mk()
            if t is not None: topos.append(t)
        except Exception:
            pass
    s, cc = ZOO.kuhn(1)
    try:
        topos.append(mesh.simplex(nodes=s, cnodes=s, coords=cc, tags={}, btags={}, ptags={})[0])
    except Exception:
        pass
    for t in topos:
        cands = []
        variants = []
        for mk in (lambda: t, lambda: t.refined, lambda: t.refined_by([0]), lambda: t.refined.refined_by([1])):
            try: variants.append(mk())
            except Exception: c.count('M:chain-topology-unavailable')
        for v in variants:
            for attr in ('boundary', 'interfaces'):
                try:
                    b = getattr(v, attr)
                    for seq in (b.transforms, b.opposites):
                        for i in range(len(seq)):
                            cands.append(seq[i])
                except Exception:
                    c.count('M:chain-topology-unavailable')
        rng.shuffle(cands)
        out += cands[:max(2, n // len(topos))]
    return out[:n]


# ------------------------------------------------------------------------------------------------ spec cross-check
def spec_prepare(c, N):
    """the Python oracle (c08_poly.P derivatives) agrees with the Lean specification operators at rational points"""
    rng = c.rng
    reqs, wants = [], []
    for _ in range(N):
        n = rng.choice([1, 2, 3])
        kind = rng.choice(['grad', 'vgrad', 'div', 'laplace', 'vlaplace', 'symgrad'] + (['curl'] if n == 3 else []))
        F = [P.random(rng, n, rng.choice([1, 2, 3])) for _ in range(n)]
        pts = [[dyadic(rng) for _ in range(n)] for _ in range(3)]
        fields = F if kind in ('vgrad', 'div', 'vlaplace', 'symgrad', 'curl') else F[:1]
        reqs.append(dict(op='spec', kind=kind, n=n, fields=[f.json() for f in fields], x=qm(pts)))
        p = F[0]
        def val(x):
            if kind == 'grad': return [p.deriv(i).exact(x) for i in range(n)]
            if kind == 'vgrad': return [f.deriv(j).exact(x) for f in F for j in range(n)]
            if kind == 'div': return [sum(F[i].deriv(i).exact(x) for i in range(n))]
            if kind == 'laplace': return [sum(p.deriv(i).deriv(i).exact(x) for i in range(n))]
            if kind == 'vlaplace': return [sum(f.deriv(i).deriv(i).exact(x) for i in range(n)) for f in F]
            if kind == 'symgrad': return [(F[i].deriv(j).exact(x) + F[j].deriv(i).exact(x)) / 2 for i in range(n) for j in range(n)]
            if kind == 'curl': return [F[2].deriv(1).exact(x) - F[1].deriv(2).exact(x), F[0].deriv(2).exact(x) - F[2].deriv(0).exact(x), F[1].deriv(0).exact(x) - F[0].deriv(1).exact(x)]
        wants.append([val(x) for x in pts])
    return reqs, lambda ans: spec_finish(c, reqs, wants, ans)


def spec_finish(c, reqs, wants, ans):
    nbad = 0
    for r, a, w in zip(reqs, ans, wants):
        c.count('spec-crosscheck:' + r['kind'])
        if 'bad' in a or [fv(row) for row in a['values']] != w:
            nbad += 1
            defer(c, 'corr:spec-oracle', 'python polynomial oracle and Lean specification operators disagree', dict(request=r, lean=a, python=[[str(v) for v in row] for row in w]))
    c.obligation('corr:spec-oracle', nbad == 0, 'correspondence', '%d operator evaluations' % len(reqs))


# ------------------------------------------------------------------------------------------------ (V) symbolic validation
def bind_transforms(tree):
    """replace Transform* nodes with a constant index by the constant affine data the real chain code returns"""
    from nutils import evaluable as ev, _util as util

    def const_index(index):
        try:
            return int(ev.eval_once(index))
        except Exception:
            return None

    def rep(obj):
        if isinstance(obj, ev.TransformCoords):
            if const_index(obj.index) is None: return None
            coords = util.shallow_replace(rep, obj.coords)
            L = ev.eval_once(ev.TransformLinear(obj.target, obj.source, obj.index))
            o = ev.eval_once(ev.TransformCoords(obj.target, obj.source, obj.index, ev.zeros((ev.constant(obj.source.fromdims),), float)))
            lin = ev.einsum('ij,Aj->Ai', ev.constant(L), coords, A=coords.ndim - 1) if obj.source.fromdims else ev.zeros((*coords.shape[:-1], ev.constant(len(o))), float)
            return lin + ev.prependaxes(ev.constant(o), coords.shape[:-1])
        if isinstance(obj, (ev.TransformLinear, ev.TransformBasis, ev.TransformIndex)):
            if const_index(obj.index) is None: return None
            return ev.constant(ev.eval_once(obj))
        return None
    return util.shallow_replace(rep, tree)


def v_cases(c, N, zoo):
    """(description, request, concrete check data)"""
    from nutils import mesh, function, evaluable as ev
    rng = c.rng
    cands = [z for z in zoo if z.spaces is None and z.name not in ('unitsquare-multipatch',)]
    out = []
    tries = 0
    while len(out) < N and tries < 6 * N:
        tries += 1
        z = rng.choice(cands)
        v = z
        if rng.random() < .35:
            v = ZOO.refine(z, rng, rng.choice(['refined', 'hier'])) or z
        d = z.d
        where = 'interior' if rng.random() < .7 else 'boundary'
        try:
            topo = v.topo if where == 'interior' else v.topo.boundary
            if len(topo) == 0: continue
        except Exception as e:
            c.count('V:topology-exception:' + type(e).__name__); continue
        m = d if where == 'interior' else d - 1
        A, b = random_affine(rng, d)
        maps = affine_map(A, b)
        xs = [mm.nutils(v.x0) for mm in maps]
        x = numpy.stack(xs)
        p = P.random(rng, d, rng.choice([2, 3])); F = [P.random(rng, d, rng.choice([1, 2])) for _ in range(d)]
        pf = p.nutils(xs); Ff = numpy.stack([f.nutils(xs) for f in F])
        ops = ['grad', 'vgrad', 'div', 'laplace', 'symgrad', 'value'] + (['vlaplace'] if d < 3 or c.tier != 'quick' else []) + (['curl'] if d == 3 else []) + (['jac'] if where == 'interior' else [])
        kind = rng.choice(ops)
        expr, fields = dict(grad=lambda: (function.grad(pf, x), [p]), vgrad=lambda: (function.grad(Ff, x), F), div=lambda: (function.div(Ff, x), F),
                            laplace=lambda: (function.laplace(pf, x), [p]), vlaplace=lambda: (function.laplace(Ff, x), F), symgrad=lambda: (function.symgrad(Ff, x), F),
                            curl=lambda: (function.curl(Ff, x), F), jac=lambda: (function.J(x), [p]), value=lambda: (pf, [p]))[kind]()
        space, = topo.spaces
        ielem = rng.randrange(len(topo))
        xi = ev.Argument('xi', (ev.constant(1), ev.constant(m)), float)
        la = function.LowerArgs.for_space(space, (topo.transforms, topo.opposites), ev.constant(ielem), xi)
        try:
            tree = bind_transforms(expr.lower(la)).simplified
            x0tree = bind_transforms(v.x0.lower(la)).simplified
        except Exception as e:
            c.count('V:lowering-exception:' + type(e).__name__); continue
        def x0at(pt):
            return ev.eval_once(x0tree, arguments={'xi': numpy.asarray(pt, dtype=float).reshape(1, m)})[0]
        o = x0at(numpy.zeros(m))
        D = numpy.stack([x0at(numpy.eye(m)[j]) - o for j in range(m)], 1) if m else numpy.zeros((d, 0))
        probe = numpy.array([rng.randint(1, 7) / 8. for _ in range(m)])
        if abs(x0at(probe) - (o + D @ probe)).max() > 1e-13:
            c.count('V:element-not-affine'); continue
        try:
            XT.rat(1.)
            [XT.rat(D[k][j], 720) for k in range(d) for j in range(m)], [XT.rat(o[k], 720) for k in range(d)]
        except ValueError:
            c.count('V:element-map-not-rational'); continue
        Af = [[sum(A[i][k] * XT.rat(D[k][j], 720) for k in range(d)) for j in range(m)] for i in range(d)]
        bf = [sum(A[i][k] * XT.rat(o[k], 720) for k in range(d)) + b[i] for i in range(d)]
        spec = dict(kind=kind, fields=[f.json() for f in fields], A=qm(Af) if m else [[] for _ in range(d)], b=qv(bf), arg='xi')
        try:
            r, s = ser.request([tree], {}, symbolic={'xi': (1, m)})
            pt = numpy.array([[rng.randint(0, 8) / 8. for _ in range(m)]])
            if where == 'interior' and z.simplex: pt = pt / (2 * max(1, m))
            r2, _ = ser.request([tree], {'xi': pt})
        except ValueError as e:
            c.count('V:not-serialisable'); continue
        reqs = []
        for rr in (r, r2):
            j = json.loads(rr); j['op'] = 'check'; j['spec'] = spec
            reqs.append(j)
        out.append((dict(topology=v.name, where=where, element=ielem, operator=kind, geometry=[repr(mm) for mm in maps], field=repr(fields), nodes=len(s.nodes)), reqs, tree, pt, (kind, fields, maps, v, m)))
    return out


def v_prepare(c, N, zoo):
    cases = v_cases(c, N, zoo)
    return [r for _, reqs, *_ in cases for r in reqs], lambda ans: v_finish(c, cases, ans)


def v_finish(c, cases, ans):
    from nutils import evaluable as ev
    nsym = nconc = nundec = nbad = 0
    for (desc, reqs, tree, pt, (kind, fields, maps, v, m)), asym, acon in zip(cases, ans[0::2], ans[1::2]):
        c.case(('V', repr(desc)), nontrivial=True)
        c.count('V:%s:%s:%s' % (desc['where'], v.family, kind))
        if 'bad' in asym or 'bad' in acon:
            raise Infra('C08 driver rejected a check request: %r' % (asym.get('bad') or acon.get('bad'))[:300])
        # real evaluation of the same tree at the concrete point
        try:
            real = numpy.asarray(ev.eval_once(tree, arguments={'xi': pt}))
        except Exception as e:
            real = None
        # spec-eval correspondence: Lean's evaluation of the tree at the concrete point vs the real evaluation
        if 'error' in acon['result']:
            c.count('V:lean-' + acon['result']['error'] + ':' + str(acon['result'].get('what'))[:40])
            nundec += 1
            continue
        lean_val = numpy.array([float(Fraction(k)) for k in acon['result']['data']]).reshape(acon['result']['shape'])
        want = numpy.array([float(Fraction(k)) for k in acon['expect']['data']]).reshape(acon['expect']['shape'])
        if real is None or ST.relerr(real, lean_val) > 1e-9:
            nbad += 1
            defer(c, 'corr:spec-eval', 'Lean specification evaluator and real evaluation of the same lowered tree disagree', dict(desc, point=pt.tolist(), lean=acon['result'], real=None if real is None else real.tolist()))
            continue
        c.traces += 1
        if asym['verdict'] == 'same':
            nsym += 1; c.count('V:proved-for-all-points-of-the-element')
            if len(c.samples) < 6: c.sample(dict(stream='symbolic', verdict='same', **desc))
        elif acon['verdict'] == 'same':
            nconc += 1; c.count('V:equal-at-sample-point-only')
        else:
            # candidate: confirm on the real code against the oracle
            err = ST.relerr(real, want)
            if err >= ST.FAIL_TOL:
                c.failing_input('%s-wrt-geometry' % ('grad' if kind == 'value' else kind) if kind != 'jac' else 'jacobian-multiplicative',
                                'the lowered %s tree differs from the specification operator (symbolically and at a sample point, error %.3g)' % (kind, err),
                                dict(desc, point=pt.tolist(), real=real.tolist(), expected=want.tolist(), lean_symbolic=asym['result'], expect_symbolic=asym['expect']))
            else:
                nundec += 1; c.count('V:lean-differs-real-agrees')
                defer(c, 'corr:spec-eval', 'Lean finds a difference that the real evaluation does not show', dict(desc, point=pt.tolist(), lean=acon, real=real.tolist()))
    c.extra['proved_symbolically_for_all_points_of_an_element'] = nsym
    c.extra['decided_exactly_at_sample_point_only'] = nconc
    c.obligation('corr:spec-eval', nbad == 0, 'correspondence', '%d lowered trees evaluated identically by Lean and by the real code' % (nsym + nconc))
    c.obligation('valid:operators-symbolic', nsym > 0 and not any(v[2].endswith('-wrt-geometry') and 'lowered' in str(v) for v in c.violations), 'validation',
                 '%d proved at a symbolic point, %d at a sample point, %d undecided' % (nsym, nconc, nundec))


# ------------------------------------------------------------------------------------------------ open known findings
NORMAL_1D_SIG = 'normal:1d-unstructured-both-ends-positive'


def normal_1d_unstructured_probe():
    """recorded minimal input of the open finding: one line element as a ConnectedTopology (non-structured transforms); the outward
    unit normal of the interval [0,1] is +1 at x=1 and -1 at x=0 (it points away from the centroid).  True = still fails."""
    from nutils import topology, function, element, transformseq
    from nutils.elementseq import References
    dom = topology.ConnectedTopology('X', References.uniform(element.LineReference(), 1), transformseq.IndexTransforms(1, 1), transformseq.IndexTransforms(1, 1), [numpy.repeat(-1, 2)])
    geom = function.transforms_coords('X', dom.transforms)
    x, n = dom.boundary.sample('gauss', 1).eval([geom, function.normal(geom)])
    x = numpy.asarray(x, dtype=float).reshape(-1); n = numpy.asarray(n, dtype=float).reshape(-1)
    if sorted(x.tolist()) != [0., 1.] or len(n) != 2:
        raise ValueError('unexpected boundary sample %r' % (x,))
    outward = (x - .5) * 2
    return bool(abs(n - outward).max() > 1e-12)


# ------------------------------------------------------------------------------------------------ main
def run(c):
    c.rule = ('(topology kind x refinement variant x geometry map kind x polynomial fields x sample scheme): topologies from a zoo that covers the unit box in '
              '1-3D (rectilinear non-uniform, unitsquare square/triangle/mixed/multipatch, Kuhn tetrahedra, two-patch, product topologies with separate spaces), each '
              'as is, uniformly refined or hierarchically refined; geometry = random affine (anisotropic, non-symmetric, either orientation) / bilinear / quadratic '
              'dyadic polynomial map of the box with Jacobian bounded away from singular; fields = random integer polynomials of degree <= 3; a case is non-trivial when it '
              'evaluates at least one operator on at least one point; distinct by topology, element count, map and field coefficients')
    c.assumptions += ['float evaluation of the real code is compared with exact oracles with tolerance 1e-10 (agreement) / 1e-8 (failing input); maps are well conditioned dyadic polynomials',
                      'the value of the mesh geometry x0 at sample points is taken from the real code (basis evaluation is not part of this property); only its being a point of the unit box is used',
                      'symbolic validation binds the affine transform of one element (constant index) from the real chain code and covers affine geometries; curved geometries, normals (Orthonormal, sqrt) and manifolds are numeric',
                      'parametricity of the Lean evaluator in its scalar carrier relies on Props/Poly soundness; the evaluator is executed, not kernel-reduced',
                      'reference kinds in the table: point, line, triangle, tetrahedron, square, cube, triangle*line, line*triangle (what numeric.ext supports: n <= 3)']
    t0 = time.time()
    try:
        text = XT.tables_text()
        if c.write_generated('C08.lean', text): c.log('generated table changed')
        table_error = None
    except Exception as e:
        table_error = '%s: %s' % (type(e).__name__, e)
        c.log('table extraction failed:', table_error)
    broken = c.build_and_audit()
    if table_error: broken.append('table extraction: ' + table_error)
    quick = c.tier == 'quick'
    c.log('build+audit done')

    c._deferred = []
    st = ST.Streams(c)
    # (M) + spec cross-check + (V): one batch through the Lean driver
    parts = [m_prepare(c, 12 if quick else 150), spec_prepare(c, 10 if quick else 120), v_prepare(c, 10 if quick else 130, st.zoo)]
    c.log('lean requests prepared')
    ans = lean(c, [r for reqs, _ in parts for r in reqs])
    pos = 0
    for reqs, finish in parts:
        finish(ans[pos:pos + len(reqs)]); pos += len(reqs)
    c.log('lean batch done')

    # numeric oracle streams
    kinds = ['affine', 'bilinear', 'quadratic']
    budget = 75 if quick else 560
    rounds = 1 if quick else 6
    tstart = time.time()
    order = list(st.zoo)

    secs = c.extra.setdefault('stream_seconds', {})

    def run_stream(name, v, kind):
        t1 = time.time()
        try:
            getattr(st, name)(v, kind)
        except Infra:
            raise
        except Exception as e:
            # exceptions of the real code on generated input are outcomes: the operator does not exist on this input
            c.failing_input('exception:%s:%s' % (name, type(e).__name__), 'real code raises %s: %s in stream %s on %s (%s geometry)' % (type(e).__name__, str(e)[:120], name, v.name, kind),
                            dict(stream=name, topology=v.name, kind=kind))
        key = '%s:%s' % (name, v.family)
        secs[key] = round(secs.get(key, 0) + time.time() - t1, 2)

    if broken or c._deferred:
        # a table theorem / the model equality no longer holds: directed search on the real code (boundary integral of the normal,
        # outward normals, interface normals) over every topology kind and its refinements, affine geometry
        c.log('proof obligations broken: directed search over all topology kinds')
        for z in st.zoo:
            for v in [z] + [r for r in (ZOO.refine(z, c.rng, 'refined'), ZOO.refine(z, c.rng, 'hier')) if r is not None and len(r.topo) <= 500]:
                for name in ('boundary', 'interfaces', 'integral'):
                    run_stream(name, v, 'affine')
    # open known findings: re-run their recorded minimal inputs
    for entry in c.findings:
        if entry.get('status') == 'open' and entry.get('signature') == NORMAL_1D_SIG:
            try:
                still = normal_1d_unstructured_probe()
            except Exception as e:
                c.count('known-finding-probe-exception:' + type(e).__name__); still = False
            c.report_known_still_failing(entry, still)
    # geometry on a basis of topo.refined, operators on finer levels (target of TransformLinear is a strict ancestor): deterministic core,
    # then one random depth / geometry kind per non-product zoo entry
    try:
        st.refined_target_core()
    except Infra:
        raise
    except Exception as e:
        c.failing_input('exception:refined_target:%s' % type(e).__name__, 'real code raises %s: %s in stream refined_target (core)' % (type(e).__name__, str(e)[:120]), dict(stream='refined_target'))
    for i, z in enumerate(st.zoo):
        if not z.spaces:
            for kind in ([kinds[(c.seed + i) % 3]] if quick else kinds):
                run_stream('refined_target', z, kind)
    c.log('refined-target streams done')
    for rnd in range(rounds):
        c.rng.shuffle(order)
        for i, z in enumerate(order):
            if time.time() - tstart > budget: c.count('numeric-budget-cut'); break
            vs = st.variants(z)
            for v in ([vs[-1]] if quick else vs):
                for kind in ([kinds[(c.seed + i + rnd) % 3]] if quick else kinds):
                    extra = ['integral', 'interfaces'] + (['product'] if getattr(v, 'factors', None) else ['fe_geometry'])
                    names = ['boundary', 'interior'] + (c.rng.sample(extra, 1 if z.d == 3 else 2) if quick else extra)
                    if quick and z.spaces:      # product topologies lower slowly: two streams per run
                        names = c.rng.sample(['boundary', 'interior', 'product', 'interfaces'], 2 if z.d == 2 else 1) + (['product'] if z.d == 3 and c.rng.random() < .5 else [])
                    if not getattr(v, 'factors', None):
                        names = [n for n in names if n != 'product']
                    for name in names:
                        run_stream(name, v, kind)
        for name in ['curve', 'surface3', 'curvature']:
            try:
                getattr(st, name)()
            except Exception as e:
                c.failing_input('exception:%s:%s' % (name, type(e).__name__), 'real code raises %s: %s in stream %s' % (type(e).__name__, str(e)[:120], name), dict(stream=name))
        for kind in (['affine'] if quick else kinds):
            try:
                st.reparam(kind)
            except Exception as e:
                c.failing_input('exception:reparam:%s' % type(e).__name__, 'real code raises %s: %s in stream reparam' % (type(e).__name__, str(e)[:120]), dict(stream='reparam'))
    st.obligations()
    c.log('numeric streams done')

    found = any(v[1] and not v[2].startswith('broken:') for v in c.violations)
    if not found:
        # the numeric streams above (incl. the directed search) did not find a failing input of the real code
        for name, what, replay in c._deferred:
            c.broken_no_input(name, what, replay)
        for b in broken:
            c.broken_no_input('proof', b, dict(detail=b))
    elif broken or c._deferred:
        c.log('broken obligations explained by the failing input(s) above: %s' % ', '.join(sorted(set([n for n, _, _ in c._deferred] + ['proof'] * bool(broken)))))
