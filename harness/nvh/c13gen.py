"""Generator of random *function-level* arrays (nutils.function / numpy dispatch) over a fixed pool of Arguments,
of replacement maps (renames, swaps, chains, expressions, constants) in all documented spellings, and of small
topology-bound integrals / samples.  Everything is built through the public API; values are small dyadic rationals."""
import numpy, itertools
from nutils import function, mesh

POOL = {'u': ((3,), float), 'v': ((3,), float), 'w': ((), float), 'z': ((), float), 'p': ((2, 3), float), 'q': ((2, 3), float),
        'r': ((2,), float), 's': ((2,), float), 'k': ((), int), 'm': ((), int)}
FRESH = {'u': 'a', 'v': 'b', 'w': 'c', 'z': 'd', 'p': 'e', 'q': 'f', 'r': 'g', 's': 'h', 'k': 'i', 'm': 'j'}   # fresh names for renames


def argument(name, pool=POOL):
    shape, dtype = pool[name]
    return function.Argument(name, shape, dtype)


def sample_values(rng, arguments):
    vals = {}
    for name, (shape, dtype) in arguments.items():
        r = numpy.random.default_rng(rng.getrandbits(32))
        if dtype == int:
            vals[name] = r.integers(-2, 4, shape)
        elif dtype == bool:
            vals[name] = r.integers(0, 2, shape).astype(bool)
        else:
            vals[name] = r.integers(-6, 7, shape) / rng.choice([1., 2., 4.])
    return vals


class FGen:
    def __init__(self, rng, poly=False, pool=POOL, names=None, ints=True):
        self.rng = rng
        self.poly = poly
        self.pool = pool
        self.names = [n for n in (names or pool) if ints or pool[n][1] != int]
        self.hits = {}

    def hit(self, k):
        self.hits[k] = self.hits.get(k, 0) + 1

    def const(self, shape):
        r = numpy.random.default_rng(self.rng.getrandbits(32))
        self.hit('const')
        return function.Array.cast(r.integers(-3, 4, shape) / self.rng.choice([1., 2.]))

    def leaf(self, shape):
        shape = tuple(shape)
        rng = self.rng
        exact = [n for n in self.names if self.pool[n][0] == shape and self.pool[n][1] == float]
        c = rng.random()
        if exact and c < .7:
            self.hit('arg')
            return argument(rng.choice(exact), self.pool)
        scalars = [n for n in self.names if self.pool[n][0] == ()]
        suffix = [n for n in self.names if self.pool[n][1] == float and self.pool[n][0] and self.pool[n][0] == shape[len(shape)-len(self.pool[n][0]):] and self.pool[n][0] != shape]
        if suffix and c < .85:
            self.hit('arg-broadcast')
            return numpy.broadcast_to(argument(rng.choice(suffix), self.pool), shape)
        if scalars and c < .95:
            self.hit('arg-scalar')
            a = argument(rng.choice(scalars), self.pool)
            return a * self.const(shape) if shape else a * 1.
        return self.const(shape)

    def array(self, shape, depth):
        shape = tuple(int(n) for n in shape)
        rng = self.rng
        if depth <= 0:
            return self.leaf(shape)
        ops = ['add', 'sub', 'mul', 'mul', 'neg', 'pow', 'sum', 'index', 'scale', 'matvec']
        if not self.poly:
            ops += ['sin', 'cos', 'exp', 'tanh', 'div']
        if len(shape) >= 1:
            ops += ['stack', 'slice', 'insertaxis', 'field']
            if shape[-1] >= 2: ops += ['concat']
        if len(shape) >= 2:
            ops += ['transpose', 'outer']
        if len(shape) <= 1:
            ops += ['trace']
        if len(shape) == 2 and shape[0] == shape[1]:
            ops += ['diagonalize']
        op = rng.choice(ops)
        self.hit(op)
        d = depth - 1
        sub = lambda sh, dd=None: self.array(sh, d if dd is None else dd)
        if op in ('add', 'sub', 'mul'):
            a = sub(shape)
            k = rng.choice(range(len(shape) + 1))
            bshape = rng.choice([shape, shape[k:], ()])
            b = sub(bshape, rng.randint(0, d))
            if rng.random() < .5: a, b = b, a
            return a + b if op == 'add' else a - b if op == 'sub' else a * b
        if op == 'neg': return -sub(shape)
        if op == 'scale': return sub(shape) * rng.choice([2., -.5, 3.])
        if op == 'pow': return sub(shape) ** rng.choice([2, 2, 3])
        if op == 'sin': return numpy.sin(sub(shape))
        if op == 'cos': return numpy.cos(sub(shape))
        if op == 'exp': return numpy.exp(sub(shape, min(d, 1)))
        if op == 'tanh': return numpy.tanh(sub(shape))
        if op == 'div': return sub(shape) / (1 + sub(shape, rng.randint(0, d)) ** 2)
        if op == 'sum':
            pos = rng.randint(0, len(shape)); n = rng.choice([2, 3])
            return numpy.sum(sub(shape[:pos] + (n,) + shape[pos:]), pos)
        if op == 'index':
            pos = rng.randint(0, len(shape)); n = rng.choice([2, 3])
            a = sub(shape[:pos] + (n,) + shape[pos:])
            return a[(slice(None),) * pos + (rng.randrange(n),)]
        if op == 'slice':
            pos = rng.randrange(len(shape)); extra = rng.choice([1, 2]); off = rng.randint(0, extra)
            a = sub(shape[:pos] + (shape[pos] + extra,) + shape[pos+1:])
            return a[(slice(None),) * pos + (slice(off, off + shape[pos]),)]
        if op == 'matvec':
            n = rng.choice([2, 3])
            return sub(shape + (n,)) @ sub((n,), rng.randint(0, d))
        if op == 'stack':
            pos = rng.randrange(len(shape))
            return numpy.stack([sub(shape[:pos] + shape[pos+1:], rng.randint(0, d)) for _ in range(shape[pos])], axis=pos)
        if op == 'concat':
            pos = len(shape) - 1; n1 = rng.randrange(1, shape[pos])
            return numpy.concatenate([sub(shape[:pos] + (n1,)), sub(shape[:pos] + (shape[pos] - n1,), rng.randint(0, d))], axis=pos)
        if op == 'insertaxis':
            pos = rng.randrange(len(shape))
            return function.insertaxis(sub(shape[:pos] + shape[pos+1:]), pos, shape[pos])
        if op == 'transpose':
            perm = list(range(len(shape))); rng.shuffle(perm)
            src = [None] * len(shape)
            for i, pp in enumerate(perm): src[pp] = shape[i]
            return numpy.transpose(sub(tuple(src)), perm)
        if op == 'outer':
            k = rng.randrange(1, len(shape))
            a = sub(shape[:k]); b = sub(shape[k:], rng.randint(0, d))
            return a[(...,) + (None,) * (len(shape) - k)] * b
        if op == 'trace':
            n = rng.choice([2, 3])
            return numpy.trace(sub(shape + (n, n)), axis1=-2, axis2=-1)
        if op == 'diagonalize':
            return function.diagonalize(sub(shape[:1]))
        if op == 'field':
            # inner product of a 1-d argument with a constant matrix (function.field / dotarg)
            cands = [n for n in self.names if len(self.pool[n][0]) == 1 and self.pool[n][1] == float]
            if not cands:
                return self.leaf(shape)
            n = rng.choice(cands)
            A = numpy.random.default_rng(rng.getrandbits(32)).integers(-2, 3, self.pool[n][0] + shape) / 2.
            return (function.dotarg if rng.random() < .5 else function.field)(n, A)
        raise AssertionError(op)


# ------------------------------------------------------------------ replacement maps and their spellings

def spell(rng, pairs, fshape_of, force=None):
    """pairs: list of (key name, value) with value a str (argument name) or a function.Array.
    Returns (tag, specification object) in one of the documented spellings."""
    allnames = all(isinstance(v, str) for k, v in pairs)
    kinds = ['dict', 'pairs', 'argkeys', 'mixed']
    if allnames and pairs and all(':' not in k and ',' not in k and ',' not in v for k, v in pairs):
        kinds += ['string', 'strings', 'argvalues', 'argpairs']
    kind = force or rng.choice(kinds)
    A = lambda k: function.Argument(k, *fshape_of(k))
    V = lambda k, v: function.Argument(v, *fshape_of(k)) if isinstance(v, str) else v
    if kind == 'dict': return kind, {k: v for k, v in pairs}
    if kind == 'pairs': return kind, [(k, v) for k, v in pairs]
    if kind == 'argkeys': return kind, [(A(k), v) for k, v in pairs]
    if kind == 'mixed': return kind, [(A(k), V(k, v)) if i % 2 else ('%s:%s' % (k, v) if isinstance(v, str) else (k, v)) for i, (k, v) in enumerate(pairs)]
    if kind == 'string': return kind, ','.join('%s:%s' % kv for kv in pairs)
    if kind == 'strings': return kind, tuple('%s:%s' % kv for kv in pairs)
    if kind == 'argvalues': return kind, {k: V(k, v) for k, v in pairs}
    if kind == 'argpairs': return kind, [(A(k), V(k, v)) for k, v in pairs]
    raise AssertionError(kind)


def replacement_map(rng, f, gen, depth=2):
    """random replacement map for the arguments of f: list of (key, value) and a tag describing its structure"""
    present = [n for n in f.arguments if n in gen.pool]
    if not present:
        return 'empty', []
    rng.shuffle(present)
    mode = rng.choice(['rename', 'swap', 'chain', 'expr', 'expr', 'const', 'mixed', 'absent'])
    sig = lambda n: gen.pool[n]
    same = lambda n: [o for o in gen.pool if o != n and sig(o) == sig(n)]
    pairs = []
    if mode == 'swap':
        for n in present:
            o = rng.choice(same(n))
            pairs = [(n, o), (o, n)]
            break
    elif mode == 'chain':
        n = present[0]; o = rng.choice(same(n))
        pairs = [(n, o), (o, FRESH[o])]
        if rng.random() < .5: pairs.reverse()
    elif mode == 'rename':
        pairs = [(n, FRESH[n]) for n in present[:rng.randint(1, len(present))]]
    elif mode == 'const':
        n = present[0]
        if sig(n)[1] == int:
            pairs = [(n, function.Array.cast(numpy.array(rng.randint(-1, 2))))]
        else:
            pairs = [(n, gen.const(sig(n)[0]))]
    elif mode == 'absent':
        absent = [o for o in gen.pool if o not in f.arguments]
        pairs = [(n, FRESH[n]) for n in present[:1]] + [(o, FRESH[o]) for o in absent[:2]]
        rng.shuffle(pairs)
    else:
        for n in present[:rng.randint(1, min(3, len(present)))]:
            if sig(n)[1] == int:
                o = rng.choice(same(n))
                pairs.append((n, argument(n, gen.pool) + argument(o, gen.pool) if rng.random() < .5 else argument(o, gen.pool) * 2))
            elif mode == 'mixed' and rng.random() < .4:
                pairs.append((n, rng.choice(same(n) + [FRESH[n]])))
            else:
                pairs.append((n, gen.array(sig(n)[0], rng.randint(0, depth))))
    return mode, pairs


# ------------------------------------------------------------------ topology-bound arrays

def topologies():
    res = []
    topo, geom = mesh.rectilinear([2]); res.append(('line2', topo, geom))
    topo, geom = mesh.rectilinear([[0, 1, 3]]); res.append(('line-nonuniform', topo, geom))
    topo, geom = mesh.rectilinear([2, 1]); res.append(('quad2x1', topo, geom))
    topo, geom = mesh.unitsquare(1, 'triangle'); res.append(('tri2', topo, geom))
    return res


def integral_case(rng, tname, topo, geom, poly=True):
    """a small integral / sample array with field arguments u, v (ndofs,) and scalar w.
    Returns (tag, integrand, finish, pool): `finish(integrand)` binds it to the topology (integral or sample)."""
    basis = topo.basis('std', degree=1)
    n = len(basis)
    pool = {'u': ((n,), float), 'v': ((n,), float), 'w': ((), float), 'z': ((), float)}
    u = function.field('u', basis); v = function.dotarg('v', basis); w = function.Argument('w', (), float)
    kind = rng.choice(['mass-u2', 'uv', 'res', 'grad', 'scalar', 'sample', 'geom'] + (['boundary'] if topo.ndims > 1 else []))
    dom, degree = topo, 2
    finish = None
    if kind == 'mass-u2': g = u**2 * basis
    elif kind == 'uv': g = u * v + w * u
    elif kind == 'res': g = u * basis * w + v**2 * basis
    elif kind == 'grad': g = (function.grad(u, geom) * function.grad(basis, geom)).sum(-1) + u * v * basis
    elif kind == 'scalar': g = u**3 + w * v + 1.; degree = 3
    elif kind == 'boundary': g = u**2 + v * w; dom = topo.boundary
    elif kind == 'sample': g = u * v + w; finish = lambda h: topo.sample('gauss', 1).bind(h)
    elif kind == 'geom': g = u * geom[0] * (1 + w * v)
    if finish is None:
        finish = lambda h: dom.integral(h * function.J(geom), degree=degree)
    return tname + ':' + kind, g, finish, pool
