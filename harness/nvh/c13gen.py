"""Generator of random *function-level* arrays (nutils.function / numpy dispatch) over a fixed pool of Arguments,
of replacement maps (renames, swaps, chains, expressions, constants) in all documented spellings, and of small
topology-bound integrals / samples.  Everything is built through the public API; values are small dyadic rationals."""
import numpy, itertools
from nutils import function, mesh

POOL = {'u': ((3,), float), 'v': ((3,), float), 'w': ((), float), 'z': ((), float), 'p': ((2, 3), float), 'q': ((2, 3), float),
        'r': ((2,), float), 's': ((2,), float), 'k': ((), int), 'm': ((), int)}
FRESH = {'u': 'a', 'v': 'b', 'w': 'c', 'z': 'd', 'p': 'e', 'q': 'f', 'r': 'g', 's': 'h', 'k': 'i', 'm': 'j'}   # fresh names for renames


def argument(name, pool=POOL):
    shape, dtype = pool[name]
    return function.Argument(name, shape, dtype)


def sample_values(rng, arguments):
    vals = {}
    for name, (shape, dtype) in arguments.items():
        r = numpy.random.default_rng(rng.getrandbits(32))
        if dtype == int:
            vals[name] = r.integers(-2, 4, shape)
        elif dtype == bool:
            vals[name] = r.integers(0, 2, shape).astype(bool)
        else:
            vals[name] = r.integers(-6, 7, shape) / rng.choice([1., 2., 4.])
    return vals


class FGen:
    def __init__(self, rng, poly=False, pool=POOL, names=None, ints=True):
        self.rng = rng
        self.poly = poly
        self.pool = pool
        self.names = [n for n in (names or pool) if ints or pool[n][1] != int]
        self.hits = {}

    def hit(self, k):
        self.hits[k] = self.hits.get(k, 0) + 1

    def const(self, shape):
        r = numpy.random.default_rng(self.rng.getrandbits(32))
        self.hit('const')
        return function.Array.cast(r.integers(-3, 4, shape) / self.rng.choice([1., 2.]))

    def leaf(self, shape):
        shape = tuple(shape)
        rng = self.rng
        exact = [n for n in self.names if self.pool[n][0] == shape and self.pool[n][1] == float]
        c = rng.random()
        if exact and c < .7:
            self.hit('arg')
            return argument(rng.choice(exact), self.pool)
        scalars = [n for n in self.names if self.pool[n][0] == ()]
        suffix = [n for n in self.names if self.pool[n][1] == float and self.pool[n][0] and self.pool[n][0] == shape[len(shape)-len(self.pool[n][0]):] and self.pool[n][0] != shape]
        if suffix and c < .85:
            self.hit('arg-broadcast')
            return numpy.broadcast_to(argument(rng.choice(suffix), self.pool), shape)
        if scalars and c < .95:
            self.hit('arg-scalar')
            a = argument(rng.choice(scalars), self.pool)
            return a * self.const(shape) if shape else a * 1.
        return self.const(shape)

    def array(self, shape, depth):
        shape = tuple(int(n) for n in shape)
        rng = self.rng
        if depth <= 0:
            return self.leaf(shape)
        ops = ['add', 'sub', 'mul', 'mul', 'neg', 'pow', 'sum', 'index', 'scale', 'matvec']
        if not self.poly:
            ops += ['sin', 'cos', 'exp', 'tanh', 'div']
        if len(shape) >= 1:
            ops += ['stack', 'slice', 'insertaxis', 'field']
            if shape[-1] >= 2: ops += ['concat']
        if len(shape) >= 2:
            ops += ['transpose', 'outer']
        if len(shape) <= 1:
            ops += ['trace']
        if len(shape) == 2 and shape[0] == shape[1]:
            ops += ['diagonalize']
        op = rng.choice(ops)
        self.hit(op)
        d = depth - 1
        sub = lambda sh, dd=None: self.array(sh, d if dd is None else dd)
        if op in ('add', 'sub', 'mul'):
            a = sub(shape)
            k = rng.choice(range(len(shape) + 1))
            bshape = rng.choice([shape, shape[k:], ()])
            b = sub(bshape, rng.randint(0, d))
            if rng.random() < .5: a, b = b, a
            return a + b if op == 'add' else a - b if op == 'sub' else a * b
        if op == 'neg': return -sub(shape)
        if op == 'scale': return sub(shape) * rng.choice([2., -.5, 3.])
        if op == 'pow': return sub(shape) ** rng.choice([2, 2, 3])
        if op == 'sin': return numpy.sin(sub(shape))
        if op == 'cos': return numpy.cos(sub(shape))
        if op == 'exp': return numpy.exp(sub(shape, min(d, 1)))
        if op == 'tanh': return numpy.tanh(sub(shape))
        if op == 'div': return sub(shape) / (1 + sub(shape, rng.randint(0, d)) ** 2)
        if op == 'sum':
            pos = rng.randint(0, len(shape)); n = rng.choice([2, 3])
            return numpy.sum(sub(shape[:pos] + (n,) + shape[pos:]), pos)
        if op == 'index':
            pos = rng.randint(0, len(shape)); n = rng.choice([2, 3])
            a = sub(shape[:pos] + (n,) + shape[pos:])
            return a[(slice(None),) * pos + (rng.randrange(n),)]
        if op == 'slice':
            pos = rng.randrange(len(shape)); extra = rng.choice([1, 2]); off = rng.randint(0, extra)
            a = sub(shape[:pos] + (shape[pos] + extra,) + shape[pos+1:])
            return a[(slice(None),) * pos + (slice(off, off + shape[pos]),)]
        if op == 'matvec':
            n = rng.choice([2, 3])
            return sub(shape + (n,)) @ sub((n,), rng.randint(0, d))
        if op == 'stack':
            pos = rng.randrange(len(shape))
            return numpy.stack([sub(shape[:pos] + shape[pos+1:], rng.randint(0, d)) for _ in range(shape[pos])], axis=pos)
        if op == 'concat':
            pos = len(shape) - 1; n1 = rng.randrange(1, shape[pos])
            return numpy.concatenate([sub(shape[:pos] + (n1,)), sub(shape[:pos] + (shape[pos] - n1,), rng.randint(0, d))], axis=pos)
        if op == 'insertaxis':
            pos = rng.randrange(len(shape))
            return function.insertaxis(sub(shape[:pos] + shape[pos+1:]), pos, shape[pos])
        if op == 'transpose':
            perm = list(range(len(shape))); rng.shuffle(perm)
            src = [None] * len(shape)
            for i, pp in enumerate(perm): src[pp] = shape[i]
            return numpy.transpose(sub(tuple(src)), perm)
        if op == 'outer':
            k = rng.randrange(1, len(shape))
            a = sub(shape[:k]); b = sub(shape[k:], rng.randint(0, d))
            return a[(...,) + (None,) * (len(shape) - k)] * b
        if op == 'trace':
            n = rng.choice([2, 3])
            return numpy.trace(sub(shape + (n, n)), axis1=-2, axis2=-1)
        if op == 'diagonalize':
            return function.diagonalize(sub(shape[:1]))
        if op == 'field':
            # inner product of a 1-d argument with a constant matrix (function.field / dotarg)
            cands = [n for n in self.names if len(self.pool[n][0]) == 1 and self.pool[n][1] == float]
            if not cands:
                return self.leaf(shape)
            n = rng.choice(cands)
            A = numpy.random.default_rng(rng.getrandbits(32)).integers(-2, 3, self.pool[n][0] + shape) / 2.
            return (function.dotarg if rng.random() < .5 else function.field)(n, A)
        raise AssertionError(op)


# ------------------------------------------------------------------ replacement maps and their spellings

def spell(rng, pairs, fshape_of, force=None):
    """pairs: list of (key name, value) with value a str (argument name) or a function.Array.
    Returns (tag, specification object) in one of the documented spellings."""
    allnames = all(isinstance(v, str) for k, v in pairs)
    kinds = ['dict', 'pairs', 'argkeys', 'mixed']
    if allnames and pairs and all(':' not in k and ',' not in k and ',' not in v for k, v in pairs):
        kinds += ['string', 'strings', 'argvalues', 'argpairs']
    kind = force or rng.choice(kinds)
    A = lambda k: function.Argument(k, *fshape_of(k))
    V = lambda k, v: function.Argument(v, *fshape_of(k)) if isinstance(v, str) else v
    if kind == 'dict': return kind, {k: v for k, v in pairs}
    if kind == 'pairs': return kind, [(k, v) for k, v in pairs]
    if kind == 'argkeys': return kind, [(A(k), v) for k, v in pairs]
    if kind == 'mixed': return kind, [(A(k), V(k, v)) if i % 2 else ('%s:%s' % (k, v) if isinstance(v, str) else (k, v)) for i, (k, v) in enumerate(pairs)]
    if kind == 'string': return kind, ','.join('%s:%s' % kv for kv in pairs)
    if kind == 'strings': return kind, tuple('%s:%s' % kv for kv in pairs)
    if kind == 'argvalues': return kind, {k: V(k, v) for k, v in pairs}
    if kind == 'argpairs': return kind, [(A(k), V(k, v)) for k, v in pairs]
    raise AssertionError(kind)


def replacement_map(rng, f, gen, depth=2):
    """random replacement map for the arguments of f: list of (key, value) and a tag describing its structure"""
    present = [n for n in f.arguments if n in gen.pool]
    if not present:
        return 'empty', []
    rng.shuffle(present)
    mode = rng.choice(['rename', 'swap', 'chain', 'expr', 'expr', 'const', 'mixed', 'absent'])
    sig = lambda n: gen.pool[n]
    same = lambda n: [o for o in gen.pool if o != n and sig(o) == sig(n)]
    pairs = []
    if mode == 'swap':
        for n in present:
            o = rng.choice(same(n))
            pairs = [(n, o), (o, n)]
            break
    elif mode == 'chain':
        n = present[0]; o = rng.choice(same(n))
        pairs = [(n, o), (o, FRESH[o])]
        if rng.random() < .5: pairs.reverse()
    elif mode == 'rename':
        pairs = [(n, FRESH[n]) for n in present[:rng.randint(1, len(present))]]
    elif mode == 'const':
        n = present[0]
        if sig(n)[1] == int:
            pairs = [(n, function.Array.cast(numpy.array(rng.randint(-1, 2))))]
        else:
            pairs = [(n, gen.const(sig(n)[0]))]
    elif mode == 'absent':
        absent = [o for o in gen.pool if o not in f.arguments]
        pairs = [(n, FRESH[n]) for n in present[:1]] + [(o, FRESH[o]) for o in absent[:2]]
        rng.shuffle(pairs)
    else:
        for n in present[:rng.randint(1, min(3, len(present)))]:
            if sig(n)[1] == int:
                o = rng.choice(same(n))
                pairs.append((n, argument(n, gen.pool) + argument(o, gen.pool) if rng.random() < .5 else argument(o, gen.pool) * 2))
            elif mode == 'mixed' and rng.random() < .4:
                pairs.append((n, rng.choice(same(n) + [FRESH[n]])))
            else:
                pairs.append((n, gen.array(sig(n)[0], rng.randint(0, depth))))
    return mode, pairs


# ------------------------------------------------------------------ topology-bound arrays

def topologies():
    res = []
    topo, geom = mesh.rectilinear([2]); res.append(('line2', topo, geom))
    topo, geom = mesh.rectilinear([[0, 1, 3]]); res.append(('line-nonuniform', topo, geom))
    topo, geom = mesh.rectilinear([2, 1]); res.append(('quad2x1', topo, geom))
    topo, geom = mesh.unitsquare(1, 'triangle'); res.append(('tri2', topo, geom))
    return res


def more_topologies():
    """meshes on which elements, boundary, interfaces and a sub-topology all have different numbers of elements (nested stream)"""
    res = []
    topo, geom = mesh.rectilinear([3]); res.append(('line3', topo, geom))
    return res


def integral_case(rng, tname, topo, geom, poly=True):
    """a small integral / sample array with field arguments u, v (ndofs,) and scalar w.
    Returns (tag, integrand, finish, pool): `finish(integrand)` binds it to the topology (integral or sample)."""
    basis = topo.basis('std', degree=1)
    n = len(basis)
    pool = {'u': ((n,), float), 'v': ((n,), float), 'w': ((), float), 'z': ((), float)}
    u = function.field('u', basis); v = function.dotarg('v', basis); w = function.Argument('w', (), float)
    kind = rng.choice(['mass-u2', 'uv', 'res', 'grad', 'scalar', 'sample', 'geom'] + (['boundary'] if topo.ndims > 1 else []))
    dom, degree = topo, 2
    finish = None
    if kind == 'mass-u2': g = u**2 * basis
    elif kind == 'uv': g = u * v + w * u
    elif kind == 'res': g = u * basis * w + v**2 * basis
    elif kind == 'grad': g = (function.grad(u, geom) * function.grad(basis, geom)).sum(-1) + u * v * basis
    elif kind == 'scalar': g = u**3 + w * v + 1.; degree = 3
    elif kind == 'boundary': g = u**2 + v * w; dom = topo.boundary
    elif kind == 'sample': g = u * v + w; finish = lambda h: topo.sample('gauss', 1).bind(h)
    elif kind == 'geom': g = u * geom[0] * (1 + w * v)
    if finish is None:
        finish = lambda h: dom.integral(h * function.J(geom), degree=degree)
    return tname + ':' + kind, g, finish, pool


# ------------------------------------------------------------------ arguments with many axes

def nd_pool(rng):
    """a pool in which p, q have 3 or 4 axes (mostly pairwise different lengths, so that any confusion of axis order /
    strides is observable), r, s the trailing axes of p, u, v its last axis; names as in POOL so that FRESH applies"""
    while True:
        nd = rng.choice([3, 3, 4])
        if rng.random() < .75:
            S = tuple(rng.sample([1, 2, 3, 4], nd))
        else:
            S = tuple(rng.choice([1, 2, 3]) for _ in range(nd))
        if 4 <= numpy.prod(S) <= 24:
            break
    return {'p': (S, float), 'q': (S, float), 'r': (S[1:], float), 's': (S[1:], float), 'u': (S[-1:], float), 'v': (S[-1:], float),
            'w': ((), float), 'z': ((), float)}, S


def nd_array(rng, gen, S, maxdim=2, depth=None):
    """polynomial array over gen.pool built on the many-axes arguments: an elementwise expression of shape S (or a leading /
    trailing part of it), reduced to at most `maxdim` axes by sums, contractions with constants, indexing and diagonals"""
    shape = tuple(S) if len(S) == 3 or rng.random() < .8 else tuple(S[1:])
    a = argument(rng.choice(['p', 'q'] if shape == tuple(S) else ['r', 's']), gen.pool)     # an argument with >= 3 axes always takes part
    b = gen.array(shape, rng.randint(0, 2) if depth is None else depth)
    a = rng.choice([lambda: a * b, lambda: a + b, lambda: a * b + a, lambda: a * gen.const(shape) + b, lambda: a * a + b, lambda: b - a * gen.const(shape)])()
    target = rng.randint(0, maxdim)
    while a.ndim > target:
        op = rng.choice(['sum', 'sum', 'index', 'dot', 'matvec', 'transpose-sum'])
        ax = rng.randrange(a.ndim)
        n = int(a.shape[ax])
        gen.hit('nd-' + op)
        if op == 'sum':
            a = numpy.sum(a, ax)
        elif op == 'index':
            a = a[(slice(None),) * ax + (rng.randrange(n),)]
        elif op == 'dot':
            cvec = numpy.random.default_rng(rng.getrandbits(32)).integers(-2, 3, (n,)) / 2.
            a = numpy.sum(a * cvec[(slice(None),) + (None,) * (a.ndim - ax - 1)], ax)
        elif op == 'matvec':
            vecs = [n_ for n_ in gen.names if gen.pool[n_][0] == (int(a.shape[-1]),)]
            a = a @ (argument(rng.choice(vecs), gen.pool) if vecs else gen.const((int(a.shape[-1]),)))
        else:
            perm = list(range(a.ndim)); rng.shuffle(perm)
            a = numpy.sum(numpy.transpose(a, perm), -1)
    if rng.random() < .4:
        a = a + rng.choice([1., -2., .5])
    return a


# ------------------------------------------------------------------ nested replacements in / around integrals

class Nest:
    """one node of a nested construction: an integrand over its own arguments u<i> (field coefficients, shape (n,)) and
    w<i> (scalar) and the shared, never replaced arguments y (field) and c (scalar); `children` maps an own argument to
    (node, 'inside' | 'outside'): the argument is replaced by the child's array inside the integrand resp. around the integral"""

    def __init__(self, ident, g, finish, kind, own, finish_uniform=None):
        self.ident = ident; self.g = g; self.finish = finish; self.kind = kind; self.own = own; self.children = {}
        self.finish_uniform = finish_uniform or finish      # the same node as an integral over the whole topology (root-cause variants)

    def component(self, uniform=False):
        return (self.finish_uniform if uniform else self.finish)(self.g)

    def nodes_postorder(self):
        for ch, where in self.children.values():
            yield from ch.nodes_postorder()
        yield self

    def depth(self):
        return 1 + max([ch.depth() for ch, _ in self.children.values()], default=0)

    def inside_chain(self):
        """largest number of integrals nested through replacements inside integrands (= depth of nested element loops);
        a plain expression passes the nesting on to its own replacements"""
        own = 0 if self.kind == 'plain' else 1
        return own + max([ch.inside_chain() for ch, where in self.children.values() if where == 'inside' or self.kind == 'plain'], default=0)

    def contains_integral(self):
        return self.kind != 'plain' or any(ch.contains_integral() for ch, _ in self.children.values())

    def has_outside_by_integral(self):
        """some integral is replaced, from outside, by an array that contains an integral"""
        return any((where == 'outside' and self.kind != 'plain' and ch.contains_integral()) or ch.has_outside_by_integral() for ch, where in self.children.values())

    def build(self, rng, force_inside=False, uniform=False):
        """the nested array; `force_inside`: every replacement inside its integrand, `uniform`: every integral over the whole topology
        (variants that are equal by the property resp. of the same nesting structure, used to name the root cause of a failure)"""
        g = self.g
        ins = [(a, ch.build(rng, force_inside, uniform)) for a, (ch, where) in self.children.items() if where == 'inside' or force_inside or self.kind == 'plain']
        outs = [(a, ch.build(rng, force_inside, uniform)) for a, (ch, where) in self.children.items() if not (where == 'inside' or force_inside or self.kind == 'plain')]
        sig = lambda k: self.own[k]
        if ins:
            g = function.replace_arguments(g, spell(rng, ins, sig)[1])
        A = (self.finish_uniform if uniform else self.finish)(g)
        if outs:
            A = function.replace_arguments(A, spell(rng, outs, sig)[1])
        return A

    def describe(self):
        s = '%s#%d' % (self.kind, self.ident)
        if self.children:
            s += '{' + ', '.join('%s:%s %s' % (a, where, ch.describe()) for a, (ch, where) in self.children.items()) + '}'
        return s


def nested_case(rng, tname, topo, geom, depth, p_inside=.75, friendly=False):
    """random tree of integrals / samples / plain expressions connected by argument replacements, `depth` levels deep"""
    basis = topo.basis('std', degree=1)
    n = len(basis)
    J = function.J(geom)
    x = geom[0]
    y = function.field('y', basis); cc = function.Argument('c', (), float)
    counter = itertools.count()
    free = {'y': ((n,), float), 'c': ((), float)}

    def domain():
        kinds = ['integral'] * 3 + ['sample']      # lowered without Transform* nodes: within reach of the Lean engine
        if not friendly:
            kinds += ['boundary', 'subtopo'] * 3 + (['interfaces'] * 3 if len(topo.interfaces) else [])
        kind = rng.choice(kinds)
        degree = rng.choice([1, 2, 3])
        if kind == 'integral': return kind, lambda h: topo.integral(h * J, degree=degree)
        if kind == 'boundary': return kind, lambda h: topo.boundary.integral(h * function.J(geom), degree=degree)
        if kind == 'interfaces': return kind, lambda h: topo.interfaces.integral(h * function.J(geom), degree=degree)
        if kind == 'subtopo':
            sub = topo[:max(1, len(topo) - 1)]
            return kind, lambda h: sub.integral(h * J, degree=degree)
        smp = topo.sample('gauss', degree)
        return kind, lambda h: smp.integral(h * J)

    def node(shape, level):
        i = next(counter)
        un, wn = 'u%d' % i, 'w%d' % i
        own = {un: ((n,), float), wn: ((), float)}
        u = function.field(un, basis); w = function.Argument(wn, (), float)
        leaf = level >= depth
        plain = (leaf and rng.random() < .25) or (not leaf and level > 1 and rng.random() < .1)
        # scalar polynomial in the point: every node uses at least one own argument (non-leaf) so that replacement matters
        atoms = [u, u, w, x, y, cc, 1.]
        def term():
            t = rng.choice([u, u, w])
            for _ in range(rng.randint(0, 1)):
                t = t * rng.choice(atoms)
            return t * rng.choice([1., 2., -.5])
        if plain:
            # no integral: an expression of the coefficients themselves
            U = function.Argument(un, (n,), float)
            cvec = numpy.random.default_rng(rng.getrandbits(32)).integers(-2, 3, (n,)) / 2.
            if shape == ():
                g = rng.choice([lambda: numpy.sum(U * cvec) + w, lambda: numpy.sum(U * U) * .5 - w * cc, lambda: w * w + U[0]])()
            else:
                g = rng.choice([lambda: U * w + cvec, lambda: U * U - cvec * w, lambda: U[::-1] * 2. + w * cvec])()
            nd = Nest(i, g, lambda h: h, 'plain', own)
        else:
            s = term()
            for _ in range(rng.randint(0, 2)):
                s = s + term()
            if rng.random() < .3:
                s = s + (function.grad(u, geom) * function.grad(rng.choice([u, y]), geom)).sum(-1)
            g = s * basis if shape else s
            kind, finish = domain()
            nd = Nest(i, g, finish, kind, own, finish_uniform=lambda h: topo.integral(h * J, degree=2))
        if not leaf:
            used = [a for a in (un, wn) if a in nd.g.arguments]
            rng.shuffle(used)
            for a in used[:rng.choice([1, 1, 1, 2])]:
                nd.children[a] = (node(own[a][0], level + 1), 'inside' if rng.random() < p_inside else 'outside')
        return nd

    top = node(rng.choice([(), (), (n,)]), 1)
    return top, free
