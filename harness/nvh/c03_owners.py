"""C03 (M), long-lived owners of compiled functions: solver.System (__cache of assemble_* functions), function.Basis
(_arg_dofs/_arg_coeffs/_arg_ndofs), topology.locate (xJ), topology.trim (levelset), sample evaluation.

Every scenario drives ONE owner object through a history of calls with changing arguments — including changing only the
non-trial arguments, repeating earlier arguments, and overwriting every writable array returned earlier — and compares each
answer with the answer of a FRESH owner built from scratch for that call ("what a freshly generated function returns").
Argument arrays are compared bit for bit before/after.  Kind of the obligations: exploration (no Lean theorem is specific to
these owners; the compiled functions inside them are instances of the model of Props/C03.lean).
"""
import numpy, collections, itertools
from .c03 import snapshot, args_changed, same_value, leaves, describe_args


def canon(x):
    """comparable form of an owner's answer"""
    from nutils import matrix
    if isinstance(x, matrix.Matrix):
        return ('matrix', x.shape, numpy.asarray(x.export('dense')))
    if isinstance(x, dict):
        return ('dict', tuple((k, canon(v)) for k, v in sorted(x.items())))
    if isinstance(x, (tuple, list)):
        return ('seq', tuple(canon(v) for v in x))
    if x is None:
        return ('none',)
    if hasattr(x, 'points') and hasattr(x, 'npoints'):   # a Sample
        return ('sample', x.npoints)
    return ('array', numpy.asarray(x))


def canon_equal(a, b):
    if a[0] != b[0]: return False
    if a[0] == 'matrix': return a[1] == b[1] and numpy.array_equal(a[2], b[2], equal_nan=True)
    if a[0] == 'dict': return len(a[1]) == len(b[1]) and all(k1 == k2 and canon_equal(v1, v2) for (k1, v1), (k2, v2) in zip(a[1], b[1]))
    if a[0] == 'seq': return len(a[1]) == len(b[1]) and all(canon_equal(x, y) for x, y in zip(a[1], b[1]))
    if a[0] in ('none',): return True
    if a[0] == 'sample': return a[1] == b[1]
    x, y = a[1], b[1]
    return x.shape == y.shape and x.dtype == y.dtype and numpy.array_equal(x, y, equal_nan=x.dtype.kind in 'fc')


def writable_arrays(x):
    if isinstance(x, dict):
        for v in x.values(): yield from writable_arrays(v)
    elif isinstance(x, (tuple, list)):
        for v in x: yield from writable_arrays(v)
    elif isinstance(x, numpy.ndarray) and x.flags.writeable and x.size:
        yield x


def attempt(fn):
    try:
        with numpy.errstate(all='ignore'):
            return ('ok', fn())
    except Exception as e:
        return ('exc', type(e).__name__)


class Scenario:
    """owner factory + list of operations; op(owner, args) -> answer"""

    def __init__(self, name, make_owner, ops, argsets):
        self.name, self.make_owner, self.ops, self.argsets = name, make_owner, ops, argsets


def run_scenario(c, sc, ncalls):
    rng = c.rng
    owner = sc.make_owner()
    returned = []
    events = []
    nbad = 0
    for k in range(ncalls):
        opname = rng.choice(sorted(sc.ops))
        iarg = rng.randrange(len(sc.argsets)) if k else 0
        args = {kk: numpy.array(v) for kk, v in sc.argsets[iarg].items()}
        if k and rng.random() < .4:
            n = 0
            for r in returned:
                try: r[...] = 777; n += 1
                except Exception: pass
            events.append(dict(event='scribble', n=n)); c.count('owners:scribbled', n)
        snap = snapshot(args)
        got = attempt(lambda: sc.ops[opname](owner, args))
        changed = args_changed(args, snap)
        events.append(dict(event='call', op=opname, argset=iarg, outcome=got[0] if got[0] == 'ok' else got[1]))
        c.count('owners:%s:%s' % (sc.name, opname)); c.traces += 1
        c.count('owners:outcome:%s:%s' % (sc.name, got[0] if got[0] == 'ok' else got[1]))
        detail = dict(scenario=sc.name, history=events, args=describe_args(args))
        if changed is not None:
            nbad += 1
            c.failing_input('owner-modifies-argument:' + sc.name, 'long-lived owner %s modified argument %r' % (sc.name, changed), detail)
        fresh_args = {kk: numpy.array(v) for kk, v in sc.argsets[iarg].items()}
        want = attempt(lambda: sc.ops[opname](sc.make_owner(), fresh_args))
        ok = got[0] == want[0] and (canon_equal(canon(got[1]), canon(want[1])) if got[0] == 'ok' else got[1] == want[1])
        if not ok:
            nbad += 1
            c.failing_input('owner-call-differs-from-fresh:' + sc.name + ':' + opname,
                            '%s.%s on a long-lived object differs from the same call on a fresh object' % (sc.name, opname),
                            dict(detail, got=repr(got)[:600], want=repr(want)[:600]))
        if got[0] == 'ok':
            returned.extend(writable_arrays(got[1]))
    c.case((sc.name, tuple((e.get('op'), e.get('argset')) for e in events)), nontrivial=True)
    return nbad


def scenarios(rng):
    from nutils import mesh, function, solver, sample
    out = []

    # ---- solver.System: nonlinear symmetric problem with a non-trial argument
    def mk_system_nl():
        domain, geom = mesh.rectilinear([numpy.linspace(0, 1, 4)])
        basis = domain.basis('std', degree=1)
        u = function.dotarg('u', basis)
        f = function.Argument('f', ())
        q = function.dotarg('q', basis)
        J = function.J(geom)
        energy = domain.integral((.5 * function.grad(u, geom) @ function.grad(u, geom) + .25 * u**4 - f * u + q * u) * J, degree=4)
        return solver.System(energy, trial='u')
    nd = 4
    def argsets_nl():
        r = numpy.random.default_rng(rng.getrandbits(32))
        sets = []
        for _ in range(4):
            sets.append(dict(u=r.integers(-4, 5, nd) / 2., f=numpy.array(r.integers(-3, 4) / 1.), q=r.integers(-2, 3, nd) / 1.))
        sets.append(dict(sets[0], f=sets[1]['f']))            # only a non-trial argument changes
        sets.append(dict(sets[0], u=sets[2]['u']))            # only the trial argument changes
        return sets
    cons = numpy.array([0.] + [numpy.nan] * (nd - 1))
    ops_sys = {
        'assemble': lambda S, a: S.assemble(a),
        'jacobian': lambda S, a: S.assemble_jacobian(a),
        'residual': lambda S, a: S.assemble_residual(a),
        'value': lambda S, a: S.assemble_value(a),
        'jacobian_residual': lambda S, a: S.assemble_jacobian_residual(a),
        'solve': lambda S, a: S.solve(arguments=dict(a), constrain={'u': cons}, tol=1e-10, maxiter=20),
    }
    out.append(Scenario('System-nonlinear', mk_system_nl, ops_sys, argsets_nl()))

    # ---- solver.System: linear problem, constant matrix, argument-dependent right-hand side, non-symmetric form (trial != test)
    def mk_system_lin():
        domain, geom = mesh.rectilinear([numpy.linspace(0, 1, 4)])
        basis = domain.basis('std', degree=1)
        u = function.dotarg('u', basis)
        v = function.dotarg('v', basis)
        f = function.Argument('f', ())
        k = function.Argument('k', ())
        J = function.J(geom)
        res = domain.integral((k * (function.grad(v, geom) @ function.grad(u, geom)) + u * v - f * v) * J, degree=2)
        return solver.System(res, trial='u', test='v')
    ops_lin = {
        'assemble': lambda S, a: S.assemble(a),
        'jacobian': lambda S, a: S.assemble_jacobian(a),
        'residual': lambda S, a: S.assemble_residual(a),
        'jacobian_residual': lambda S, a: S.assemble_jacobian_residual(a),
        'solve': lambda S, a: S.solve(arguments={k: v for k, v in a.items() if k != 'u'}, constrain={'u': cons}),
    }
    sets = argsets_nl()
    for j, s in enumerate(sets): s.pop('q'); s['v'] = numpy.zeros(nd); s['k'] = numpy.array(1. + (j % 3))
    out.append(Scenario('System-linear', mk_system_lin, ops_lin, sets))

    # ---- function.Basis: dofs / coefficients / ndofs per element, interleaved across elements
    def mk_basis():
        domain, geom = mesh.rectilinear([3, 2])
        kind = mk_basis.kind
        if kind == 'std2': return domain.basis('std', degree=2)
        if kind == 'discont': return domain.basis('discont', degree=1)
        if kind == 'spline': return domain.basis('spline', degree=2)
        return domain.refined_by([0]).basis('h-std', degree=1)
    for kind in ('std2', 'discont', 'spline', 'hier'):
        def mk(kind=kind):
            mk_basis.kind = kind
            return mk_basis()
        nel = 6
        ops_b = {
            'get_dofs': lambda B, a: B.get_dofs(int(a['ielem'])),
            'get_coefficients': lambda B, a: B.get_coefficients(int(a['ielem'])),
            'get_ndofs': lambda B, a: B.get_ndofs(int(a['ielem'])),
            'get_dofs_vec': lambda B, a: B.get_dofs(numpy.array([int(a['ielem']), (int(a['ielem']) + 1) % nel])),
        }
        out.append(Scenario('Basis-' + kind, mk, ops_b, [dict(ielem=numpy.array(i)) for i in range(nel)]))

    # ---- topology.locate twice with different targets
    def mk_topo():
        domain, geom = mesh.rectilinear([numpy.linspace(0, 2, 5), numpy.linspace(0, 1, 3)])
        return domain, geom * numpy.array([1., 2.]) + numpy.array([.5, 0.])
    def locate(T, a):
        domain, geom = T
        smp = domain.locate(geom, a['x'], eps=1e-10, tol=1e-12)
        return smp.eval(geom)
    r = numpy.random.default_rng(rng.getrandbits(32))
    out.append(Scenario('locate', mk_topo, {'locate': locate},
                        [dict(x=numpy.stack([.5 + r.integers(1, 16, n) / 8., r.integers(1, 16, n) / 8.], axis=1)) for n in (1, 2, 3, 2)]))

    # ---- trim with two level sets
    def trim(T, a):
        domain, geom = T
        x, y = geom
        sub = domain.trim(x * float(a['a']) + y - float(a['b']), maxrefine=int(a['m']))
        return sub.integrate(function.J(geom), degree=2), sub.integrate(x * function.J(geom), degree=2)
    out.append(Scenario('trim', mk_topo, {'trim': trim},
                        [dict(a=numpy.array(1.), b=numpy.array(1.75), m=numpy.array(1)), dict(a=numpy.array(.5), b=numpy.array(1.125), m=numpy.array(2)),
                         dict(a=numpy.array(-1.), b=numpy.array(-1.5), m=numpy.array(0))]))

    # ---- sample: repeated evaluation / integration with changed arguments through bound integrals
    def mk_sample():
        domain, geom = mesh.rectilinear([numpy.linspace(0, 1, 4)])
        basis = domain.basis('std', degree=1)
        smp = domain.sample('gauss', 2)
        u = function.dotarg('u', basis)
        s = function.Argument('s', ())
        return smp, geom, u, s, smp.integral(u**2 * s * function.J(geom)), smp.bind(u * s + geom[0])
    def s_eval(T, a):
        smp, geom, u, s, _, _ = T
        return smp.eval(u * s + geom[0], dict(u=a['u'], s=a['s']))
    def s_integrate(T, a):
        smp, geom, u, s, _, _ = T
        return smp.integrate([u * s * function.J(geom), function.grad(u, geom)[0] * function.J(geom)], dict(u=a['u'], s=a['s']))
    def s_sparse(T, a):
        smp, geom, u, s, integral, bound = T
        return function.eval([integral, function.derivative(integral, 'u'), bound], dict(u=a['u'], s=a['s']))
    ops_s = {'eval': s_eval, 'integrate': s_integrate, 'sparse': s_sparse}
    r = numpy.random.default_rng(rng.getrandbits(32))
    sets = [dict(u=r.integers(-4, 5, 4) / 2., s=numpy.array(r.integers(1, 4) / 1.)) for _ in range(3)]
    sets.append(dict(sets[0], s=sets[1]['s']))
    out.append(Scenario('sample', mk_sample, ops_s, sets))
    return out


def run(c):
    import treelog
    quiet = treelog.NullLog() if hasattr(treelog, 'NullLog') else treelog.FilterLog(treelog.StdoutLog(), minlevel=treelog.proto.Level.error)
    with treelog.set(quiet):
        _run(c)


def _run(c):
    ncalls = 5 if c.tier == 'quick' else 12
    reps = 1 if c.tier == 'quick' else 6
    nbad = 0; nrun = 0
    broken = collections.Counter()
    for _ in range(reps):
        try:
            scs = scenarios(c.rng)
        except Exception as e:
            c.count('owners:scenario-construction-failed:' + type(e).__name__)
            raise
        for sc in scs:
            # a scenario whose FRESH owner cannot even answer its first call is a harness problem, not a finding
            nbad += run_scenario(c, sc, ncalls); nrun += 1
    c.obligation('oracle:long-lived-owners', nrun > 0 and nbad == 0, 'exploration',
                 '%d owner histories (System nonlinear/linear, Basis x4, locate, trim, sample) compared with fresh objects' % nrun)
