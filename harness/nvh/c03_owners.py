def run(c):
    pass
