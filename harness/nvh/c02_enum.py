"""C02 — systematic streams run in parallel worker processes (pure real-code differential; every candidate is confirmed
against the Lean specification value of the un-simplified tree by the caller before it becomes a verdict).

(E) operator-sequence enumeration.  A tree is a *chain*: a leaf followed by a sequence of operators, where the binary
    operators bring their own partner (a leaf, a transposed / inserted / inflated / diagonalized leaf).  The operator
    alphabets are the vocabularies of the numpy-optimisation pass and of the in-place protocol:
      theme A (Einsum):   Multiply variants, Transpose, Sum, TakeDiag, InsertAxis, Take(0-d), Diagonalize
      theme B (Assemble): Inflate with 0-d / 1-d injective / 1-d repeating / 2-d dofmaps, Transpose, Add variants,
                          Diagonalize, Sum, Multiply, Take (general / slice), InsertAxis
      theme C:            everything, plus pointwise rewrites (Power -1/-2, sign, negative) and loop wrappers.
    EVERY operator sequence up to a theme-specific length is instantiated (deterministic coverage at the level of class
    sequences; `k` random instances each: operand rank 1..4, axis lengths 2..3, transposition, dofmap, partner),
    longer sequences are sampled until the time budget is used.  A fraction of the instances lives inside a loop
    (loop-dependent leaves and dofmaps, closed by LoopSum / LoopConcatenate).  Every instance is compiled by the real
    `evaluable.compile` without rewriting (reference), with the optimisation pass only (`_simplify=False,
    _optimize=True` — the configuration in which the optimisation rules see trees that the simplifier would have
    normalised away), and with both passes.
(P) parallel stream.  Programs with loops (the catalogue + generated programs whose output arrays can only be allocated
    after an earlier loop: loop-dependent chunk sizes) compiled with maxprocs 2 and 3 and run under an adversarial but
    legal schedule: the parent process does not take an iteration before the forked children have consumed the shared
    range.  An accumulator that is not in shared memory then loses every contribution.
"""
import collections, itertools, random, time, base64, pickle, contextlib, os
import numpy
from nutils import evaluable as ev, types, parallel


def const(v):
    return ev.Constant(types.arraydata(numpy.asarray(v)))


def C(n):
    return ev.constant(int(n))


def sh(e):
    return tuple(int(k) for k in e.shape)


def fms(*a):
    return types.frozenmultiset(a)


class NA(Exception):
    """operator not applicable to this operand"""


class Inst:
    """one instance of an operator sequence: owns the argument values, the open loop and the random choices"""

    MAXND = 4

    def __init__(self, rng, dtype=float, looped=False):
        self.rng = rng
        self.dtype = dtype
        self.args = {}
        self.n = itertools.count()
        self.loop = None          # (index, length) while a loop is open
        self.nloop = itertools.count()
        self.want_loop = looped

    # ------------------------------------------------------------------ data
    def values(self, shape, dtype=None):
        dtype = dtype or self.dtype
        r = numpy.random.default_rng(self.rng.getrandbits(32))
        if dtype == int:
            v = r.integers(-3, 4, shape)
            v[v == 0] = 2
            return v
        v = r.integers(-6, 7, shape) / self.rng.choice([1., 2., 4.])
        v[v == 0] = 1.5
        return v

    def argument(self, shape, dtype=None):
        name = 'x%d' % next(self.n)
        self.args[name] = self.values(shape, dtype)
        return ev.Argument(name, tuple(C(k) for k in shape), dtype or self.dtype)

    def open_loop(self):
        if self.loop is None:
            n = self.rng.choice([2, 2, 3])
            self.loop = ev.loop_index('L%d' % next(self.nloop), C(n)), n
        return self.loop

    def leaf(self, shape):
        """a fresh operand of the given shape; loop-dependent (a slice of a larger argument) while a loop is open"""
        shape = tuple(shape)
        if self.loop is not None and self.rng.random() < .6:
            i, n = self.loop
            return ev.Take(self.argument(shape + (n,)), i)
        if self.rng.random() < .15:
            return const(self.values(shape))
        return self.argument(shape)

    def newlen(self):
        return self.rng.choice([2, 2, 3, 3, 4])

    def table(self, shape, L, injective=False):
        """integer array of `shape` with values in [0, L) — a dofmap / index; loop-dependent or argument-valued sometimes"""
        rng = self.rng
        def one():
            size = int(numpy.prod(shape, dtype=int))
            if injective:
                p = list(range(L)); rng.shuffle(p)
                return numpy.array(p[:size], dtype=int).reshape(shape)
            return numpy.array([rng.randrange(L) for _ in range(size)], dtype=int).reshape(shape)
        if self.loop is not None and rng.random() < .4:
            i, n = self.loop
            return ev.Take(const(numpy.stack([one() for _ in range(n)], axis=-1)), i)
        if rng.random() < .08:
            name = 'k%d' % next(self.n)
            self.args[name] = one()
            return ev.InRange(ev.Argument(name, tuple(C(k) for k in shape), int), C(L))
        return const(one())

    def depends_on_loop(self, e):
        return self.loop is not None and self.loop[0] in e.arguments


# ====================================================================================== operators

def _perm(I, nd):
    """a non-identity permutation; mostly one that changes the trailing axis (all other operators act on trailing axes)"""
    axes = list(range(nd))
    moving = I.rng.random() < .8
    while axes == list(range(nd)) or moving and axes[-1] == nd - 1:
        I.rng.shuffle(axes)
    return tuple(axes)


def op_Tr(I, e):
    if e.ndim < 2: raise NA
    return ev.Transpose(e, _perm(I, e.ndim))


def op_Sum(I, e):
    if e.ndim < 1: raise NA
    return ev.Sum(e)


def op_TD(I, e):
    s = sh(e)
    if e.ndim < 2 or s[-1] != s[-2]: raise NA
    return ev.TakeDiag(e)


def op_Ins(I, e):
    if e.ndim >= I.MAXND: raise NA
    return ev.InsertAxis(e, C(I.rng.choice([2, 3])))


def op_Get(I, e):
    if e.ndim < 1: raise NA
    return ev.Take(e, C(I.rng.randrange(sh(e)[-1])))


def op_Diag(I, e):
    if not 1 <= e.ndim < I.MAXND: raise NA
    return ev.Diagonalize(e)


def op_Slice(I, e):
    if e.ndim < 1 or sh(e)[-1] < 2: raise NA
    n = sh(e)[-1]
    k = I.rng.randrange(1, n + 1)
    off = I.rng.randrange(0, n - k + 1)
    r = ev.Range(C(k))
    kind = I.rng.randrange(3)
    if kind == 0 or off == 0 and kind == 1:
        return ev.Take(e, r)
    o = ev.InsertAxis(C(off), C(k))
    return ev.Take(e, ev.Add(fms(r, o)))


def op_TakeIdx(I, e):
    if e.ndim < 1: raise NA
    n = sh(e)[-1]
    if e.ndim < I.MAXND and I.rng.random() < .3:
        return ev.Take(e, I.table((2, I.rng.choice([1, 2, 3])), n))
    return ev.Take(e, I.table((I.rng.choice([1, 2, 3]),), n))


def op_Inf0(I, e):
    if e.ndim >= I.MAXND: raise NA
    L = I.newlen()
    return ev.Inflate(e, I.table((), L), C(L))


def op_Inf1p(I, e):
    if e.ndim < 1: raise NA
    m = sh(e)[-1]
    L = m + I.rng.choice([0, 0, 1, 2])
    return ev.Inflate(e, I.table((m,), L, injective=True), C(L))


def op_Inf1r(I, e):
    if e.ndim < 1: raise NA
    L = I.newlen()
    return ev.Inflate(e, I.table((sh(e)[-1],), L), C(L))


def op_Inf2(I, e):
    if e.ndim < 2: raise NA
    s = sh(e)[-2:]
    L = I.rng.choice([2, 3, 3, 4, s[0] * s[1]])
    return ev.Inflate(e, I.table(s, L, injective=L >= s[0] * s[1] and I.rng.random() < .5), C(L))


def _partner(I, e, kind):
    s = sh(e)
    if kind == 'L':
        return I.leaf(s)
    if kind == 'T':
        if e.ndim < 2: raise NA
        axes = _perm(I, e.ndim)
        src = [None] * e.ndim
        for k, a in enumerate(axes): src[a] = s[k]
        return ev.Transpose(I.leaf(src), axes)
    if kind == 'I':
        if e.ndim < 1: raise NA
        return ev.InsertAxis(I.leaf(s[:-1]), C(s[-1]))
    if kind == 'Inf':
        if e.ndim < 1: raise NA
        m = I.rng.choice([1, 2, 3])
        return ev.Inflate(I.leaf(s[:-1] + (m,)), I.table((m,), s[-1]), C(s[-1]))
    if kind == 'Inf2':
        if e.ndim < 1: raise NA
        d = (2, I.rng.choice([1, 2]))
        return ev.Inflate(I.leaf(s[:-1] + d), I.table(d, s[-1]), C(s[-1]))
    if kind == 'Diag':
        if e.ndim < 2 or s[-1] != s[-2]: raise NA
        return ev.Diagonalize(I.leaf(s[:-1]))
    if kind == 'Self':
        return e
    raise KeyError(kind)


def _binary(cls, kind):
    def op(I, e):
        return cls(fms(e, _partner(I, e, kind)))
    return op


def op_Neg(I, e):
    return ev.Negative(e)


def op_MulNeg(I, e):
    if I.dtype != float and I.dtype != int: raise NA
    m = C(-1) if I.dtype == int else ev.constant(-1.)
    for n in sh(e): m = ev.InsertAxis(m, C(n))
    return ev.Multiply(fms(e, m))


def op_MulSign(I, e):
    return ev.Multiply(fms(e, ev.Sign(e)))


def _power(p):
    def op(I, e):
        if I.dtype != float: raise NA
        q = ev.constant(float(p))
        for n in sh(e): q = ev.InsertAxis(q, C(n))
        return ev.Power(e, q)
    return op


def _loop_close(kind):
    def op(I, e):
        if I.loop is None:
            I.open_loop()
        i, n = I.loop
        if not I.depends_on_loop(e):
            p = I.leaf(sh(e))
            while not I.depends_on_loop(p):
                p = I.leaf(sh(e))
            e = (ev.Add if I.rng.random() < .5 else ev.Multiply)(fms(e, p))
        if kind == 'cat':
            if e.ndim < 1: raise NA
            r = ev.loop_concatenate(e, i)
        else:
            r = ev.loop_sum(e, i)
        I.loop = None
        return r
    return op


def _either(*names):
    def op(I, e):
        order = list(names); I.rng.shuffle(order)
        for name in order:
            try:
                return OPS[name](I, e)
            except NA:
                continue
        raise NA
    return op


OPS = {
    'Mul': _either('MulL', 'MulL', 'MulT', 'MulI'), 'Add': _either('AddL', 'AddL', 'AddInf', 'AddInf', 'AddT', 'AddI', 'AddDiag', 'AddInf2'),
    'Inf1': _either('Inf1p', 'Inf1r'), 'Take': _either('TakeIdx', 'Slice'),
    'Tr': op_Tr, 'Sum': op_Sum, 'TD': op_TD, 'Ins': op_Ins, 'Get': op_Get, 'Diag': op_Diag, 'Slice': op_Slice, 'TakeIdx': op_TakeIdx,
    'Inf0': op_Inf0, 'Inf1p': op_Inf1p, 'Inf1r': op_Inf1r, 'Inf2': op_Inf2,
    'MulL': _binary(ev.Multiply, 'L'), 'MulT': _binary(ev.Multiply, 'T'), 'MulI': _binary(ev.Multiply, 'I'), 'MulInf': _binary(ev.Multiply, 'Inf'),
    'MulDiag': _binary(ev.Multiply, 'Diag'), 'MulSelf': _binary(ev.Multiply, 'Self'),
    'AddL': _binary(ev.Add, 'L'), 'AddT': _binary(ev.Add, 'T'), 'AddI': _binary(ev.Add, 'I'), 'AddInf': _binary(ev.Add, 'Inf'), 'AddInf2': _binary(ev.Add, 'Inf2'),
    'AddDiag': _binary(ev.Add, 'Diag'),
    'Neg': op_Neg, 'MulNeg': op_MulNeg, 'MulSign': op_MulSign, 'Rec': _power(-1), 'RecSq': _power(-2),
    'LSum': _loop_close('sum'), 'LCat': _loop_close('cat'),
}

THEMES = {
    'A': ['MulL', 'MulT', 'MulI', 'Tr', 'Sum', 'TD', 'Ins', 'Get', 'Diag'],
    'B': ['Inf0', 'Inf1p', 'Inf1r', 'Inf2', 'Tr', 'AddL', 'AddInf', 'Diag', 'Sum', 'MulL', 'TakeIdx', 'Slice', 'Ins'],
    # coarser alphabets (one letter per rule family; the variant is drawn per instance): longer sequences fit the quick tier
    'a': ['Mul', 'Tr', 'Sum', 'TD', 'Ins', 'Get', 'Diag'],
    'b': ['Inf0', 'Inf1', 'Inf2', 'Tr', 'Add', 'Diag', 'Sum', 'Mul', 'Take', 'Ins'],
}
THEMES['C'] = sorted(set(OPS) - {'Mul', 'Add', 'Inf1', 'Take'})
# (theme, length) enumerated exhaustively, in this order; the rest is sampled
CORE = {'quick': [('b', 1), ('a', 1), ('C', 1), ('b', 2), ('a', 2), ('b', 3), ('a', 3), ('a', 4)],
        'thorough': [('B', 1), ('A', 1), ('C', 1), ('B', 2), ('A', 2), ('C', 2), ('B', 3), ('A', 3), ('A', 4), ('b', 4), ('a', 5)]}
SAMPLED = [('A', 5), ('B', 4), ('C', 2), ('C', 3), ('A', 6), ('B', 5), ('C', 4), ('C', 5)]

LEAF_SHAPES = {1: [(2,), (3,)], 2: [(2, 2), (3, 3), (2, 3), (3, 2)], 3: [(2, 2, 2), (3, 3, 3), (2, 3, 3), (3, 2, 2), (3, 2, 3), (2, 2, 3)],
               4: [(2, 2, 2, 2), (2, 3, 3, 2), (3, 2, 2, 3), (2, 2, 3, 3), (3, 3, 2, 2)]}


def build(rng, seq, dtype=float, looped=False, tries=12):
    """one random instance of the operator sequence, or None when no operand shape fits"""
    for t in range(tries):
        I = Inst(rng, dtype, looped)
        nd = rng.choice([1, 2, 2, 3, 3, 3, 4, 4]) if t < tries - 4 else 1 + t % 4
        if looped:
            I.open_loop()
        e = I.leaf(rng.choice(LEAF_SHAPES[nd]))
        close_at = rng.randrange(len(seq) + 1) if looped else None
        try:
            for k, name in enumerate(seq):
                if close_at == k and I.loop is not None:
                    e = OPS['LSum' if rng.random() < .5 else 'LCat'](I, e)
                e = OPS[name](I, e)
                if e.ndim > I.MAXND:
                    raise NA
            if I.loop is not None:
                e = OPS['LSum' if rng.random() < .5 or e.ndim == 0 else 'LCat'](I, e)
        except NA:
            continue
        except (AssertionError, ValueError, TypeError):
            continue
        return e, I.args
    return None


GENERATORS = {'A': ('Mul',), 'a': ('Mul',), 'B': ('Inf',), 'b': ('Inf',)}   # the operators that create the Einsum / Assemble a theme is about


def sequences(theme, length):
    """all operator sequences of a theme; from length 3 on only those that contain a generator of the theme"""
    seqs = itertools.product(THEMES[theme], repeat=length)
    gen = GENERATORS.get(theme)
    if gen and length >= 3:
        return [s for s in seqs if any(o.startswith(gen) for o in s)]
    return list(seqs)


def sample_trees(rng, n):
    """a few instances for the symbolic validation of the optimisation pass (V-opt): sequences of the themes A and B"""
    out = []
    while len(out) < n:
        theme = rng.choice('ab')
        seq = tuple(rng.choice(THEMES[theme]) for _ in range(rng.choice([2, 3, 3, 4, 4])))
        r = build(rng, seq)
        if r is not None:
            out.append((theme + ':' + '-'.join(seq), r[0], r[1]))
    return out


# ====================================================================================== differential in a worker

def _second(args):
    out = {}
    for k, v in args.items():
        v = numpy.asarray(v)
        w = v.reshape(-1)[::-1].reshape(v.shape).copy()
        if v.dtype.kind == 'f':
            w = -w + .25
        out[k] = w
    return out


def _same(a, b):
    a, b = numpy.asarray(a), numpy.asarray(b)
    if a.shape != b.shape or a.dtype.kind != b.dtype.kind:
        return False
    if a.dtype.kind in 'biu':
        return bool((a == b).all())
    return bool(numpy.allclose(a, b, rtol=1e-9, atol=1e-11, equal_nan=True))


def _same_struct(u, v):
    if isinstance(u, (tuple, list)):
        return isinstance(v, (tuple, list)) and len(u) == len(v) and all(_same_struct(x, y) for x, y in zip(u, v))
    return not isinstance(v, (tuple, list)) and _same(u, v)


def pack(obj):
    return base64.b64encode(pickle.dumps(obj)).decode()


def unpack(s):
    return pickle.loads(base64.b64decode(s))


def differential(funcs, args_list, cfgs, timeout=10):
    """-> (number of compile+run, first deviating configuration or None, kind).  Reference: no rewriting, serial."""
    from . import c02
    kind0, val0, _, _ = c02.run_config(funcs, args_list, c02.BASE, timeout=timeout)
    n = 1
    if kind0 != 'ok':
        return n, c02.BASE, 'base-' + kind0
    if c02.has_nonfinite(val0):
        return n, None, 'nonfinite'      # division by zero etc.: outside the domain of the expression, nothing to compare
    for cfg in cfgs:
        kind, val, _, _ = c02.run_config(funcs, args_list[:2 if cfg.cache else 1], cfg, timeout=timeout)
        n += 1
        if kind != 'ok':
            return n, cfg, kind
        if not all(_same_struct(u, v) for u, v in zip(val0, val)):
            return n, cfg, 'value'
    return n, None, ''


def reproduce(funcs, args_list, cfg, kind, cnt):
    """a deviation must show up a second time (generous timeout) to become a candidate: timeouts on a loaded machine are
    not evidence"""
    n, cfg2, kind2 = differential(funcs, args_list, [] if cfg == _base() else [cfg], timeout=20 if cfg.maxprocs == 1 else 40)
    if cfg2 is None:
        cnt['flaky:' + kind] += 1
        return None, ''
    return cfg2, kind2


def _base():
    from . import c02
    return c02.BASE


def static_problems(funcs, cfg, cnt):
    kind, scripts = compile_only(funcs, cfg)
    if kind != 'ok' or not scripts:
        return []
    cnt['static-scripts'] += 1
    if 'parallel.ctxrange' in scripts[-1]:
        cnt['static-scripts-forked'] += 1
    cnt['static-shared-allocations'] += scripts[-1].count('parallel.shempty')
    return parallel_static(scripts[-1])


def _enum_worker(job):
    from . import c02
    seed, w, nworkers, tier, budget, kinst, hardcap = job
    t0 = time.time()
    rng = random.Random(seed)
    order_rng = random.Random(seed - w)        # the same order in every worker: the shards partition the sequences
    cnt = collections.Counter(); cands = []; skeletons = set()
    FT = c02.Config(False, True, False, False, 1)
    TT = c02.Config(True, True, False, False, 1)
    extra = [c02.Config(False, True, True, False, 1), c02.Config(True, True, True, 'log', 1), c02.Config(True, False, False, False, 1), c02.Config(False, True, False, 'log', 1)]

    def one(theme, seq, core):
        dtype = int if rng.random() < .15 else float
        r = build(rng, seq, dtype, looped=rng.random() < .2)
        if r is None:
            cnt['inapplicable'] += 1
            return
        e, args = r
        cfgs = [FT]                       # the optimisation pass on the un-normalised tree: every instance
        if rng.random() < .35:
            cfgs.append(TT)
        if rng.random() < .1:
            cfgs.append(rng.choice(extra))
        args_list = [args, _second(args)]
        n, cfg, kind = differential(e, args_list, cfgs, timeout=6)
        cnt['trees'] += 1; cnt['runs'] += n; cnt['trees:' + theme] += 1
        if cfg is not None:
            cfg, kind = reproduce(e, args_list, cfg, kind, cnt)
        if cfg is not None and cfg.simplify and kind in ('hang', 'exception'):
            from . import exprcheck as X
            ks, _ = X.guarded(lambda: e.simplified, 8)
            if ks != 'ok':                 # simplification itself does not return / raises: the subject of C01
                cnt['simplification-does-not-return(C01)'] += 1
                cfg = None
        if e._loops:
            cnt['trees:with-loop'] += 1
            if cfg is None and rng.random() < .5:
                pcfg = c02.Config(rng.random() < .5, rng.random() < .7, rng.random() < .2, False, 2, 'starved')
                prob = static_problems(e, pcfg, cnt)
                if prob:
                    cfg, kind = pcfg, 'static:' + prob[0][0]
        if core: cnt['core-trees'] += 1
        skeletons.add((theme,) + tuple(seq))
        if kind == 'nonfinite': cnt['reference-nonfinite'] += 1
        if cfg is not None:
            cnt['candidates'] += 1
            if len(cands) < 12:
                cands.append(dict(theme=theme, seq='-'.join(seq), cfg=tuple(cfg), kind=kind, packed=pack((e, args_list))))

    complete = True
    longest = {t: max(l for t2, l in CORE[tier] if t2 == t) for t, _ in CORE[tier]}
    for theme, length in CORE[tier]:
        seqs = sequences(theme, length)
        order_rng.shuffle(seqs)
        for seq in seqs[w::nworkers]:
            if time.time() - t0 > hardcap:      # the enumerated part is not cut by the soft budget: coverage must not depend on the load
                complete = False; break
            for _ in range(kinst + (length == longest[theme] and length > 2)):
                one(theme, seq, True)
        if not complete:
            cnt['core-incomplete:%s%d' % (theme, length)] += 1
            break
    while complete and time.time() - t0 < budget:
        theme, length = rng.choice(SAMPLED)
        one(theme, tuple(rng.choice(THEMES[theme]) for _ in range(length)), False)
    cnt['distinct-sequences'] = len(skeletons)
    return 'enum', dict(cnt), cands


# ====================================================================================== (P) parallel stream

class StarvedParent:
    """iterator handed to the PARENT process of a forked loop: it does not claim an item before the children have
    consumed the shared range (or a timeout has passed) — a legal schedule of parallel.ctxrange"""

    def __init__(self, inner, claimed, nitems, patience, parent_pid):
        self.inner, self.claimed, self.nitems, self.patience = inner, claimed, nitems, patience
        self.pid = parent_pid
        self.t0 = None

    def __iter__(self):
        return self

    def __next__(self):
        if os.getpid() == self.pid:
            if self.t0 is None: self.t0 = time.time()
            while self.claimed.value < self.nitems and time.time() - self.t0 < self.patience:
                time.sleep(.0005)
            return next(self.inner)
        item = next(self.inner)          # StopIteration propagates
        with self.claimed.get_lock():
            self.claimed.value += 1
        return item


def starved_ctxrange(real_parallel, patience=4.):
    import multiprocessing
    @contextlib.contextmanager
    def ctxrange(name, nitems):
        n = int(nitems)
        forks = min(n, real_parallel.maxprocs.current) > 1 and hasattr(os, 'fork')
        claimed = multiprocessing.Value('i', 0) if forks else None
        parent_pid = os.getpid()          # recorded before the fork inside ctxrange
        with real_parallel.ctxrange(name, nitems) as it:
            yield StarvedParent(iter(it), claimed, n, patience, parent_pid) if forks else it
    return ctxrange


def compile_only(funcs, cfg):
    """scripts the real compile() generates for funcs under cfg (nothing is run); -> (kind, scripts | exception)"""
    import treelog
    from . import c02, exprcheck as X
    with c02.Capture(False) as cap:
        def go():
            with treelog.set(treelog.NullLog()), parallel.maxprocs(cfg.maxprocs):
                ev.compile(funcs, stats=cfg.stats, cache_const_intermediates=cfg.cache, _simplify=cfg.simplify, _optimize=cfg.optimize)
        kind, val = X.guarded(go, 20)
    return kind, (cap.scripts if kind == 'ok' else val)


def parallel_static(script):
    """static well-formedness of a script whose outer loops are forked (`parallel.ctxrange`):
      unshared-accumulator    an array allocated outside the forked loops with numpy.empty is written in place inside a
                              forked loop and read after it — the parent only sees its own iterations;
      unlocked-accumulation   an accumulating statement (add / add.at / multiply with out=) on a shared array inside a
                              forked loop that is not enclosed in a `with lock…:` block.
    -> list of (kind, variable, loop name)"""
    import ast
    from . import c02
    fn = ast.parse(script).body[0]
    problems = []
    alloc = {}      # variable -> 'shared' | 'private', allocated outside the forked loops
    pending = {}    # private variable accumulated inside a forked loop -> loop name

    def names(node):
        return {n.id for n in ast.walk(node) if isinstance(n, ast.Name)}

    def read(ns, where):
        for n in sorted(ns):
            if n in pending:
                problems.append(('unshared-accumulator', n, pending.pop(n)))

    def forked(s):
        if isinstance(s, ast.With) and len(s.items) == 1:
            ctx = s.items[0].context_expr
            if isinstance(ctx, ast.Call) and c02._is_attr_chain(ctx.func, 'parallel', 'ctxrange'):
                return ast.unparse(ctx.args[0]) if ctx.args else '?'
        return None

    def inplace_target(s):
        """(base variable, accumulating?) of an in-place statement, or None"""
        if not (isinstance(s, ast.Expr) and isinstance(s.value, ast.Call)):
            return None
        v = s.value; f = v.func
        try:
            if isinstance(f, ast.Attribute) and f.attr == 'fill':
                return c02.view_of(f.value)[0], False
            if c02._is_attr_chain(f, 'numpy', 'copyto') and v.args:
                return c02.view_of(v.args[0])[0], False
            if (c02._is_attr_chain(f, 'numpy', 'add') or c02._is_attr_chain(f, 'numpy', 'multiply') or c02._is_attr_chain(f, 'numpy', 'add', 'at')) and v.args:
                return c02.view_of(v.args[0])[0], True
        except c02.Untranslatable:
            return None
        return None

    def loop_body(stmts, name, local, locked):
        for s in stmts:
            if isinstance(s, ast.Assign):
                for t in s.targets:
                    if isinstance(t, ast.Name): local.add(t.id)
            elif isinstance(s, ast.With):
                for it in s.items:
                    if isinstance(it.optional_vars, ast.Name): local.add(it.optional_vars.id)
                lock = any(isinstance(it.context_expr, ast.Name) and it.context_expr.id.startswith('lock') for it in s.items)
                loop_body(s.body, name, local, locked or lock)
            elif isinstance(s, ast.For):
                if isinstance(s.target, ast.Name): local.add(s.target.id)
                loop_body(s.body, name, local, locked)
            elif isinstance(s, ast.If):
                loop_body(s.body, name, local, locked); loop_body(s.orelse, name, local, locked)
            else:
                tgt = inplace_target(s)
                if tgt is not None:
                    x, accumulating = tgt
                    if x in alloc and x not in local:
                        if alloc[x] == 'private':
                            pending[x] = name
                        elif accumulating and not locked:
                            problems.append(('unlocked-accumulation', x, name))

    def top(stmts):
        for s in stmts:
            name = forked(s)
            if name is not None:
                read(names(s.items[0].context_expr), name)
                loop_body(s.body, name, set(), False)
            elif isinstance(s, ast.If):
                read(names(s.test), 'if'); top(s.body); top(s.orelse)
            elif isinstance(s, (ast.With, ast.For)):
                for it in getattr(s, 'items', ()): read(names(it.context_expr), 'with')
                if isinstance(s, ast.For): read(names(s.iter), 'for')
                top(s.body)
            elif isinstance(s, ast.Assign) and len(s.targets) == 1 and isinstance(s.targets[0], ast.Name):
                x, v = s.targets[0].id, s.value
                read(names(v) - {x}, 'assign')
                pending.pop(x, None)
                if isinstance(v, ast.Call) and c02._is_attr_chain(v.func, 'numpy', 'empty'):
                    alloc[x] = 'private'
                elif isinstance(v, ast.Call) and c02._is_attr_chain(v.func, 'parallel', 'shempty'):
                    alloc[x] = 'shared'
                else:
                    alloc.pop(x, None)
            elif isinstance(s, ast.Global):
                pass
            else:
                tgt = inplace_target(s)
                ns = names(s)
                if tgt is not None and tgt[0] in pending and not tgt[1]:
                    # a complete re-initialisation outside the loop is not a read of the lost contributions … but the
                    # contributions are lost all the same: report
                    pass
                read(ns, 'stmt')
    top(fn.body)
    return problems


def loop_shape_programs(rng, n):
    """programs whose output arrays can only be allocated after an earlier loop has finished: chunks whose size depends
    on the loop index.  -> list of (name, funcs, args)"""
    out = []
    for k in range(n):
        I = Inst(rng)
        nit = rng.choice([2, 3, 3, 4, 5])
        sizes = [rng.choice([0, 1, 1, 2, 2, 3]) for _ in range(nit)]
        if sum(sizes) == 0: sizes[rng.randrange(nit)] = 2
        offsets = numpy.cumsum([0] + sizes)
        total = int(offsets[-1])
        i = ev.loop_index('P%d' % k, C(nit))
        size = ev.Take(const(numpy.array(sizes)), i)
        offset = ev.Take(const(offsets[:-1]), i)
        lead = tuple(rng.choice([2, 3]) for _ in range(rng.choice([0, 0, 1])))
        x = I.argument(lead + (total,))
        idx = ev.Add(fms(ev.Range(size), ev.InsertAxis(offset, size)))
        chunk_kinds = ['take', 'insert', 'index-value']
        def chunk():
            kind = rng.choice(chunk_kinds)
            if kind == 'take':
                return ev.Take(x, idx)
            if kind == 'insert':
                return ev.InsertAxis(ev.Take(I.argument(lead + (nit,)), i), size)
            r = ev.IntToFloat(idx)
            if lead:
                r = ev.Transpose(ev.InsertAxis(r, C(lead[0])), (1, 0))
            return r
        def pointwise(e):
            kind = rng.randrange(4)
            if kind == 0: return e
            if kind == 1: return ev.Negative(e)
            if kind == 2: return ev.Multiply(fms(e, e))
            two = ev.constant(2.)
            for m in e.shape: two = ev.InsertAxis(two, m)
            return ev.Multiply(fms(e, two))
        cat = ev.loop_concatenate(pointwise(chunk()), i)
        members = {
            'cat': lambda: cat,
            'sum': lambda: ev.loop_sum(ev.Sum(pointwise(chunk())), i),
            'scatter': lambda: ev.loop_sum(ev.Inflate(pointwise(chunk()), idx, cat.shape[-1]), i),
            'cat+late': lambda: ev.Add(fms(cat, ev.InsertAxis(I.argument(lead), cat.shape[-1]))),
            'sum-late-shape': lambda: ev.Add(fms(ev.loop_sum(ev.InsertAxis(ev.Take(I.argument((nit,)), i), cat.shape[-1]), i), ev.InsertAxis(I.argument(()), cat.shape[-1]))),
            'cat-of-cat': lambda: (lambda j: ev.loop_concatenate(ev.InsertAxis(ev.Sum(ev.Multiply(fms(cat, cat))), ev.Add(fms(j, C(1)))), j))(ev.loop_index('Q%d' % k, C(rng.choice([2, 3])))),
            'cat2': lambda: ev.loop_concatenate(pointwise(chunk()), i),
        }
        names = rng.sample(sorted(members), rng.choice([1, 2, 2, 3]))
        try:
            fs = [members[m]() for m in names]
        except (AssertionError, ValueError, TypeError):
            continue
        funcs = fs[0] if len(fs) == 1 else tuple(fs) if rng.random() < .6 else (fs[0], tuple(fs[1:]))
        out.append(('loopshape-%d:%s' % (k, '+'.join(names)), funcs, I.args))
    return out


def _has_loop(funcs):
    from . import c02
    return any(e._loops for e in c02.flatten(funcs)[1])


def par_programs(seed, tier):
    """the programs of the parallel stream (deterministic in the seed; the same list in every worker)"""
    from . import c02
    rng = random.Random(seed)
    progs = []
    cat = c02.catalogue(rng, float)
    for name in cat:
        funcs, args = cat[name]
        if _has_loop(funcs):
            progs.append(('float:' + name, funcs, args))
    gen = loop_shape_programs(rng, 24 if tier == 'quick' else 150)
    # interleave: the programs with late allocations are spread over the whole list (the list may be cut by the time budget)
    out = []
    while progs or gen:
        if gen: out.append(gen.pop(0))
        if progs: out.append(progs.pop(0))
        if progs: out.append(progs.pop(0))
    return out


def _par_worker(job):
    from . import c02
    seed, w, nworkers, tier, budget = job
    t0 = time.time()
    rng = random.Random(seed * 31 + w)
    cnt = collections.Counter(); cands = []
    progs = par_programs(seed, tier)
    for k, (name, funcs, args) in enumerate(progs):
        if k % nworkers != w:
            continue
        if time.time() - t0 > budget and cnt['par-programs'] >= 3:     # a minimum that does not depend on the load
            cnt['par-incomplete'] += 1
            break
        args_list = [args, _second(args)]
        cfgs = []
        for mp in (2, 3):
            simplify, optimize = rng.choice([(False, False), (True, True), (True, True), (False, True), (True, False)])
            cfgs.append(c02.Config(simplify, optimize, rng.random() < .3, rng.choice([False, False, None]), mp, 'starved'))
        if tier != 'quick' or rng.random() < .25:
            cfgs.append(c02.Config(True, True, False, False, rng.choice([2, 3]), 'free'))
        cfg = None
        for pcfg in cfgs[:2]:
            prob = static_problems(funcs, pcfg, cnt)
            if prob:
                cfg, kind = pcfg, 'static:' + prob[0][0]
                break
        if cfg is None:
            if tier == 'quick':
                cfgs = cfgs[k // nworkers % 2::2]          # one parallel execution per program in the quick tier
            n, cfg, kind = differential(funcs, args_list, cfgs, timeout=30)
            cnt['par-programs'] += 1; cnt['par-runs'] += n - 1
            if name.startswith('loopshape'): cnt['par-loopshape-programs'] += 1
            if cfg is not None:
                cfg, kind = reproduce(funcs, args_list, cfg, kind, cnt)
        if cfg is not None:
            cnt['candidates'] += 1
            if len(cands) < 8:
                cands.append(dict(theme='P', seq=name, cfg=tuple(cfg), kind=kind, packed=pack((funcs, args_list))))
    return 'par', dict(cnt), cands


def _robust_guarded(fn, timeout=20):
    """exprcheck.guarded with a repeating timer: a Hang that is raised inside a weakref callback / __del__ is swallowed by
    the interpreter ('Exception ignored in'); the next tick raises it again"""
    import signal
    from . import exprcheck as X
    state = {'armed': True}
    def handler(*a):
        if state['armed']:
            raise X.Hang()
    old = signal.signal(signal.SIGALRM, handler)
    signal.setitimer(signal.ITIMER_REAL, timeout, .5)
    try:
        return 'ok', fn()
    except X.Hang:
        state['armed'] = False
        return 'hang', None
    except RecursionError as e:
        state['armed'] = False
        return 'exception', e
    except Exception as e:
        state['armed'] = False
        return 'exception', e
    finally:
        state['armed'] = False
        signal.setitimer(signal.ITIMER_REAL, 0)
        signal.signal(signal.SIGALRM, old)


def _work(job):
    # BLAS threads are limited by the caller's environment (./check exports OMP_NUM_THREADS=1)
    from . import exprcheck as X
    X.guarded = _robust_guarded          # this worker process only
    try:
        os.nice(5)                       # the Lean build / drivers of the main process go first
    except OSError:
        pass
    import sys
    def hook(u):                         # a watchdog tick that lands in a weakref callback is reported as 'unraisable': not an event
        if not isinstance(u.exc_value, X.Hang):
            sys.__unraisablehook__(u)
    sys.unraisablehook = hook
    try:
        return (_par_worker if job[0] == 'par' else _enum_worker)(job[1:])
    except BaseException as e:   # a crash of the harness worker must surface as such, not as a verdict
        import traceback
        return 'crash', {'crash': 1}, [dict(error=repr(e), trace=traceback.format_exc()[-1500:], job=repr(job))]


class Streams:
    """starts the worker processes (fork, before the harness process has threads or instrumentation) and collects them"""

    def __init__(self, c, budget=None):
        import multiprocessing
        quick = c.tier == 'quick'
        self.nenum = 10 if quick else 12
        self.npar = 2 if quick else 4
        budget = budget or (30 if quick else 600)
        hardcap = 150 if quick else 1000
        seed = (c.seed * 1000003 + 0xC02) & 0x7fffffff
        jobs = [('par', seed, w, self.npar, c.tier, budget + (10 if quick else 200)) for w in range(self.npar)]
        jobs += [('enum', seed + 17 + w, w, self.nenum, c.tier, budget, 2 if quick else 3, hardcap) for w in range(self.nenum)]
        self.pool = multiprocessing.get_context('fork').Pool(len(jobs))
        self.results = [self.pool.apply_async(_work, (j,)) for j in jobs]

    def collect(self, timeout):
        try:
            return [r.get(timeout) for r in self.results]
        finally:
            self.close()

    def close(self):
        if self.pool is not None:
            self.pool.terminate(); self.pool.join(); self.pool = None
