"""Delta-debugging of evaluable expressions: given a failing expression find a smaller one that still fails.

Used to compute root-cause signatures (class skeleton of the shrunk tree) and small replays."""
import numpy, itertools
from nutils import evaluable as ev, types

_counter = itertools.count()


def children(e):
    _, args = e.__reduce__()
    out = []
    def walk(a):
        if isinstance(a, ev.Array):
            out.append(a)
        elif isinstance(a, (tuple, list, types.frozenmultiset)):
            for x in a: walk(x)
    for a in args: walk(a)
    return out


def rebuild(e, old, new, memo=None):
    """copy of e with every occurrence of node `old` replaced by `new`"""
    memo = {} if memo is None else memo
    def go(a):
        if a is old:
            return new
        if isinstance(a, ev.Evaluable):
            k = id(a)
            if k not in memo:
                cls, args = a.__reduce__()
                nargs = tuple(go(x) for x in args)
                memo[k] = a if all(x is y for x, y in zip(args, nargs)) else cls(*nargs)
            return memo[k]
        if isinstance(a, tuple):
            return tuple(go(x) for x in a)
        if isinstance(a, types.frozenmultiset):
            return types.frozenmultiset(go(x) for x in a)
        return a
    return go(e)


def all_nodes(e):
    seen, order = set(), []
    def go(a):
        if id(a) in seen: return
        seen.add(id(a)); order.append(a)
        for c in children(a): go(c)
    go(e)
    return order


def static_shape(e):
    try:
        return tuple(int(n) for n in e.shape)
    except Exception:
        return None


def leaf_for(e, args):
    sh = static_shape(e)
    if sh is None:
        return None
    if e.dtype == float:
        name = 's%d' % next(_counter)
        args[name] = (numpy.arange(int(numpy.prod(sh)), dtype=float).reshape(sh) % 5 - 2) / 2
        return ev.Argument(name, tuple(ev.constant(n) for n in sh), float)
    if e.dtype == int:
        lo, hi = e._intbounds
        v = 0 if lo <= 0 <= hi else int(lo) if numpy.isfinite(lo) else int(hi)
        return ev.Constant(types.arraydata(numpy.full(sh, v, dtype=int)))
    if e.dtype == bool:
        return ev.Constant(types.arraydata(numpy.zeros(sh, dtype=bool)))
    return None


def is_leaf(e):
    return isinstance(e, (ev.Argument, ev.Constant, ev.Zeros)) or not children(e)


def shrink(e, args, fails, budget=60):
    """fails(expr, args) -> bool.  Returns (smaller expr, args)."""
    args = dict(args)
    progress = True
    while progress and budget > 0:
        progress = False
        # 1. descend into a failing child
        for c in children(e):
            if is_leaf(c) or c.ndim == 0 and isinstance(c, ev.Constant): continue
            budget -= 1
            try:
                if fails(c, args):
                    e = c; progress = True; break
            except Exception:
                pass
            if budget <= 0: break
        if progress: continue
        # 2. replace inner subtrees by leaves (largest first)
        nodes = [n for n in all_nodes(e)[1:] if not is_leaf(n)]
        nodes.sort(key=lambda n: -len(all_nodes(n)))
        for n in nodes:
            if budget <= 0: break
            a2 = dict(args)
            leaf = leaf_for(n, a2)
            if leaf is None: continue
            try:
                e2 = rebuild(e, n, leaf)
            except Exception:
                continue
            budget -= 1
            try:
                if fails(e2, a2):
                    e, args, progress = e2, a2, True; break
            except Exception:
                pass
    used = set()
    for n in all_nodes(e):
        if isinstance(n, ev.Argument): used.add(n.name)
    return e, {k: v for k, v in args.items() if k in used}


def skeleton(e):
    """sorted multiset-free class signature of the inner nodes of a (shrunk) tree"""
    names = sorted({type(n).__name__ for n in all_nodes(e) if not isinstance(n, (ev.Argument, ev.Constant, ev.Zeros)) })
    return '+'.join(names)
