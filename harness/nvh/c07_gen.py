"""C07 (M2): generator of op applications for `c07_prog.Case` (all randomness from the rng handed in)."""
import numpy
from .c07_prog import OPS, Case, kind_of, PYT, enc_val, DISCONTINUOUS_OPS

RANK = {'b': 0, 'i': 1, 'f': 2, 'c': 3}

# op -> (kinds of a, kinds of b, flavour of b, extra)
BIN = {
    'add': ('bifc', 'bifc', 'any'), 'op+': ('bifc', 'bifc', 'any'), 'multiply': ('bifc', 'bifc', 'any'), 'op*': ('bifc', 'bifc', 'any'),
    'subtract': ('ifc', 'bifc', 'any'), 'op-': ('ifc', 'bifc', 'any'),
    'true_divide': ('bifc', 'ifc', 'nz'), 'op/': ('bifc', 'ifc', 'nz'),
    'floor_divide': ('if', 'if', 'nz'), 'op//': ('if', 'if', 'nz'), 'mod': ('if', 'if', 'nz'), 'op%': ('if', 'if', 'nz'),
    'divmod()': ('if', 'if', 'nz'), 'np.divmod': ('if', 'if', 'nz'),
    'minimum': ('bif', 'bif', 'any'), 'maximum': ('bif', 'bif', 'any'),
    'greater': ('if', 'bif', 'any'), 'less': ('if', 'bif', 'any'), 'op<': ('if', 'bif', 'any'), 'op>': ('if', 'bif', 'any'),
    'equal': ('bifc', 'bifc', 'any'), 'op==': ('bifc', 'bifc', 'any'),
    'hypot': ('if', 'if', 'any'), 'arctan2': ('if', 'if', 'nz'),
    'logical_and': ('b', 'b', 'any'), 'logical_or': ('b', 'b', 'any'), 'bitwise_and': ('b', 'b', 'any'), 'bitwise_or': ('b', 'b', 'any'), 'op&': ('b', 'b', 'any'), 'op|': ('b', 'b', 'any'),
}
# (numpy.square(bool) is int8, and NumPy then computes float ufuncs of it in float16: bool excluded from square)
UN = {
    'negative': ('ifc', 'any'), 'op-neg': ('ifc', 'any'), 'positive': ('ifc', 'any'), 'op+pos': ('ifc', 'any'), 'reciprocal': ('fc', 'nz'), 'sqrt': ('ifc', 'pos'),
    'square': ('ifc', 'any'), 'absolute': ('ifc', 'any'), 'abs()': ('ifc', 'any'), 'sign': ('if', 'any'),
    'sin': ('ifc', 'any'), 'cos': ('ifc', 'any'), 'tan': ('ifc', 'unit'), 'arcsin': ('if', 'unit'), 'arccos': ('if', 'unit'), 'arctan': ('ifc', 'any'), 'sinc': ('ifc', 'any'),
    'cosh': ('ifc', 'any'), 'sinh': ('ifc', 'any'), 'tanh': ('ifc', 'any'), 'arctanh': ('if', 'unit'), 'exp': ('ifc', 'any'), 'log': ('if', 'pos'), 'log2': ('if', 'pos'), 'log10': ('if', 'pos'),
    'logical_not': ('b', 'any'), 'invert': ('b', 'any'), 'op~': ('b', 'any'), 'conjugate': ('ifc', 'any'), 'conj()': ('ifc', 'any'),
    'real': ('bifc', 'any'), 'imag': ('bifc', 'any'), 'a.real': ('bifc', 'any'), 'a.imag': ('bifc', 'any'),
}


class Gen:
    def __init__(self, rng, case, p_invalid=.1):
        self.rng, self.case, self.p_invalid = rng, case, p_invalid
        self.events = []       # (kind, op, detail dict)
        self.nargs = 0
        self.force = None      # op name that the next family call must use (coverage pass)

    def choose(self, options):
        options = list(options)
        return self.force if self.force in options else self.rng.choice(options)

    # ------------------------------------------------------------------ values and leaves
    def rand_values(self, kind, shape, flavor='any'):
        rng = self.rng; n = int(numpy.prod(shape, dtype=int))
        if kind == 'b':
            v = [rng.random() < .5 for _ in range(n)]
        elif kind == 'i':
            pool = {'any': [-3, -2, -1, 0, 0, 1, 1, 2, 3, 4], 'nz': [-3, -2, -1, 1, 1, 2, 3, 4], 'pos': [1, 1, 2, 3, 4], 'unit': [-1, 0, 0, 1], 'small': [0, 1, 2, 3]}[flavor]
            v = [rng.choice(pool) for _ in range(n)]
        elif kind == 'f':
            pool = {'any': [k / 4 for k in range(-8, 9)], 'nz': [k / 4 for k in range(-8, 9) if k], 'pos': [k / 4 for k in range(1, 9)],
                    'unit': [k / 8 for k in range(-7, 8)], 'small': [0., 1., 2., .5]}[flavor]
            v = [rng.choice(pool) for _ in range(n)]
        else:
            re = self.rand_values('f', shape, flavor if flavor in ('nz', 'pos') else 'any').ravel(); im = self.rand_values('f', shape, 'any').ravel()
            v = [complex(a, b) for a, b in zip(re, im)]
        return numpy.array(v, dtype=PYT[kind]).reshape(shape)

    def fresh(self, shape, kind, flavor='any', styles=None, values=None):
        """new leaf with the given shape / kind; style decides how it enters the expression"""
        rng = self.rng; shape = tuple(shape)
        v = self.rand_values(kind, shape, flavor) if values is None else numpy.asarray(values)
        styles = styles or (['arg', 'arg', 'const', 'nparray'] + (['scalar', 'scalar'] if shape == () else ['list'] if kind != 'c' else []))
        st = rng.choice(styles)
        if st == 'scalar' and shape == ():
            x = v.item(); d = dict(t='scalar', kind=kind, v=[x.real, x.imag] if kind == 'c' else x)
        elif st == 'list' and shape != () and kind != 'c':
            d = dict(t='list', v=v.tolist())
        elif st == 'nparray':
            d = dict(t='nparray', kind=kind, v=enc_val(v))
        elif st == 'const':
            d = dict(t='const', kind=kind, v=enc_val(v))
        else:
            self.nargs += 1
            d = dict(t='arg', name='u%d' % self.nargs, kind=kind, v=enc_val(v))
        return self.case.add_leaf(d)

    def env_leaf(self):
        rng = self.rng; env = self.case.env
        if not env.spaces: return None
        sp = rng.choice(sorted(env.spaces))
        topo, geom = env.spaces[sp]
        t = rng.choice(['geom', 'geomc', 'geomc', 'basis', 'basis', 'index'])
        if t == 'geomc' and len(geom.shape) == 0: t = 'geom'
        if t == 'geom': d = dict(t='geom', space=sp)
        elif t == 'geomc': d = dict(t='geomc', space=sp, i=rng.randrange(geom.shape[0]))
        elif t == 'basis': d = dict(t='basis', space=sp, btype=rng.choice(['std', 'std', 'discont']), degree=rng.choice([0, 1]) if False else 1)
        else: d = dict(t='index', space=sp)
        if d['t'] == 'basis' and d['btype'] == 'discont': d['degree'] = rng.choice([0, 1])
        n = self.case.add_leaf(d); self.case.eval_leaves()
        return n

    def rand_shape(self, maxnd=3):
        rng = self.rng
        return tuple(rng.choice([1, 2, 2, 3, 3, 4]) for _ in range(rng.choice([0, 1, 1, 2, 2, 3][:maxnd * 2])))

    def compat_shape(self, shape):
        """a shape that broadcasts with `shape` (right aligned; some axes dropped or 1; sometimes longer)"""
        rng = self.rng; shape = tuple(shape)
        k = rng.randint(0, len(shape))
        s = [d if rng.random() < .65 else 1 for d in shape[len(shape) - k:]]
        if rng.random() < .15: s = [rng.choice([1, 2, 3])] + [d for d in shape[len(shape) - k:]] if k == len(shape) else s
        # axes of length 1 in `shape` may be stretched by the other operand
        s = [rng.choice([2, 3]) if (len(s) - i) <= len(shape) and shape[len(shape) - (len(s) - i)] == 1 and rng.random() < .3 else d for i, d in enumerate(s)]
        return tuple(s)

    def incompat_shape(self, shape):
        rng = self.rng; shape = tuple(shape)
        cand = [i for i, d in enumerate(shape) if d > 1]
        if not cand: return None
        i = rng.choice(cand); s = list(shape); s[i] = shape[i] + rng.choice([1, 2]) if shape[i] != 2 or rng.random() < .5 else 3
        if s[i] == 1: s[i] = shape[i] + 1
        return tuple(s[rng.randint(0, i):])

    def pick(self, pred=lambda n: True, fa_only=True, maxdepth=3):
        rng = self.rng
        c = [n for n in self.case.nodes if n.depth <= maxdepth and (n.isfa or not fa_only) and n.vals is not None and pred(n)]
        if not c: return None
        # prefer deep / recent nodes so that compositions grow
        w = [1 + 2 * n.depth + (2 if n is self.case.nodes[-1] else 0) for n in c]
        return rng.choices(c, weights=w)[0]

    def operand(self, kinds, shape_pred=None, flavor='any', shape=None, allow_raw=False):
        """existing node satisfying the constraints, else a fresh leaf"""
        rng = self.rng
        def ok(n):
            if n.kind not in kinds: return False
            if shape is not None and n.shape != tuple(shape): return False
            if shape_pred is not None and not shape_pred(n.shape): return False
            if flavor == 'nz' and not n.all(lambda v: v != 0): return False
            if flavor == 'pos' and not (n.kind in 'if' and n.all(lambda v: v > 0)): return False
            if flavor == 'unit' and not (n.kind in 'if' and n.all(lambda v: abs(v) < 1)): return False
            return True
        if rng.random() < .7:
            n = self.pick(ok, fa_only=not allow_raw)
            if n is not None: return n
        if shape is None:
            for _ in range(20):
                shape = self.rand_shape()
                if shape_pred is None or shape_pred(shape): break
            else:
                return None
        return self.fresh(shape, rng.choice(kinds), flavor, styles=None if allow_raw else ['arg', 'arg', 'const'])

    # ------------------------------------------------------------------ application
    def apply(self, op, P, operands, expect='valid'):
        """run both worlds; returns the new node or None; records events"""
        case = self.case
        if any(o is None for o in operands): return None
        if max(o.depth for o in operands) > 3: return None
        if not any(o.isfa for o in operands): return None
        if op in DISCONTINUOUS_OPS and not all(o.exact for o in operands):
            self.events.append(('skipped-discontinuous-on-inexact', op, {})); return None
        vals, nperr = case.numpy_side(op, P, operands)
        fa, nuerr = case.nutils_side(op, P, operands)
        info = dict(op=op, P=P, args=[o.id for o in operands], expect=expect)
        if nperr is not None:
            if expect == 'invalid' or (expect == 'maybe-invalid' and isinstance(nperr, (ValueError, IndexError))):
                if nuerr is None:
                    self.events.append(('accepts-invalid-shape', op, dict(info, numpy_error=repr(nperr)[:200], built_shape=list(getattr(fa, 'shape', ())))))
                else:
                    self.events.append(('both-reject', op, info))
            else:
                self.events.append(('gen-numpy-exception', op, dict(info, numpy_error=repr(nperr)[:200])))
            return None
        if expect == 'invalid':
            expect = 'valid'      # the generator produced a valid application by accident
        if nuerr is not None:
            if expect == 'strict':
                self.events.append(('stricter', op, dict(info, nutils_error=repr(nuerr)[:200])))
            else:
                self.events.append(('rejects-valid', op, dict(info, nutils_error=repr(nuerr)[:300])))
            return None
        if not hasattr(fa, 'lower'):
            self.events.append(('not-an-array', op, dict(info, got=repr(type(fa)))))
            return None
        # magnitude guard: keep everything a small number so that float arithmetic stays far from overflow
        try:
            big = any(numpy.asarray(v).size and numpy.nanmax(numpy.abs(numpy.where(numpy.isfinite(numpy.asarray(v, dtype=complex)), numpy.asarray(v, dtype=complex), 0))) > 2.**40 for v in vals)
        except Exception:
            big = False
        if big:
            self.events.append(('dropped-large', op, info)); return None
        if any(numpy.asarray(v).dtype.kind in 'fc' and not numpy.isfinite(v).all() for v in vals):
            self.events.append(('dropped-nonfinite', op, info)); return None      # inf / nan are outside the property (values of real function arrays)
        if numpy.asarray(vals[0]).size == 0:
            self.events.append(('dropped-zero-size', op, info)); return None      # excluded: zero-size function arrays (reshape divides by zero)
        n = case.add_op(op, P, operands, vals, fa)
        self.events.append(('applied', op, info))
        return n

    def invalid(self):
        return self.rng.random() < self.p_invalid

    # ------------------------------------------------------------------ generators per op family
    def g_binary(self):
        rng = self.rng
        op = self.choose(sorted(BIN))
        ka, kb, flav = BIN[op]
        a = self.operand(ka)
        if a is None: return None
        inv = self.invalid()
        shp = self.incompat_shape(a.shape) if inv else self.compat_shape(a.shape)
        if shp is None: inv = False; shp = self.compat_shape(a.shape)
        raw_ok = op.startswith('op') or rng.random() < .5
        b = self.operand(kb, flavor=flav, shape=shp, allow_raw=raw_ok)
        if b is None: return None
        if ka == kb and flav == 'any' and rng.random() < .5: a, b = b, a
        P = {'sel': rng.randrange(2)} if 'divmod' in op else {}
        return self.apply(op, P, [a, b], 'invalid' if inv else 'valid')

    def g_power(self):
        rng = self.rng
        op = self.choose(['power', 'op**'])
        a = self.operand('ifc', flavor=rng.choice(['any', 'nz', 'pos']))
        if a is None: return None
        if a.kind == 'i':
            e = self.fresh((), 'i', styles=['scalar', 'const', 'nparray'], values=rng.choice([0, 1, 2, 2, 3])) if rng.random() < .7 else \
                self.fresh(self.compat_shape(a.shape), 'i', 'small', styles=['const', 'nparray'])
        elif a.kind == 'f' and a.all(lambda v: v > 0):
            e = self.fresh((), rng.choice('if'), styles=['scalar', 'const', 'arg'], values=rng.choice([2, -1, .5, 2., 3, 0, -2., 1.5]))
        elif a.all(lambda v: v != 0):
            e = self.fresh((), 'i', styles=['scalar', 'const'], values=rng.choice([2, -1, 3, 0, -2])) if a.kind != 'i' else None
        else:
            e = self.fresh((), 'i', styles=['scalar', 'const'], values=rng.choice([2, 3, 0, 1]))
        if e is None: return None
        if a.kind == 'f' and kind_of(e.v0) == 'f' and not a.all(lambda v: v > 0): return None
        return self.apply(op, {}, [a, e])

    POW_INT = [2, 3, 4, 4, 5, 6, 6, 8, -1, -2, -3, -4]
    POW_FRAC = [.5, .25, .125, .375, .75, 1.5, 2.5, -.5, -1.5, .0625, 1.25]

    def g_powchain(self):
        """composition of 2-3 powers / roots / squares / reciprocals on one real operand that (mostly) takes both signs: whatever the
        implementation rewrites (f**p)**q to has to keep NumPy's value wherever NumPy's value is finite — an even inner power makes the
        outer fractional power finite at points where f < 0.  Steps whose NumPy value is nan / inf are dropped by `apply`."""
        rng = self.rng
        a = self.operand('f', flavor=rng.choice(['any', 'nz', 'nz', 'nz', 'pos']))
        if a is None: return None
        n = a; last = None; prev = None; nsteps = 0
        neg = not a.all(lambda v: v >= 0)
        for step in range(rng.randint(2, 3)):
            if n.depth > 3: break
            val = None
            kind = rng.choice(['int', 'int', 'int', 'frac', 'unary'] if last is None else ['int', 'frac', 'frac', 'frac', 'unary'])
            if kind == 'unary':
                m = self.apply(rng.choice(['sqrt', 'square', 'reciprocal', 'absolute']), {}, [n])
            else:
                val = rng.choice(self.POW_INT if kind == 'int' else self.POW_FRAC)
                if kind == 'int' and rng.random() < .3: val = float(val)
                e = self.fresh((), kind_of(val), styles=['scalar', 'scalar', 'const'], values=val)
                m = self.apply(rng.choice(['power', 'op**']), {}, [n, e])
            if m is not None:
                n = last = m; nsteps += 1
                if prev is not None and val is not None and neg and float(prev) == int(prev) and int(prev) % 2 == 0 and float(val) != int(val):
                    # the family of rewrites (f**p)**q -> |f|**(pq): even inner power, fractional outer power, base negative somewhere
                    self.events.append(('powchain-even-inner-fractional-outer-on-negative-base:product-%s' % ('integer' if float(prev * val) == int(prev * val) else 'fractional'), 'powchain', {}))
                prev = val if val is not None else (2 if m.op == 'square' else .5 if m.op == 'sqrt' else -1 if m.op == 'reciprocal' else None)
        self.events.append(('powchain-steps-%d' % nsteps, 'powchain', {}))
        return last

    def g_intbounds(self):
        """an integer result whose value range an implementation can infer (searchsorted: 0..len, mod: 0..k-1, sign: -1..1, bool cast: 0..1,
        clipped values, element index) followed by an op whose rewriting may consult such a range (minimum, maximum, mod, floor_divide,
        comparisons, then choose) with a constant at or next to either end of the range — the values must stay NumPy's"""
        rng = self.rng
        exact_int = lambda n: n.kind == 'i' and n.exact and n.depth <= 1
        def int_operand():
            return self.pick(exact_int) or self.fresh(self.rand_shape(2), 'i', styles=['arg', 'arg', 'const'])
        src = rng.choice(['searchsorted', 'searchsorted', 'searchsorted', 'mod', 'sign', 'bool', 'clip', 'index'])
        lo = hi = None
        if src == 'searchsorted':
            v = self.pick(lambda n: n.kind in 'if' and n.exact and n.depth <= 1) or self.fresh(self.rand_shape(2), rng.choice('if'), styles=['arg', 'arg', 'const'])
            allv = sorted({float(x) for val in v.vals for x in numpy.asarray(val).ravel()})
            n = rng.randint(1, 4)
            if rng.random() < .6 and len(allv) >= 2:
                # nodes ON data values, the largest data value beyond (or on) the last node: the result reaches len(a)
                a = sorted(rng.sample(allv[:-1] if rng.random() < .7 else allv, min(n, len(allv) - 1)))
            else:
                a = sorted(rng.choice([k / 4 for k in range(-8, 9)]) for _ in range(n))
            if v.kind == 'i' or rng.random() < .3: a = sorted(int(numpy.floor(x)) for x in a)
            P = {'a': a}; kw = {}
            if rng.random() < .5: kw['side'] = rng.choice(['left', 'right'])
            if rng.random() < .25 and len(a) > 1:
                perm = list(range(len(a))); rng.shuffle(perm)
                un = [None] * len(a)
                for pos, j in enumerate(perm): un[j] = a[pos]
                P['a'] = un; kw['sorter'] = perm
            if kw: P['kw'] = kw
            s = self.apply('searchsorted', P, [v]); lo, hi = 0, len(a)
        elif src == 'mod':
            k = rng.choice([2, 3, 4])
            s = self.apply(rng.choice(['mod', 'op%']), {}, [int_operand(), self.fresh((), 'i', styles=['scalar', 'const'], values=k)]); lo, hi = 0, k - 1
        elif src == 'sign':
            s = self.apply('sign', {}, [int_operand()]); lo, hi = -1, 1
        elif src == 'bool':
            b = self.pick(lambda n: n.kind == 'b' and n.depth <= 1) or self.fresh(self.rand_shape(2), 'b', styles=['arg', 'arg', 'const'])
            s = self.apply('astype', {'kind': 'i'}, [b]); lo, hi = 0, 1
        elif src == 'clip':
            k = rng.choice([-1, 0, 1, 2])
            s = self.apply(rng.choice(['minimum', 'maximum']), {}, [int_operand(), self.fresh((), 'i', styles=['scalar', 'const'], values=k)])
        else:
            s = self.pick(lambda n: n.desc.get('t') == 'index') or (self.env_leaf() if self.case.env.spaces else None)
            if s is not None and s.desc.get('t') != 'index': s = None
        if s is None or s.kind != 'i': return None
        vals = numpy.concatenate([numpy.asarray(v).ravel() for v in s.vals])
        if lo is None: lo = int(vals.min())
        if hi is None: hi = int(vals.max())
        self.events.append(('intbounds-source-%s%s' % (src, ':range-end-attained' if int(vals.max()) == hi or int(vals.min()) == lo else ''), 'intbounds', {}))
        c = rng.choice([lo - 1, lo, lo + 1, hi - 1, hi, hi, hi + 1])
        ops = ['minimum', 'maximum', 'greater', 'less', 'equal', 'op<', 'op>', 'op==']
        if c > 0: ops += ['mod', 'op%', 'mod', 'op%', 'floor_divide', 'op//']
        op = rng.choice(ops)
        e = self.fresh((), 'i', styles=['scalar', 'scalar', 'const', 'nparray'], values=c)
        operands = [s, e]
        if op in ('minimum', 'maximum', 'equal', 'op==') and rng.random() < .5: operands.reverse()
        r = self.apply(op, {}, operands)
        if r is not None and op in ('mod', 'op%') and 2 <= c <= 4 and rng.random() < .6:
            choices = [self.fresh(rng.choice([(), s.shape]), 'i', styles=['const', 'arg']) for _ in range(c)]
            try: numpy.broadcast_shapes(r.shape, *[ch.shape for ch in choices])
            except ValueError: return r
            return self.apply(rng.choice(['choose', 'a.choose']), {}, [r] + choices) or r
        return r

    def g_unary(self):
        rng = self.rng
        op = self.choose(sorted(UN))
        kinds, flav = UN[op]
        a = self.operand(kinds, flavor=flav if rng.random() < .8 else 'any')
        if a is None or a.kind not in kinds: return None
        return self.apply(op, {}, [a])

    def rand_axis(self, nd, neg=True):
        a = self.rng.randrange(nd)
        return a - nd if neg and self.rng.random() < .4 else a

    def g_reduce(self):
        rng = self.rng
        op = self.choose(['sum', 'sum', 'prod', 'a.sum', 'a.prod', 'all', 'any', 'sum-default'])
        if op in ('all', 'any'):
            a = self.operand('b', shape_pred=lambda s: True)
            if a is None: return None
            if a.ndim and rng.random() < .6:
                inv = self.invalid()
                return self.apply(op, {'axis': rng.choice([a.ndim, -a.ndim - 1]) if inv else self.rand_axis(a.ndim)}, [a], 'invalid' if inv else 'valid')
            return self.apply(op, {}, [a])
        a = self.operand('bifc' if op in ('sum', 'a.sum', 'sum-default') else 'ifc', shape_pred=(lambda s: len(s) >= 1) if op != 'sum-default' else None,
                         flavor='unit' if 'prod' in op and rng.random() < .5 else 'any')
        if a is None: return None
        if op == 'sum-default': return self.apply(op, {}, [a])
        nd = a.ndim
        r = rng.random(); inv = self.invalid()
        if inv:
            axis = rng.choice([nd, -nd - 1, [0, 0] if nd else [0], [0, -nd]])
        elif r < .15 and op in ('sum', 'prod'): axis = None
        elif r < .6 or nd < 2: axis = self.rand_axis(nd)
        else:
            k = rng.randint(1, nd); axis = [x - nd if rng.random() < .4 else x for x in rng.sample(range(nd), k)]
            if rng.random() < .1: axis = []
        if op == 'a.sum' and axis is None: axis = self.rand_axis(nd)
        P = {'axis': axis}
        if op == 'prod': P['kw'] = rng.random() < .5
        return self.apply(op, P, [a], 'invalid' if inv else 'valid')

    # ---- indexing
    def index_node(self, n):
        """function array of kind int with *provable* bounds inside [-n, n) that does not depend on the point coordinates"""
        rng = self.rng; case = self.case
        cands = []
        for sp, (topo, geom) in sorted(case.env.spaces.items()):
            if len(topo) <= n: cands.append(('index', sp))
        r = rng.random()
        if cands and r < .5:
            t, sp = rng.choice(cands)
            idx = case.add_leaf(dict(t='index', space=sp)); case.eval_leaves()
            nel = len(case.env.spaces[sp][0])
            if rng.random() < .3 and nel < n:
                idx = self.apply('op+', {}, [idx, self.fresh((), 'i', styles=['scalar'], values=rng.randint(0, n - nel))])
            elif rng.random() < .3:
                idx = self.apply('op-', {}, [idx, self.fresh((), 'i', styles=['scalar'], values=rng.randint(nel, n) if nel <= n else n)])
            return idx
        src = self.pick(lambda m: m.kind == 'i' and not m.ptdep and m.depth <= 1 and m.ndim <= 2) or self.fresh(self.rand_shape(2), 'i', styles=['arg'])
        idx = self.apply(rng.choice(['mod', 'op%']), {}, [src, self.fresh((), 'i', styles=['scalar'], values=n)])
        if idx is not None and rng.random() < .3:
            idx = self.apply('op-', {}, [idx, self.fresh((), 'i', styles=['scalar'], values=n)])
        return idx

    def rand_items(self, shape, allow_array=True, want_fidx=False):
        """-> (items, extra operands, invalid?)"""
        rng = self.rng; nd = len(shape)
        xs = []
        inv = self.invalid()
        target = rng.choice([nd, nd, nd, max(0, nd - 1), max(0, nd - 2)])
        too_many = inv and rng.random() < .3
        if too_many: target = nd + 1
        npre = rng.randint(0, target)
        use_ell = (target < nd or rng.random() < .5) and not too_many
        if not use_ell: npre = target
        axes = list(range(npre)) + list(range(nd - (target - npre), nd)) if not too_many else list(range(nd)) + [None]
        state = dict(narr=0, nint=0, bad=too_many)
        def one(ax):
            n = shape[ax] if ax is not None else 2
            r = rng.random()
            if r < .3 and state['narr'] == 0 and n > 0:
                state['nint'] += 1
                if inv and not state['bad'] and rng.random() < .5:
                    state['bad'] = True; return ['i', rng.choice([n, -n - 1])]
                return ['i', rng.randint(-n, n - 1)]
            if r < .8 or not allow_array or state['narr'] or state['nint'] or n == 0:
                v = lambda: rng.choice([None, None, rng.randint(-n - 2, n + 2)])
                return ['s', v(), v(), rng.choice([None, None, None, 1, -1, 2, -2, 3])]
            if want_fidx or rng.random() < .35:
                idx = self.index_node(n)
                if idx is None: return ['s', None, None, None]
                xs.append(idx); state['narr'] += 1
                return ['x', len(xs) - 1]
            ish = rng.choice([(2,), (3,), (1,), (2, 2), (), (2, 1)])
            vals = numpy.array([rng.randint(-n, n - 1) for _ in range(int(numpy.prod(ish, dtype=int)))], dtype=int).reshape(ish)
            if inv and not state['bad'] and vals.size and rng.random() < .5:
                vals.flat[0] = rng.choice([n, -n - 1]); state['bad'] = True
            state['narr'] += 1
            return [rng.choice(['a', 'l']) if ish != () else 'a', vals.tolist()]
        its = [one(ax) for ax in axes]
        items = its[:npre] + ([['e']] if use_ell else []) + its[npre:]
        for _ in range(rng.choice([0, 0, 0, 1, 1, 2])):
            items.insert(rng.randint(0, len(items)), ['n'])
        return items, xs, (inv and state['bad'])

    def g_getitem(self):
        rng = self.rng
        a = self.operand('bifc', shape_pred=lambda s: len(s) >= 1)
        if a is None: return None
        if a.op is None and a.desc.get('t') == 'basis' and rng.random() < .3:
            # Basis.__getitem__: boolean masks and increasing index vectors give a MaskedBasis
            if rng.random() < .5: item = ['m', [rng.random() < .6 for _ in range(a.shape[0])]]
            else: item = ['a', sorted(rng.sample(range(a.shape[0]), rng.randint(1, a.shape[0])))]
            return self.apply('getitem', {'items': [item], 'tuple': False}, [a])
        items, xs, inv = self.rand_items(a.shape, want_fidx=rng.random() < .25)
        if rng.random() < .2 and not inv:
            # nested a[i][j]
            sh1 = numpy.shape(numpy.empty(a.shape)[tuple(_np_item(it) for it in items)]) if not xs else None
            if sh1 is not None and len(sh1) >= 1:
                items2, xs2, inv2 = self.rand_items(sh1, allow_array=False)
                if not inv2:
                    return self.apply('getitem2', {'items': items, 'items2': items2}, [a])
        P = {'items': items}
        if len(items) == 1 and rng.random() < .5: P['tuple'] = False
        return self.apply('getitem', P, [a] + xs, 'invalid' if inv else 'valid')

    def g_take(self):
        rng = self.rng
        a = self.operand('bifc', shape_pred=lambda s: len(s) >= 1)
        if a is None: return None
        inv = self.invalid()
        P = {}
        if rng.random() < .2:
            n = int(numpy.prod(a.shape, dtype=int))
        else:
            ax = self.rand_axis(a.ndim); P['axis'] = ax; n = a.shape[ax]
            if inv and rng.random() < .4: P['axis'] = rng.choice([a.ndim, -a.ndim - 1]); n = 1
        if n == 0: return None
        xs = []
        if rng.random() < .3 and not inv:
            idx = self.index_node(n)
            if idx is None: return None
            xs = [idx]; P['indices'] = ['x', 0]
        else:
            ish = rng.choice([(2,), (3,), (), (2, 2), (1,)])
            vals = numpy.array([rng.randint(-n, n - 1) for _ in range(int(numpy.prod(ish, dtype=int)))], dtype=int).reshape(ish)
            if inv and 'axis' in P and -a.ndim <= P['axis'] < a.ndim and vals.size: vals.flat[-1] = rng.choice([n, -n - 1])
            elif inv and 'axis' not in P and vals.size: vals.flat[-1] = n
            P['indices'] = [rng.choice(['a', 'l']) if ish != () else 'a', vals.tolist()]
        return self.apply('take', P, [a] + xs, 'invalid' if inv else 'valid')

    def g_compress(self):
        rng = self.rng
        a = self.operand('bifc', shape_pred=lambda s: len(s) >= 1)
        if a is None: return None
        P = {}
        if rng.random() < .25: n = int(numpy.prod(a.shape, dtype=int))
        else: P['axis'] = self.rand_axis(a.ndim); n = a.shape[P['axis']]
        P['cond'] = [rng.random() < .6 for _ in range(n)]
        return self.apply('compress', P, [a])

    def regroup(self, shape):
        rng = self.rng
        fac = []
        for d in shape:
            for p in (2, 3, 5, 7):
                while d % p == 0 and d > 1: fac.append(p); d //= p
        if rng.random() < .4: rng.shuffle(fac)
        out = []
        while fac:
            k = rng.randint(1, min(3, len(fac))); out.append(int(numpy.prod(fac[:k]))); fac = fac[k:]
        for _ in range(rng.choice([0, 0, 1, 2])): out.insert(rng.randint(0, len(out)), 1)
        return out

    def g_reshape(self):
        rng = self.rng
        a = self.operand('bifc', shape_pred=lambda s: all(d > 0 for d in s))
        if a is None: return None
        if self.force == 'ravel' or (self.force is None and rng.random() < .15): return self.apply('ravel', {}, [a])
        k = rng.randint(0, a.ndim)
        ns = list(a.shape[:k]) + self.regroup(a.shape[k:]) if rng.random() < .5 else self.regroup(a.shape)
        inv = self.invalid()
        if inv and ns: ns[rng.randrange(len(ns))] += 1
        elif inv: ns = [2]
        if ns and rng.random() < .3: ns[rng.randrange(len(ns))] = -1
        if inv and ns.count(-1) == 1 and int(numpy.prod(a.shape, dtype=int)) % -int(numpy.prod(ns, dtype=int)) == 0: inv = False
        shape = ns[0] if len(ns) == 1 and rng.random() < .5 else ns
        return self.apply('reshape', {'shape': shape}, [a], 'invalid' if inv else 'valid')

    def g_transpose(self):
        rng = self.rng
        a = self.operand('bifc', shape_pred=lambda s: len(s) >= 1)
        if a is None: return None
        nd = a.ndim
        op = self.choose(['transpose', 'transpose', 'a.T', 'a.transpose', 'swapaxes', 'a.swapaxes'])
        if op == 'a.T': return self.apply(op, {}, [a])
        if 'swapaxes' in op:
            inv = self.invalid()
            a1, a2 = self.rand_axis(nd), self.rand_axis(nd)
            if inv: a2 = rng.choice([nd, -nd - 1])
            return self.apply(op, {'a1': a1, 'a2': a2}, [a], 'invalid' if inv else 'valid')
        if op == 'transpose' and rng.random() < .25: return self.apply(op, {}, [a])
        perm = list(range(nd)); rng.shuffle(perm)
        return self.apply(op, {'axes': perm}, [a])

    def g_broadcast(self):
        rng = self.rng
        a = self.operand('bifc')
        if a is None: return None
        if (self.force == 'repeat' or rng.random() < .3) and 1 in a.shape and self.force != 'broadcast_to':
            ax = rng.choice([i for i, d in enumerate(a.shape) if d == 1])
            return self.apply('repeat', {'n': rng.choice([1, 2, 3]), 'axis': ax - a.ndim if rng.random() < .4 else ax}, [a])
        inv = self.invalid()
        shape = [rng.choice([2, 3]) if d == 1 and rng.random() < .6 else d for d in a.shape]
        shape = [rng.choice([1, 2, 3]) for _ in range(rng.choice([0, 0, 1, 2]))] + shape
        if inv:
            c = [i for i, d in enumerate(a.shape) if d > 1]
            if c: shape[len(shape) - a.ndim + rng.choice(c)] += 1
            elif a.ndim: shape = shape[-a.ndim + 1:] if a.ndim > 1 else []
            else: inv = False
        return self.apply('broadcast_to', {'shape': shape}, [a], 'invalid' if inv else 'valid')

    def g_concat(self):
        rng = self.rng
        op = self.choose(['concatenate', 'stack'])
        a = self.operand('bifc', shape_pred=(lambda s: len(s) >= 1) if op == 'concatenate' else None)
        if a is None: return None
        inv = self.invalid()
        n = rng.choice([1, 2, 2, 3])
        nd = a.ndim
        P = {}
        if op == 'concatenate':
            ax = self.rand_axis(nd)
            if rng.random() < .8 or ax not in (0, -nd): P['axis'] = ax
            else: ax = 0
            axn = ax % nd
            others = []
            for _ in range(n - 1):
                s = list(a.shape); s[axn] = rng.choice([1, 2, 3])
                if inv and nd > 1: j = rng.choice([i for i in range(nd) if i != axn]); s[j] += 1
                elif inv: s = s + [1]
                others.append(self.operand('bifc', shape=tuple(s), allow_raw=True))
            if inv and n == 1: P['axis'] = rng.choice([nd, -nd - 1])
        else:
            ax = rng.randint(-nd - 1, nd)
            if rng.random() < .8 or ax != 0: P['axis'] = ax
            others = []
            for _ in range(n - 1):
                s = list(a.shape)
                if inv and nd: j = rng.randrange(nd); s[j] += 1
                elif inv: s = [2]
                others.append(self.operand('bifc', shape=tuple(s), allow_raw=True))
            if inv and n == 1: P['axis'] = rng.choice([nd + 1, -nd - 2])
        ops = [a] + others
        rng.shuffle(ops)
        return self.apply(op, P, ops, 'invalid' if inv else 'valid')

    def square_operand(self, kinds='bifc'):
        rng = self.rng
        def has_pair(s): return any(s[i] == s[j] for i in range(len(s)) for j in range(i + 1, len(s)))
        a = self.pick(lambda n: n.kind in kinds and has_pair(n.shape)) if rng.random() < .6 else None
        if a is None:
            n = rng.choice([2, 3]); extra = [rng.choice([1, 2, 3]) for _ in range(rng.choice([0, 0, 1]))]
            s = [n, n]; [s.insert(rng.randint(0, len(s)), e) for e in extra]
            a = self.fresh(tuple(s), rng.choice(kinds), styles=['arg', 'const'])
        return a

    def g_diag(self):
        rng = self.rng
        a = self.square_operand()
        s = a.shape
        pairs = [(i, j) for i in range(len(s)) for j in range(len(s)) if i != j and s[i] == s[j]]
        if not pairs: return None
        i, j = rng.choice(pairs); n = s[i]
        op = self.choose(['diagonal', 'trace'])
        if op == 'trace' and a.kind == 'b': return None
        if (i, j) == (0, 1) and rng.random() < .3: return self.apply(op + '-default', {}, [a])
        inv = self.invalid()
        off = rng.choice([0, 0, 1, -1, n - 1, -(n - 1), n, -n - 1])
        nd = len(s)
        a1 = i - nd if rng.random() < .3 else i; a2 = j - nd if rng.random() < .3 else j
        if inv: a2 = rng.choice([a1, i, nd, -nd - 1])
        return self.apply(op, {'offset': off, 'a1': a1, 'a2': a2}, [a], 'invalid' if inv else 'valid')

    def g_einsum(self):
        rng = self.rng
        a = self.operand('ifc', shape_pred=lambda s: 1 <= len(s) <= 3)
        if a is None: return None
        L = 'ijkl'; la = L[:a.ndim]
        dims = dict(zip(la, a.shape))
        r = rng.random(); inv = self.invalid()
        if r < .3:
            # single operand: permutation / reduction / (when square) diagonal
            sq = [(x, y) for x in la for y in la if x < y and dims[x] == dims[y]]
            if sq and rng.random() < .5:
                x, y = rng.choice(sq); la2 = la.replace(y, x); out = ''.join(sorted(set(la2))) if rng.random() < .5 else ''.join(c for c in sorted(set(la2)) if c != x)
                sub = la2 + '->' + out if rng.random() < .7 else la2
            else:
                keep = [c for c in la if rng.random() < .7]; rng.shuffle(keep)
                sub = la + '->' + ''.join(keep) if rng.random() < .7 else ''.join(rng.sample(la, len(la)))
            if rng.random() < .25 and a.ndim >= 2 and '->' in sub and sub.split('->')[1].startswith(la[0]) and sub.count(la[0]) == 2:
                sub = sub.replace(la[0], '...')
            return self.apply('einsum', {'sub': sub}, [a])
        # two operands
        shared = [c for c in la if rng.random() < .6]
        new = [c for c in L[a.ndim:a.ndim + rng.choice([0, 1, 1])]]
        lb = shared + new; rng.shuffle(lb)
        for c in new: dims[c] = rng.choice([1, 2, 3])
        sb = [dims[c] for c in lb]
        if inv and shared:
            c0 = rng.choice(shared); k = lb.index(c0)
            if dims[c0] > 1: sb[k] = dims[c0] + 1
            else: inv = False
        elif inv: inv = False
        b = self.operand('ifc', shape=tuple(sb), allow_raw=True)
        if b is None: return None
        lb = ''.join(lb)
        allc = sorted(set(la + lb))
        if rng.random() < .5:
            out = [c for c in allc if rng.random() < .6]; rng.shuffle(out); sub = '%s,%s->%s' % (la, lb, ''.join(out))
        else:
            sub = '%s,%s' % (la, lb)
        if rng.random() < .2 and a.ndim >= 1 and la[0] not in lb:
            sub = sub.replace(la[0], '...')
        ops = [a, b]
        if rng.random() < .2 and lb:
            c0 = rng.choice(lb); cc = self.operand('ifc', shape=(dims[c0],), allow_raw=True)
            if cc is not None and '...' not in sub:
                i_, o_ = (sub.split('->') + [None])[:2]
                sub = i_ + ',' + c0 + ('->' + o_ if o_ is not None else ''); ops.append(cc)
        return self.apply('einsum', {'sub': sub}, ops, 'invalid' if inv else 'valid')

    def g_dot(self):
        rng = self.rng
        op = self.choose(['dot', 'matmul', 'op@', 'vdot'])
        a = self.operand('ifc', shape_pred=(lambda s: len(s) >= 1) if op != 'dot' else None)
        if a is None: return None
        inv = self.invalid()
        if op == 'vdot':
            s = a.shape
            if inv:
                s = self.incompat_shape(a.shape)
                if s is None or len(s) != a.ndim: return None      # broadcastable mismatches are the known finding vdot:broadcasts-mismatched-shapes
            b = self.operand('ifc', shape=s, allow_raw=True)
            ops = [a, b] if rng.random() < .5 else [b, a]
            return self.apply('vdot', {}, ops, 'invalid' if inv else 'valid')
        if a.ndim == 0:
            b = self.operand('ifc', allow_raw=False)
            return self.apply(op, {}, [a, b])
        k = a.shape[-1]
        kb = k
        if inv:
            kb = k + 1
            if k == 1: kb = 1; inv = False              # 1 vs n is the known finding matmul:inner-dimension-broadcast
        m = rng.choice([1, 2, 3])
        r = rng.random()
        if r < .35: sb = (kb,)
        elif op == 'dot': sb = tuple(rng.choice([1, 2]) for _ in range(rng.choice([0, 0, 1]))) + (kb, m)
        else:
            batch = a.shape[:-2] if a.ndim > 2 else ()
            batch = tuple(d if rng.random() < .6 else 1 for d in batch[rng.randint(0, len(batch)):])
            if rng.random() < .15: batch = (rng.choice([2, 3]),) + batch if len(batch) == max(0, a.ndim - 2) else batch
            sb = batch + (kb, m)
        if kb == 1 and k != 1: return None
        b = self.operand('ifc', shape=sb, allow_raw=True)
        if b is None: return None
        if rng.random() < .3 and a.ndim >= 2 and len(sb) == 1 and not inv:
            # vector on the left
            sa = a.shape; b2 = self.operand('ifc', shape=(sa[-2],), allow_raw=True)
            if b2 is not None: return self.apply(op, {}, [b2, a])
        return self.apply(op, {}, [a, b], 'invalid' if inv else 'valid')

    def g_cross(self):
        rng = self.rng
        a = self.operand('f', shape_pred=lambda s: 3 in s)
        if a is None: return None
        ax = rng.choice([i for i, d in enumerate(a.shape) if d == 3])
        P = {}
        if ax != a.ndim - 1 or rng.random() < .3:
            P['kw'] = {'axis': ax - a.ndim if rng.random() < .5 else ax}
            b = self.operand('f', shape=a.shape)
        else:
            b = self.operand('f', shape=self.compat_shape(a.shape[:-1]) + (3,))
        return self.apply('cross', P, [a, b] if rng.random() < .5 else [b, a])

    def g_norm(self):
        rng = self.rng
        a = self.operand('ifc', shape_pred=lambda s: len(s) >= 1)
        if a is None: return None
        r = rng.random()
        if r < .3 and a.ndim <= 2: return self.apply('norm', {}, [a])
        if r < .75 or a.ndim < 2: return self.apply('norm', {'axis': self.rand_axis(a.ndim)}, [a])
        ax = rng.sample(range(a.ndim), 2)
        return self.apply('norm', {'axis': [x - a.ndim if rng.random() < .3 else x for x in ax]}, [a])

    def g_linalg(self):
        rng = self.rng
        op = self.choose(['det', 'inv', 'eigh', 'eig'])
        n = rng.choice([1, 2, 2, 3]); batch = tuple(rng.choice([1, 2]) for _ in range(rng.choice([0, 0, 1])))
        kind = rng.choice('ffc') if op in ('det', 'inv') else 'f'
        M = self.rand_values(kind, batch + (n, n), 'any') / 2 + numpy.eye(n) * rng.choice([2, 3, -3])
        if op in ('eigh',): M = (M + numpy.swapaxes(M, -1, -2)) / 2
        if op == 'eig': M = (M + numpy.swapaxes(M, -1, -2)) / 2 + numpy.diag(numpy.arange(n)) * 2.   # symmetric, distinct eigenvalues: real spectrum, stable order
        a = self.fresh(batch + (n, n), kind, styles=['arg', 'const'], values=M)
        if rng.random() < .4 and self.case.env.spaces:
            # make it point dependent: add a multiple of the identity that varies with the geometry
            g = self.pick(lambda m: m.ptdep and m.kind == 'f' and m.shape == () and m.all(lambda v: abs(v) <= 4))
            if g is not None:
                eye = self.fresh((n, n), 'f', styles=['const'], values=numpy.eye(n))
                sh = self.apply('op*', {}, [eye, g]); a2 = self.apply('op+', {}, [a, sh]) if sh is not None else None
                if a2 is not None and a2.all(lambda v: abs(numpy.linalg.det(v)) > .2): a = a2
        P = {'sel': rng.randrange(2)} if op in ('eigh', 'eig') else {}
        return self.apply(op, P, [a])

    def g_choose(self):
        rng = self.rng
        nch = rng.choice([2, 2, 3])
        base = self.operand('bifc')
        if base is None: return None
        # index: integer function array with values in [0, nch)
        src = self.pick(lambda m: m.kind == 'i' and m.depth <= 2) or self.fresh(self.compat_shape(base.shape), 'i', styles=['arg'])
        idx = self.apply('mod', {}, [src, self.fresh((), 'i', styles=['scalar'], values=nch)])
        if idx is None: return None
        try:
            bs = numpy.broadcast_shapes(idx.shape, base.shape)
        except ValueError:
            idx2 = self.fresh(self.compat_shape(base.shape), 'i', styles=['arg'], values=None)
            idx = self.apply('mod', {}, [idx2, self.fresh((), 'i', styles=['scalar'], values=nch)])
            if idx is None: return None
            bs = numpy.broadcast_shapes(idx.shape, base.shape)
        choices = [base] + [self.operand('bifc', shape=self.compat_shape(bs), allow_raw=True) for _ in range(nch - 1)]
        if any(c is None for c in choices): return None
        try: numpy.broadcast_shapes(idx.shape, *[c.shape for c in choices])
        except ValueError: return None
        rng.shuffle(choices)
        return self.apply(self.choose(['choose', 'a.choose']), {}, [idx] + choices)

    def g_search(self):
        rng = self.rng
        v = self.operand('if')
        if v is None: return None
        if self.force == 'searchsorted' or (self.force != 'interp' and rng.random() < .5):
            n = rng.randint(1, 5)
            a = sorted(rng.choice([k / 4 for k in range(-8, 9)]) for _ in range(n))
            if rng.random() < .3: a = [int(round(x)) for x in a]; a.sort()
            P = {'a': a}
            kw = {}
            if rng.random() < .5: kw['side'] = rng.choice(['left', 'right'])
            if rng.random() < .25:
                perm = list(range(n)); rng.shuffle(perm)
                un = [None] * n
                for pos, j in enumerate(perm): un[j] = a[pos]
                P['a'] = un; kw['sorter'] = perm
            if kw: P['kw'] = kw
            return self.apply('searchsorted', P, [v])
        if not v.all(numpy.isfinite): return None      # excluded: numpy.interp at x = +-inf (nutils: fp[-1] + 0*inf = nan)
        n = rng.randint(2, 5)
        grid = [k / 4 + 1 / 8 for k in range(-9, 9)] if rng.random() < .5 or not v.exact else [k / 4 for k in range(-8, 9)]     # nodes between or ON the data grid
        xp = sorted(set(rng.choice(grid) for _ in range(n)))
        force_right = False
        if v.exact and rng.random() < .35:
            # make the LAST node coincide with an actual value of x: NumPy returns fp[-1] there, `right` only beyond it
            xv = float(numpy.asarray(rng.choice(v.vals)).ravel()[0]) if numpy.asarray(v.vals[0]).size else None
            if xv is not None and abs(xv) < 100:
                xp = sorted({xv - d for d in rng.sample([.25, .5, 1., 1.5, 2.25], rng.randint(1, 3))} | {xv}); force_right = True
        if len(xp) < 2: return None
        fp = [rng.choice([k / 4 for k in range(-8, 9)]) for _ in xp]
        P = {'xp': xp, 'fp': fp}
        kw = {}
        if rng.random() < .3 and v.all(lambda x: x != xp[0]): kw['left'] = rng.choice([-1., 5.])
        if force_right or rng.random() < .3: kw['right'] = rng.choice([-2., 7.])
        if kw: P['kw'] = kw
        return self.apply('interp', P, [v])

    def g_misc(self):
        rng = self.rng
        r = 1. if self.force and self.force.startswith('meta:') else rng.random()
        if r < .35:
            a = self.operand('bif')
            if a is None: return None
            k = rng.choice([x for x in 'bifc' if RANK[x] >= RANK[a.kind]])
            return self.apply('astype', {'kind': k}, [a])
        if r < .55:
            a = self.operand('bifc', shape_pred=lambda s: len(s) >= 1 and s[0] <= 3)
            if a is None: return None
            return self.apply('iter-stack', {}, [a])
        if r < .8:
            a = self.operand('bifc')
            if a is None: return None
            others = [self.operand('bif' if a.kind != 'c' else 'bifc', shape=a.shape, allow_raw=True) for _ in range(rng.choice([1, 2]))]
            ops = [a] + others; rng.shuffle(ops)
            return self.apply('cast-list', {}, ops)
        a = self.operand('bifc')
        if a is None: return None
        what = self.force.split(':')[1] if self.force and self.force.startswith('meta:') else rng.choice(['shape', 'ndim', 'size', 'len'] if a.ndim else ['shape', 'ndim', 'size'])
        want = OPS['meta']({'what': what}, a.v0); got = OPS['meta']({'what': what}, a.fa)
        ok = (tuple(got) == tuple(want)) if what == 'shape' else (int(got) == int(want))
        self.events.append(('meta-ok' if ok else 'meta-wrong', 'meta:' + what, dict(op='meta', P={'what': what}, args=[a.id], got=repr(got), want=repr(want))))
        return None

    FAMILIES = [('binary', 20), ('unary', 10), ('power', 3), ('powchain', 3), ('intbounds', 3), ('reduce', 12), ('getitem', 14), ('take', 5), ('compress', 2), ('reshape', 8), ('transpose', 7),
                ('broadcast', 4), ('concat', 8), ('diag', 4), ('einsum', 7), ('dot', 8), ('cross', 2), ('norm', 3), ('linalg', 3), ('choose', 3), ('search', 4), ('misc', 4)]

    def step(self):
        fam = self.rng.choices([f for f, _ in self.FAMILIES], weights=[w for _, w in self.FAMILIES])[0]
        return fam, getattr(self, 'g_' + fam)()


def _np_item(it):
    t = it[0]
    if t == 'i': return it[1]
    if t == 's': return slice(it[1], it[2], it[3])
    if t == 'e': return Ellipsis
    if t == 'n': return None
    return numpy.array(it[1], dtype=int)
