"""C09 — integration is exact quadrature of point evaluation.

Ties
  (X) the Gauss triangle / tetrahedron tables are re-extracted from `nutils/points.py` with `ast` on every run
      (decimal literals kept as exact rationals), written to lean/NutilsVerif/Generated/C09.lean and re-proved
      (`gauss_triangle_tables`, `gauss_tet_tables`: exact to the claimed degree within 2e-15, points inside, weights sum
      to the volume); the extracted rationals are compared with the floats `gauss2/gauss3` really return.
  (M) random nestings of real `Sample` constructions (scheme samples on line / rectilinear / simplex / mixed /
      hierarchical / trimmed / union / product topologies, `Sample.new` with custom points and custom index,
      `_sample` (locate), `+`, `*`, `take_elements`, `zip`) are translated class by class to the Lean `SampleExpr`
      model and compared for nelems / npoints / getindex / smart constructors / which nestings are evaluable;
      real `TensorPoints`, `TransformPoints`, `ConcatPoints` (with duplicates) on integer weights vs the Lean rules.
  oracle (specification, independent of the model): real `getindex` lists partition range(npoints); real
      `integrate(f)` equals the sum over elements and points of (semantic) weight x real `eval(f)` at the advertised
      index; real `eval(F)[getindex(i)[k]]` equals the value of F at point k of element i evaluated on the leaf sample
      directly; exact rational integration of monomials by every rule of every reference kind, for scalar degrees and for
      degrees per direction (tuples: tensor factors, simplices, cut cells = mosaics / children that are mosaics).
"""
import numpy, ast, math, itertools, warnings, os, sys, functools
from fractions import Fraction
from decimal import Decimal
from .common import Infra

KNOWN_SIG = 'sample-nesting-notimplemented:evaluable-over-sum'
EMPTY_MUL_SIG = 'mul-bind-empty-factor:AssertionError'
TRANSPOSE_SIG = 'sample-eval-raises:ValueError:repeated-axis-in-transpose'
EPS_TABLE = Fraction(1, 10**13)      # failing-input threshold for the exact-rational monomial oracle on float rules


# =====================================================================================================
# (X) extraction of the simplex Gauss tables
# =====================================================================================================

def frac_of(node, src):
    if isinstance(node, ast.Constant):
        if isinstance(node.value, bool): raise ValueError('bool literal')
        if isinstance(node.value, int): return Fraction(node.value)
        if isinstance(node.value, float): return Fraction(Decimal(ast.get_source_segment(src, node).replace('_', '')))
        raise ValueError('unsupported constant')
    if isinstance(node, ast.UnaryOp) and isinstance(node.op, ast.USub): return -frac_of(node.operand, src)
    if isinstance(node, ast.UnaryOp) and isinstance(node.op, ast.UAdd): return frac_of(node.operand, src)
    if isinstance(node, ast.BinOp):
        a, b = frac_of(node.left, src), frac_of(node.right, src)
        if isinstance(node.op, ast.Div): return a / b
        if isinstance(node.op, ast.Mult): return a * b
        if isinstance(node.op, ast.Add): return a + b
        if isinstance(node.op, ast.Sub): return a - b
    raise ValueError('unsupported expression ' + ast.dump(node)[:80])


def extract_tables(src, fname, ndims):
    """[(op, k, [(coords, weight)])] per branch of the `icw = ... if degree <= 1 else ...` chain of gauss2/gauss3"""
    tree = ast.parse(src)
    fn = next(n for n in tree.body if isinstance(n, ast.FunctionDef) and n.name == fname)
    pats = {}; icw = None; ret = None
    for st in fn.body:
        if isinstance(st, ast.Assign) and len(st.targets) == 1 and isinstance(st.targets[0], ast.Name):
            name = st.targets[0].id
            if name == 'icw': icw = st.value
            else: pats[name] = [list(r) for r in ast.literal_eval(st.value)]
        if isinstance(st, ast.Return): ret = st.value
    divs = [n for n in ast.walk(ret) if isinstance(n, ast.BinOp) and isinstance(n.op, ast.Div) and isinstance(n.left, ast.Name) and n.left.id == 'w']
    if len(divs) != 1: raise ValueError('weight divisor not found')
    D = frac_of(divs[0].right, src)
    takes = [n for n in ast.walk(ret) if isinstance(n, ast.Call) and isinstance(n.func, ast.Attribute) and n.func.attr == 'take']
    if len(takes) != 1 or [getattr(a, 'id', None) for a in takes[0].args] != ['c', 'i']: raise ValueError('take(c, i) not found')

    def entries(lst):
        pts = []
        if not isinstance(lst, ast.List): raise ValueError('table is not a list')
        for tup in lst.elts:
            if not (isinstance(tup, ast.Tuple) and len(tup.elts) == 3): raise ValueError('table entry is not a triple')
            pat = pats[tup.elts[0].id]
            c = [frac_of(e, src) for e in tup.elts[1].elts]
            w = frac_of(tup.elts[2], src) / D
            for row in pat:
                if len(row) != ndims: raise ValueError('index pattern of wrong length')
                pts.append(([c[k] for k in row], w))
        return pts
    tables = []
    node = icw
    while isinstance(node, ast.IfExp):
        t = node.test
        if not (isinstance(t, ast.Compare) and getattr(t.left, 'id', None) == 'degree' and len(t.ops) == 1): raise ValueError('unexpected test')
        op = type(t.ops[0]).__name__
        if op not in ('LtE', 'Eq'): raise ValueError('unexpected comparison')
        tables.append((op, t.comparators[0].value, entries(node.body)))
        node = node.orelse
    tables.append(('else', None, entries(node)))
    return tables


def claimed_degrees(tables):
    out = []; prev = 0
    for op, k, pts in tables:
        deg = k if k is not None else prev + 1
        prev = deg
        out.append(deg)
    return out


def branch_for(tables, degree):
    for n, (op, k, pts) in enumerate(tables):
        if (op == 'LtE' and degree <= k) or (op == 'Eq' and degree == k) or op == 'else':
            return n


def int_table(pts):
    dx = math.lcm(*[x.denominator for p, w in pts for x in p])
    dw = math.lcm(*[w.denominator for p, w in pts])
    return dx, dw, [([int(x * dx) for x in p], int(w * dw)) for p, w in pts]


def lean_tables(alltables):
    out = ['/-! GENERATED by harness/nvh/c09.py from src/nutils/points.py (gauss2, gauss3) -- do not edit.',
           'An entry is `(claimed degree, denX, denW, [(coordinate numerators, weight numerator)])`: every coordinate is the exact',
           'rational value `numerator/denX` and every weight `numerator/denW` of the decimal literal expression in the source. -/',
           'namespace NutilsVerif.C09.Gen', '']
    for name, T in alltables:
        rows = []
        for deg, (op, k, pts) in zip(claimed_degrees(T), T):
            dx, dw, ip = int_table(pts)
            rows.append('  (%d, %d, %d, [%s])' % (deg, dx, dw, ',\n    '.join('([%s], %d)' % (', '.join(map(str, x)), w) for x, w in ip)))
        out.append('def %s : List (Nat × Nat × Nat × List (List Int × Int)) := [\n%s]\n' % (name, ',\n'.join(rows)))
    out.append('end NutilsVerif.C09.Gen\n')
    return '\n'.join(out)


def exact_monomial(e):
    return Fraction(math.prod(math.factorial(a) for a in e), math.factorial(sum(e) + len(e)))


def monomials(dim, deg):
    return [e for e in itertools.product(range(deg + 1), repeat=dim) if sum(e) <= deg]


def rule_monomial(coords, weights, e):
    """exact rational value of sum w x^e for float (or Fraction) coords / weights"""
    s = Fraction(0)
    for p, w in zip(coords, weights):
        t = Fraction(w)
        for x, a in zip(p, e):
            if a: t *= Fraction(x) ** a
        s += t
    return s


# =====================================================================================================
# exact polynomial integration over references (oracle for stream "rules")
# =====================================================================================================

def ffrac(a):
    return [[Fraction(float(x)) for x in row] for row in numpy.asarray(a, dtype=float)]


def monomial_affine_integral(verts, e):
    """exact integral of x^e over the simplex with Fraction vertices `verts` (n+1 rows of n coordinates)"""
    n = len(verts) - 1
    o = verts[0]
    A = [[verts[j + 1][i] - o[i] for j in range(n)] for i in range(n)]   # x_i = o_i + sum_j A_ij xi_j
    # polynomial in xi as dict exponent-tuple -> coefficient
    poly = {(0,) * n: Fraction(1)}
    for i, a in enumerate(e):
        lin = {(0,) * n: o[i]}
        for j in range(n):
            if A[i][j]: lin[tuple(1 if t == j else 0 for t in range(n))] = A[i][j]
        for _ in range(a):
            new = {}
            for k1, c1 in poly.items():
                for k2, c2 in lin.items():
                    k = tuple(x + y for x, y in zip(k1, k2))
                    new[k] = new.get(k, 0) + c1 * c2
            poly = new
    det = det_frac(A)
    return abs(det) * sum(c * exact_monomial(k) for k, c in poly.items() if c)


def det_frac(A):
    n = len(A)
    if n == 0: return Fraction(1)
    if n == 1: return A[0][0]
    if n == 2: return A[0][0] * A[1][1] - A[0][1] * A[1][0]
    return sum((-1) ** j * A[0][j] * det_frac([row[:j] + row[j + 1:] for row in A[1:]]) for j in range(n))


def ref_simplices(ref):
    """list of simplices (each a list of Fraction vertices) tiling the reference, from vertices/simplices only"""
    V = ffrac(ref.vertices)
    return [[V[i] for i in simplex] for simplex in numpy.asarray(ref.simplices)]


def shape_of(ref):
    """independent description of the point set of a reference: list of simplices with Fraction vertices"""
    from nutils import element
    if isinstance(ref, element.WithChildrenReference):
        out = []
        for trans, child in ref.children:
            if not child: continue
            for simplex in shape_of(child):
                out.append([[Fraction(float(x)) for x in trans.apply(numpy.array([float(v) for v in vert]))] for vert in simplex])
        return out
    if isinstance(ref, element.OwnChildReference):
        return shape_of(ref.baseref)
    return ref_simplices(ref)


def inside_shape(simplices, p, slack=Fraction(1, 10**12)):
    """point (Fractions) inside at least one simplex (barycentric coordinates >= -slack)"""
    for S in simplices:
        n = len(S) - 1
        o = S[0]
        A = [[S[j + 1][i] - o[i] for j in range(n)] for i in range(n)]
        d = det_frac(A)
        if d == 0: continue
        lam = []
        for j in range(n):   # Cramer
            Aj = [[(p[i] - o[i]) if t == j else A[i][t] for t in range(n)] for i in range(n)]
            lam.append(det_frac(Aj) / d)
        if all(l >= -slack for l in lam) and sum(lam) <= 1 + slack:
            return True
    return False


# =====================================================================================================
# spaces, leaves, random sample constructions
# =====================================================================================================

class Space:
    def __init__(self, name, topo, geom, kind, base=None):
        from nutils import function
        self.name = name; self.topo = topo; self.geom = geom; self.kind = kind
        self.ndims = topo.ndims
        self.base = base if base is not None else topo
        self.eidx = function.transforms_index(name, self.base.transforms)
        self.coeffs = None

    def funcs(self):
        """[element index, x_0, ..]: identify a point of this space"""
        return [self.eidx] + [self.geom[i] for i in range(self.ndims)]

    def integrand(self, rng):
        if self.coeffs is None:
            self.coeffs = [rng.randint(1, 3), rng.randint(-2, 2)] + [rng.randint(-2, 3) for _ in range(self.ndims)]
        c = self.coeffs
        g = c[0] + c[1] * self.eidx
        for i in range(self.ndims):
            g = g + c[2 + i] * self.geom[i]
        return g


def kuhn_simplices(n):
    """Kuhn triangulation of the unit n-cube: sorted vertex numbers (binary coordinates)"""
    out = []
    for perm in itertools.permutations(range(n)):
        v = 0; s = [0]
        for ax in perm:
            v |= 1 << ax; s.append(v)
        out.append(s)
    coords = numpy.array([[(v >> ax) & 1 for ax in range(n)] for v in range(2 ** n)], dtype=float)
    return numpy.array(sorted(out)), coords


def make_space(rng, name, kind):
    from nutils import mesh, function, topology
    if kind == 'line':
        topo, x = mesh.line(rng.randint(1, 4), space=name)
        return Space(name, topo, x[numpy.newaxis], kind)
    if kind == 'rect':
        topo, x = mesh.rectilinear([rng.randint(1, 3), rng.randint(1, 2)], space=name)
        return Space(name, topo, x, kind)
    if kind == 'cube':
        topo, x = mesh.rectilinear([rng.randint(1, 2), 1, 1], space=name)
        return Space(name, topo, x, kind)
    if kind in ('tri', 'tet'):
        n = 2 if kind == 'tri' else 3
        nodes, coords = kuhn_simplices(n)
        keep = sorted(rng.sample(range(len(nodes)), rng.randint(1, len(nodes))))
        nodes = nodes[keep]
        used = sorted(set(nodes.ravel()))
        renum = {v: i for i, v in enumerate(used)}
        nodes = numpy.array([[renum[v] for v in row] for row in nodes])
        coords = coords[used] * rng.choice([1., 2., .5])
        with warnings.catch_warnings():
            warnings.simplefilter('ignore')
            topo, x = mesh.simplex(nodes=nodes, cnodes=nodes, coords=coords, tags={}, btags={}, ptags={}, space=name)
        return Space(name, topo, x, kind)
    if kind == 'mixed':
        topo, x = mesh.unitsquare(2, 'mixed')
        if name != 'X':
            topo = topo.rename_spaces({'X': name}) if hasattr(topo, 'rename_spaces') else topo
        return Space(topo.spaces[0], topo, x, kind)
    if kind == 'hier':
        base, x = mesh.rectilinear([rng.randint(1, 2), rng.randint(1, 2)], space=name)
        topo = base.refined_by(sorted(rng.sample(range(len(base)), rng.randint(1, len(base)))))
        if rng.random() < .4:
            topo = topo.refined_by(sorted(rng.sample(range(len(topo)), rng.randint(1, 2))))
        return Space(name, topo, x, kind, base=base)
    if kind == 'trim':
        base, x = mesh.rectilinear([2, rng.randint(1, 2)], space=name)
        a, b = rng.choice([(1, 1), (1, -1), (2, 1), (1, 0), (1, 2)])
        cut = rng.choice([.5, .75, 1.25, 1.5, 1.])
        topo = base.trim(a * x[0] + b * x[1] - cut, maxrefine=rng.choice([0, 1, 1, 2]))
        if len(topo) == 0:
            topo = base
        return Space(name, topo, x, kind, base=base)
    raise ValueError(kind)


def dyadic_point(rng, ref_kind_dims, simplex):
    n = ref_kind_dims
    if simplex:
        while True:
            p = [rng.randint(0, 8) for _ in range(n)]
            if sum(p) <= 8: return [v / 8 for v in p]
    return [rng.randint(0, 8) / 8 for _ in range(n)]


def is_simplex_ref(ref):
    from nutils import element
    return isinstance(ref, element.SimplexReference) and ref.ndims >= 2


class Gen:
    """random real Sample constructions; keeps the pairs (operation, operands, result) for the smart-constructor checks"""

    def __init__(self, c, rng):
        self.c = c; self.rng = rng; self.ops = []

    def scheme_sample(self, sp, topo):
        rng = self.rng
        r = rng.random()
        if r < .5 or (sp.kind == 'tet' and r < .8): scheme, degree = 'gauss', rng.randint(0, 6 if sp.kind != 'tet' else 5)
        elif r < .8: scheme, degree = 'uniform', rng.choice([1, 2, 2, 4] if sp.kind in ('line', 'rect', 'cube', 'hier') else [1, 2, 3])
        else: scheme, degree = 'bezier', rng.choice([2, 2, 3])
        self.c.count('leaf:' + scheme)
        with warnings.catch_warnings():
            warnings.simplefilter('ignore')
            return topo.sample(scheme, degree)

    def subtopo(self, sp):
        rng = self.rng
        n = len(sp.topo)
        if n > 1 and rng.random() < .5:
            ind = sorted(rng.sample(range(n), rng.randint(1, n)))
            return ind
        return list(range(n))

    def custom_leaf(self, sp, weighted=True, npoints=None):
        """Sample.new with explicit points (dyadic coordinates, integer weights), optionally a custom index"""
        from nutils import points, types
        from nutils.sample import Sample
        from nutils.pointsseq import PointsSequence
        rng = self.rng
        topo = sp.topo
        n = len(topo)
        if npoints is None:
            ind = rng.sample(range(n), rng.randint(1, min(n, 3))) if rng.random() < .7 else sorted(rng.sample(range(n), rng.randint(1, n)))
            counts = [rng.choice([0, 1, 1, 2, 3]) for _ in ind]
            if sum(counts) == 0: counts[0] = 1
        else:
            ind = rng.sample(range(n), rng.randint(1, max(1, min(3, npoints, n))))
            cuts = sorted(rng.randint(0, npoints) for _ in range(len(ind) - 1))
            counts = [b - a for a, b in zip([0] + cuts, cuts + [npoints])]
        P = []
        for e, m in zip(ind, counts):
            ref = topo.references[e]
            coords = numpy.array([self.ref_point(ref) for _ in range(m)], dtype=float).reshape(m, sp.ndims)
            if weighted:
                P.append(points.CoordsWeightsPoints(types.arraydata(coords), types.arraydata(numpy.array([rng.randint(1, 8) for _ in range(m)], dtype=float))))
            else:
                P.append(points.CoordsPoints(types.arraydata(coords)))
        seq = PointsSequence.from_iter(P, sp.ndims)
        transforms = topo.transforms[numpy.array(ind)]
        index = None
        if rng.random() < .6:
            perm = list(range(sum(counts))); rng.shuffle(perm)
            index = numpy.array(perm)
            if rng.random() < .5:
                offs = numpy.cumsum([0] + counts)
                index = [index[a:b] for a, b in zip(offs[:-1], offs[1:])]
        self.c.count('leaf:custom' + ('-index' if index is not None else ''))
        return Sample.new(sp.name, (transforms,), seq, index)

    def ref_point(self, ref):
        """a dyadic point of the reference element (inside its bounding simplex / box; for trimmed elements of the base)"""
        from nutils import element
        rng = self.rng
        while isinstance(ref, (element.WithChildrenReference, element.MosaicReference, element.OwnChildReference)):
            ref = ref.baseref
        if isinstance(ref, element.TensorReference):
            return self.ref_point(ref.ref1) + self.ref_point(ref.ref2)
        n = ref.ndims
        if n == 0: return []
        while True:
            p = [rng.randint(0, 8) for _ in range(n)]
            if sum(p) <= 8 or n == 1: return [v / 8 for v in p]

    def located(self, sp, npoints, weighted):
        """Topology._sample (the back end of locate): points given by element number and local coordinate"""
        rng = self.rng
        topo = sp.topo
        ielems = numpy.array([rng.randrange(len(topo)) for _ in range(npoints)])
        coords = numpy.array([self.ref_point(topo.references[e]) for e in ielems], dtype=float).reshape(npoints, sp.ndims)
        weights = numpy.array([rng.randint(1, 8) for _ in range(npoints)], dtype=float) if weighted else None
        self.c.count('leaf:located')
        return topo._sample(ielems, coords, weights)

    def single(self, sp, depth):
        rng = self.rng
        r = rng.random()
        if depth <= 0 or r < .35:
            ind = self.subtopo(sp)
            if len(ind) == len(sp.topo): return self.scheme_sample(sp, sp.topo)
            r2 = rng.random()
            if r2 < .5:
                try:
                    sub = sp.topo.take(ind)
                except Exception:
                    sub = None
                if sub is not None and len(sub):
                    self.c.count('via:topology.take')
                    return self.scheme_sample(sp, sub)
            s = self.scheme_sample(sp, sp.topo)
            return self.take(s, ind)
        if r < .5:
            return self.custom_leaf(sp)
        if r < .58:
            return self.located(sp, rng.randint(1, 5), True)
        if r < .8:
            a = self.single(sp, depth - 1); b = self.single(sp, depth - 1)
            return self.add(a, b)
        s = self.single(sp, depth - 1)
        if s.nelems == 0: return s
        k = rng.randint(0, min(4, s.nelems + 1))
        ind = [rng.randrange(s.nelems) for _ in range(k)]
        if rng.random() < .5: ind = sorted(set(ind))
        return self.take(s, ind)

    def add(self, a, b):
        r = a + b
        self.ops.append(('add', a, b, r)); self.c.count('op:add')
        return r

    def take(self, s, ind):
        r = s.take_elements(numpy.array(ind, dtype=int))
        self.ops.append(('take', s, list(ind), r)); self.c.count('op:take')
        return r

    def multi(self, spaces, depth):
        rng = self.rng
        if len(spaces) == 1:
            return self.single(spaces[0], depth)
        r = rng.random()
        k = rng.randint(1, len(spaces) - 1)
        A, B = spaces[:k], spaces[k:]
        if r < .5 or depth <= 0:
            self.c.count('op:mul')
            return self.multi(A, depth - 1) * self.multi(B, depth - 1)
        if r < .8:
            a = self.multi(A, depth - 1)
            if a.npoints == 0 or a.npoints > 40:
                self.c.count('op:mul')
                return a * self.multi(B, depth - 1)
            others = []
            for sp in B:
                others.append(self.located(sp, a.npoints, rng.random() < .5) if rng.random() < .6 else self.custom_leaf(sp, weighted=rng.random() < .5, npoints=a.npoints))
            self.c.count('op:zip%d' % (1 + len(others)))
            if rng.random() < .25 and len(others) == 1:
                return others[0].zip(a)    # the other sample provides the weights
            return a.zip(*others)
        s = self.multi(spaces, depth - 1)
        if s.nelems == 0: return s
        ind = [rng.randrange(s.nelems) for _ in range(rng.randint(0, min(5, s.nelems + 1)))]
        if rng.random() < .5: ind = sorted(set(ind))
        return self.take(s, ind)


# =====================================================================================================
# translation of a real sample to the model expression + semantic (specification) functions in Python
# =====================================================================================================

class Tree:
    """class-by-class view of a real Sample object"""

    def __init__(self):
        self.leaves = []       # tag -> real _DefaultIndex object
        self.leafid = {}

    def node(self, s):
        from nutils import sample as S
        t = type(s)
        if t is S._DefaultIndex:
            key = id(s)
            if key not in self.leafid:
                self.leafid[key] = len(self.leaves); self.leaves.append(s)
            return ('D', self.leafid[key], [int(p.npoints) for p in s.points], s)
        if t is S._CustomIndex: return ('C', self.node(s._parent), [int(i) for i in numpy.asarray(s._index)], s)
        if t is S._Add: return ('A', self.node(s._sample1), self.node(s._sample2), s)
        if t is S._Mul: return ('M', self.node(s._sample1), self.node(s._sample2), s)
        if t is S._TakeElements: return ('T', self.node(s._parent), [int(i) for i in numpy.asarray(s._indices)], s)
        if t is S._Zip:
            n = self.node(s._samples[0])
            for k, other in enumerate(s._samples[1:]):
                real = s if k == len(s._samples) - 2 else None
                n = ('Z', n, self.node(other), real, s._samples[:k + 2])
            return n
        if t is S._Empty: return ('E', s)
        raise Infra('unknown Sample class %s' % t.__name__)


def expr_str(n):
    k = n[0]
    if k == 'E': return 'E'
    if k == 'D': return ('D %d %d %s' % (n[1], len(n[2]), ' '.join(map(str, n[2])))).strip()
    if k in 'CT': return ('%s %s %d %s' % (k, expr_str(n[1]), len(n[2]), ' '.join(map(str, n[2])))).strip()
    return '%s %s %s' % (k, expr_str(n[1]), expr_str(n[2]))


def contains(n, kind):
    if n[0] == kind: return True
    if n[0] in 'CT': return contains(n[1], kind)
    if n[0] in 'AMZ': return contains(n[1], kind) or contains(n[2], kind)
    return False


class SpecViolation(Exception):
    def __init__(self, sig, what, detail):
        self.sig = sig; self.what = what; self.detail = detail


class Spec:
    """semantic definition of the elements of a (real) sample tree: for element i the list of
    (point = tuple of leaf points, weight = tuple of leaf points whose weights multiply).
    Only the *real* nelems/getindex of sub-samples are used for positions (never the model)."""

    def __init__(self):
        self.cache = {}

    def nelems(self, n):
        k = n[0]
        if k == 'E': return 0
        if k == 'D': return len(n[2])
        if k == 'C': return self.nelems(n[1])
        if k == 'A': return self.nelems(n[1]) + self.nelems(n[2])
        if k == 'M': return self.nelems(n[1]) * self.nelems(n[2])
        if k == 'T': return len(n[2])
        if k == 'Z': return len(self.zipgroups(n))

    def index(self, n, i):
        """semantic index list of element i: positions in the evaluation order"""
        key = ('i', id(n), i)
        if key not in self.cache:
            self.cache[key] = self._index(n, i)
        return self.cache[key]

    def npoints(self, n):
        k = n[0]
        if k == 'E': return 0
        if k == 'D': return sum(n[2])
        if k == 'C': return self.npoints(n[1])
        if k == 'A': return self.npoints(n[1]) + self.npoints(n[2])
        if k == 'M': return self.npoints(n[1]) * self.npoints(n[2])
        if k == 'T': return sum(len(self.index(n[1], j)) for j in n[2])
        if k == 'Z': return self.npoints(n[1])

    def _index(self, n, i):
        k = n[0]
        if k == 'D':
            o = sum(n[2][:i]); return list(range(o, o + n[2][i]))
        if k == 'C': return [n[2][j] for j in self.index(n[1], i)]
        if k == 'A':
            n1 = self.nelems(n[1])
            return self.index(n[1], i) if i < n1 else [j + self.npoints(n[1]) for j in self.index(n[2], i - n1)]
        if k == 'M':
            e1, e2 = divmod(i, self.nelems(n[2])); m = self.npoints(n[2])
            return [p * m + q for p in self.index(n[1], e1) for q in self.index(n[2], e2)]
        if k == 'T':
            o = sum(len(self.index(n[1], j)) for j in n[2][:i])
            return list(range(o, o + len(self.index(n[1], n[2][i]))))
        if k == 'Z':
            return self.zipgroups(n)[i][1]

    def where(self, n):
        """position -> (element, local) of a sample"""
        key = ('w', id(n))
        if key not in self.cache:
            w = {}
            for e in range(self.nelems(n)):
                for kk, p in enumerate(self.index(n, e)):
                    w[p] = (e, kk)
            self.cache[key] = w
        return self.cache[key]

    def zipgroups(self, n):
        """elements of a zip: the points grouped by the pair of elements they lie in, groups sorted by that pair.
        The order of the points inside a group is not specified (numpy.argsort in _Zip is not stable): the order
        the real object advertises through getindex is taken (after checking that it lists the same points)."""
        key = ('z', id(n))
        if key not in self.cache:
            wa, wb = self.where(n[1]), self.where(n[2])
            groups = {}
            for p in range(self.npoints(n[1])):
                groups.setdefault((wa[p][0], wb[p][0]), []).append(p)
            groups = sorted(groups.items())
            real = n[3]
            if real is not None:
                ridx = [[int(j) for j in real.getindex(i)] for i in range(real.nelems)]
                if [sorted(l) for l in ridx] != [g for k, g in groups]:
                    raise SpecViolation('zip-groups-wrong', 'the elements of a zipped sample are not the groups of points with equal element pairs', dict(real=ridx, want=[g for k, g in groups]))
                groups = [(k, l) for (k, g), l in zip(groups, ridx)]
            self.cache[key] = groups
        return self.cache[key]

    def elem(self, n, i):
        key = ('e', id(n), i)
        if key not in self.cache:
            self.cache[key] = self._elem(n, i)
        return self.cache[key]

    def _elem(self, n, i):
        k = n[0]
        if k == 'D': return [(((n[1], i, kk),), ((n[1], i, kk),)) for kk in range(n[2][i])]
        if k == 'C': return self.elem(n[1], i)
        if k == 'A':
            n1 = self.nelems(n[1])
            return self.elem(n[1], i) if i < n1 else self.elem(n[2], i - n1)
        if k == 'M':
            e1, e2 = divmod(i, self.nelems(n[2]))
            return [(pa + pb, wa + wb) for pa, wa in self.elem(n[1], e1) for pb, wb in self.elem(n[2], e2)]
        if k == 'T': return self.elem(n[1], n[2][i])
        if k == 'Z':
            wa, wb = self.where(n[1]), self.where(n[2])
            out = []
            for p in self.zipgroups(n)[i][1]:
                (ea, ka), (eb, kb) = wa[p], wb[p]
                pa, w = self.elem(n[1], ea)[ka]
                pb, _ = self.elem(n[2], eb)[kb]
                out.append((pa + pb, w))
            return out


def has_lower_py(n):
    k = n[0]
    if k in 'DCE': return True
    if k == 'A': return False
    if k == 'T': return has_lower_py(n[1])
    return has_lower_py(n[1]) and has_lower_py(n[2])


def can_integrate_py(n):
    """mirror of the model's `canIntegrate`, used only for cases too large for the interpreted model"""
    k = n[0]
    if k in 'AM': return can_integrate_py(n[1]) and can_integrate_py(n[2])
    if k == 'T': return has_lower_py(n[1])
    if k == 'Z': return has_lower_py(n[1]) and has_lower_py(n[2])
    return True


def has_empty_product(n, spec):
    """some product node has no points"""
    k = n[0]
    if k == 'M' and spec.npoints(n) == 0: return True
    if k in 'CT': return has_empty_product(n[1], spec)
    if k in 'AMZ': return has_empty_product(n[1], spec) or has_empty_product(n[2], spec)
    return False


def ints(a):
    return ' '.join(str(int(x)) for x in a)


def fmt_pt(pt):
    return '+'.join('%d:%d:%d' % lp for lp in pt)


# =====================================================================================================
# the check
# =====================================================================================================

def run(c):
    import nutils
    from nutils import points as npoints_mod
    c.rule = ('sample expressions: random nestings (depth <= 4, <= 3 spaces) of scheme samples (gauss/uniform/bezier) on line, rectilinear, '
              'simplex (Kuhn), mixed, hierarchical, trimmed (mosaic / with-children) topologies, explicit-point leaves with custom index, '
              'located points, sums, products, element subsets (unsorted, repeated, empty), n-ary zips; a case is non-trivial when it has '
              'at least two class levels or a custom index; distinct by its model expression. rules: every scheme/degree on every '
              'reference kind incl. tensor, refined children, trimmed mosaics; all extracted Gauss tables. rules-tuple: degrees per direction (tuples) on every reference of '
              'dimension >= 2 plus references cut directly by Reference.trim, Gauss exactness per direction; topology integrals with tuple degrees in the three API spellings')
    c.assumptions += [
        'numpy float arithmetic is exact on the dyadic data fed to the exact streams; Gauss points are compared with tolerance 1e-12',
        'the 1-D Gauss nodes come from a floating-point eigen-solve (numpy.linalg.eigh): exactness is checked numerically only (exploration)',
        'n-ary zip is modelled as left-nested binary zip; numpy.argsort inside _Zip is not stable for long arrays: index lists of zipped samples are compared as sets when the order differs',
        'transform chains (.apply) and geometry evaluation are trusted to the extent other properties (C08, C11) cover them; element point values are taken from the leaf sample evaluated on its own',
        'out-of-range element numbers (take_elements / getindex) are outside the property: modelled as empty lists, only probed as exploration',
    ]
    src_path = npoints_mod.__file__
    src = open(src_path).read()
    c.extra['points_source'] = src_path

    # ---------------------------------------------------------------- (X) tables -> Lean
    tables = {}; extract_err = None
    try:
        tables['tri'] = extract_tables(src, 'gauss2', 2)
        tables['tet'] = extract_tables(src, 'gauss3', 3)
        c.write_generated('C09.lean', lean_tables([('triTables', tables['tri']), ('tetTables', tables['tet'])]))
    except Exception as e:
        extract_err = '%s: %s' % (type(e).__name__, e)
    c.obligation('extract:gauss-tables', extract_err is None, 'extraction', extract_err or 'gauss2: %d tables, gauss3: %d tables' % (len(tables['tri']), len(tables['tet'])))

    broken = c.build_and_audit()
    c.log('lean build + axiom audit done')
    quick = c.tier == 'quick'

    only = [x for x in os.environ.get('C09_STREAMS', '').split(',') if x]     # development aid; default: all streams
    def on(name): return not only or name in only
    if on('known'): stream_known_finding(c)
    # every stream first runs the real code and collects its model requests; the Lean driver is started once for all of them
    gens = []
    if on('tables'): gens.append(('tables', stream_tables(c, tables, extract_err, quick)))
    pool = reference_pool(c, quick) if on('rules') or on('rules-tuple') else None
    if on('rules'): gens.append(('rules', stream_rules(c, quick, pool)))
    if on('points'): gens.append(('points classes', stream_points_model(c, quick)))
    if on('samples'): gens.append(('samples', stream_samples(c, 70 if quick else 1000)))
    pending = []
    for name, g in gens:
        try:
            reqs = next(g)
            pending.append((name, g, list(reqs)))
        except StopIteration:
            pass
        c.log('%s: real code done' % name)
    if on('rules-tuple'): stream_rules_tuple(c, quick, pool); c.log('rules with a degree per direction done')
    if on('pointsseq'): stream_pointsseq(c, quick); c.log('pointsseq done')
    if on('topologies'): stream_gauss_topologies(c, quick); c.log('topologies done')
    answers = c.model([r for name, g, reqs in pending for r in reqs])
    c.log('model answered %d requests' % len(answers))
    o = 0
    for name, g, reqs in pending:
        a = answers[o:o + len(reqs)]; o += len(reqs)
        try:
            g.send(a)
            raise Infra('stream %s yields more than once' % name)
        except StopIteration:
            pass
        c.log('%s: compared' % name)

    # a broken proof / table check that is explained by a failing input found above is not reported a second time
    explained = any(v[2].startswith(('gauss-', 'rule-', 'gauss1-')) for v in c.violations)
    for b in broken:
        if explained and 'C09Tables' in b:
            c.log('proof broken (explained by the failing input above): ' + b[:200]); continue
        c.broken_no_input('proof', b, dict(detail=b, note='the numeric streams above searched the real code for a failing input'))
    if extract_err is not None and not explained:
        c.broken_no_input('extract:gauss-tables', 'the Gauss tables can no longer be extracted from points.py: ' + extract_err, dict(error=extract_err))


# ---------------------------------------------------------------- known finding

def known_finding_inputs():
    """signature -> (callable running the recorded minimal input, exception type that means 'still fails')"""
    from nutils import mesh

    def sum_under_take():
        X, x = mesh.line(2, space='X'); Y, y = mesh.line(1, space='Y')
        s = (X[:1].sample('gauss', 1) + X[1:].sample('gauss', 1)) * Y.sample('gauss', 1)
        s.take_elements(numpy.array([0])).integrate(1.)

    def empty_factor():
        X, x = mesh.rectilinear([1, 1], space='X'); Y, y = mesh.line(2, space='Y')
        (X.sample('uniform', 2) * Y.sample('gauss', 1).take_elements(numpy.array([], dtype=int))).eval(x[0])

    def transpose_axis():
        X, x = mesh.line(2, space='X'); Y, y = mesh.line(2, space='Y'); Z, z = mesh.line(1, space='Z')
        a = X[:1].sample('gauss', 2) + X[1:].sample('gauss', 2)
        (a * (Y.sample('gauss', 2).take_elements(numpy.array([0, 1])) * Z.sample('gauss', 2))).eval(x)

    return {KNOWN_SIG: (sum_under_take, NotImplementedError), EMPTY_MUL_SIG: (empty_factor, (AssertionError, ZeroDivisionError)),     # same root cause, the exception type depends on the shapes
             TRANSPOSE_SIG: (transpose_axis, ValueError)}


def stream_known_finding(c):
    inputs = known_finding_inputs()
    for e in c.findings:
        if e.get('status') == 'open' and e.get('signature') in inputs:
            fn, exc = inputs[e['signature']]
            try:
                with warnings.catch_warnings():
                    warnings.simplefilter('ignore')
                    fn()
                still = False
            except exc:
                still = True
            except Exception:
                still = False
            c.report_known_still_failing(e, still)


# ---------------------------------------------------------------- tables: floats of the real functions vs extracted rationals, exact monomial oracle

def stream_tables(c, tables, extract_err, quick):
    from nutils import points
    nbad = 0; ncheck = 0
    for key, fn, nd, maxdoc in (('tri', points.gauss2, 2, 6), ('tet', points.gauss3, 3, 7)):
        T = tables.get(key)
        degs = claimed_degrees(T) if T else None
        for degree in range(0, maxdoc + 3):
            with warnings.catch_warnings():
                warnings.simplefilter('ignore')
                try:
                    co, we = fn.__wrapped__(degree) if hasattr(fn, '__wrapped__') else fn(degree)
                except Exception as e:
                    c.failing_input('gauss-table-raises:%s' % key, '%s(%d) raises %s' % (fn.__name__, degree, type(e).__name__), dict(function=fn.__name__, degree=degree, error=repr(e)))
                    nbad += 1; continue
            co = numpy.asarray(co); we = numpy.asarray(we)
            c.case(('table', key, degree)); c.count('table:%s' % key)
            # --- specification oracle on the floats really returned: exact rational monomial integrals
            eff = min(degree, maxdoc)     # beyond the documented maximum a warning announces inexact integration
            worst = (Fraction(0), None)
            for e in monomials(nd, eff):
                d = abs(rule_monomial(co, we, e) - exact_monomial(e))
                if d > worst[0]: worst = (d, e)
            inside = all(all(Fraction(float(x)) >= 0 for x in p) and sum(Fraction(float(x)) for x in p) <= 1 for p in co)
            ncheck += 1
            if worst[0] > EPS_TABLE or not inside:
                nbad += 1
                c.failing_input('gauss-table-inexact:%s' % key, '%s(%d): monomial %s integrated with error %.3e (points inside: %s)' % (fn.__name__, degree, worst[1], float(worst[0]), inside),
                                dict(function=fn.__name__, degree=degree, monomial=worst[1], error=float(worst[0]), inside=inside, coords=co.tolist(), weights=we.tolist()))
                continue
            # --- extraction faithful: same branch, same numbers (<= 4 ulp)
            if T:
                b = branch_for(T, degree)
                pts = T[b][2]
                ok = len(pts) == len(we) and all(abs(Fraction(float(w)) - q[1]) <= abs(q[1]) * Fraction(1, 2**50) + Fraction(1, 2**60) and
                                                  all(abs(Fraction(float(x)) - y) <= abs(y) * Fraction(1, 2**50) + Fraction(1, 2**60) for x, y in zip(p, q[0]))
                                                  for p, w, q in zip(co, we, pts))
                if not ok:
                    nbad += 1
                    c.broken_no_input('extract:gauss-floats', '%s(%d) returns numbers that differ from the extracted table (branch %d): the Lean table does not describe the code' % (fn.__name__, degree, b),
                                      dict(function=fn.__name__, degree=degree, branch=b))
    c.obligation('oracle:gauss-simplex-floats', nbad == 0, 'oracle', '%d (function, degree) pairs: exact rational monomial integrals of the returned floats, <= 1e-13' % ncheck)
    # --- the Lean table check evaluated by the driver on the extracted tables (Int and Rat forms agree; the next degree fails)
    if T is not None and tables.get('tri') and tables.get('tet'):
        req = []; meta = []
        for key, nd in (('tri', 2), ('tet', 3)):
            for deg, (op, k, pts) in zip(claimed_degrees(tables[key]), tables[key]):
                dx, dw, ip = int_table(pts)
                heavy = quick and nd == 3 and deg >= 6      # the Rat form / next degree of the big tables only in the thorough tier
                req.append('table|%s|%d|%d|%d|%d|%s' % ('int' if heavy else 'all', nd, deg, dx, dw, ';'.join('%s:%d' % (' '.join(map(str, x)), w) for x, w in ip)))
                meta.append((key, deg))
        ans = yield req
        bad = [(m, a) for m, a in zip(meta, ans) if any(x not in '1-' for x in a.split()[:3]) or len(a.split()) != 4]
        sharp = sum(1 for a in ans if a.split()[3:] == ['0'])
        c.extra['tables_not_exact_one_degree_higher'] = '%d of %d' % (sharp, len(ans))
        c.obligation('model:table-check-int-vs-rat', not bad, 'correspondence', 'driver evaluates tableOK in Int and Rat arithmetic on %d tables; %d are not exact one degree higher' % (len(ans), sharp))
        if bad and not any(v[2].startswith('gauss-table-inexact') for v in c.violations):
            c.broken_no_input('model:table-check', 'the executable table check rejects an extracted table: %r' % (bad[:2],), dict(bad=bad[:4]))


# ---------------------------------------------------------------- rules on references: every scheme / degree / reference kind

def reference_pool(c, quick):
    """(name, reference) incl. tensor products, refined children, trimmed mosaics"""
    from nutils import element, mesh
    line = element.LineReference(); tri = element.TriangleReference(); tet = element.TetrahedronReference()
    pool = [('line', line), ('triangle', tri), ('tetrahedron', tet), ('square', line * line), ('cube', line * line * line),
            ('prism', tri * line), ('line*triangle', line * tri)]
    rng = c.rng
    ntrim = 6 if quick else 40
    for n in range(ntrim):
        dim = rng.choice([1, 2, 2, 2, 3])
        base, x = mesh.rectilinear([1] * dim)
        if dim >= 2 and rng.random() < .4:
            base, x = (mesh.unitsquare(1, 'triangle') if dim == 2 else (base, x))
        coef = [rng.choice([-2, -1, 1, 1, 2]) for _ in range(x.shape[0])]
        cut = rng.choice([.25, .5, .75, 1., 1.25])
        lvl = sum(a * x[i] for i, a in enumerate(coef)) - cut * rng.choice([1, -1])
        maxrefine = rng.choice([0, 0, 1, 2])
        try:
            topo = base.trim(lvl, maxrefine=maxrefine)
        except Exception as e:
            c.count('trim-raises:' + type(e).__name__); continue
        for ref in topo.references:
            if isinstance(ref, (element.WithChildrenReference, element.MosaicReference)):
                pool.append(('%s(dim%d,maxrefine%d)' % (type(ref).__name__, ref.ndims, maxrefine), ref))
    # children by hand: a reference with some children removed
    for name, ref in list(pool[:7]):
        if ref.ndims and ref.nchildren > 1:
            keep = [rng.random() < .6 for _ in range(ref.nchildren)]
            if any(keep) and not all(keep):
                pool.append(('with_children(%s)' % name, ref.with_children([cr if k else cr.empty for cr, k in zip(ref.child_refs, keep)])))
    return pool


def max_gauss_degree(ref):
    """documented maximum degree of the Gauss scheme on a reference (None = unlimited)"""
    from nutils import element
    if isinstance(ref, element.TensorReference):
        a, b = max_gauss_degree(ref.ref1), max_gauss_degree(ref.ref2)
        return min(x for x in (a, b) if x is not None) if (a is not None or b is not None) else None
    if isinstance(ref, (element.WithChildrenReference,)):
        ds = [max_gauss_degree(cr) for cr in ref.child_refs if cr]
        ds = [d for d in ds if d is not None]
        return min(ds) if ds else None
    if isinstance(ref, element.OwnChildReference): return max_gauss_degree(ref.baseref)
    if isinstance(ref, element.MosaicReference): return {1: None, 2: 6, 3: 7}[ref.ndims]
    if isinstance(ref, element.TriangleReference): return 6
    if isinstance(ref, element.TetrahedronReference): return 7
    return None


def is_tensorial(ref):
    from nutils import element
    return isinstance(ref, element.TensorReference) or (isinstance(ref, element.LineReference))


def stream_rules(c, quick, pool=None):
    from nutils import element
    if pool is None: pool = reference_pool(c, quick)
    nbad = 0; nrules = 0
    cache = {}
    for name, ref in pool:
        try:
            shape = shape_of(ref)
        except Exception as e:
            c.count('shape-unavailable:' + type(e).__name__); continue
        vol = sum(monomial_affine_integral(S, (0,) * ref.ndims) for S in shape)
        maxdeg = max_gauss_degree(ref)
        base_kind = name.split('(')[0]
        degrees = list(range(0, (maxdeg if maxdeg is not None else 9) + 1))
        if ref.ndims == 3 and quick: degrees = [d for d in degrees if d <= 4 or d == maxdeg]
        if base_kind in ('WithChildrenReference', 'MosaicReference', 'with_children') :
            degrees = sorted(set(c.rng.sample(degrees, min(len(degrees), 2 if quick else 4))) | {degrees[-1]} if not quick else set(c.rng.sample(degrees, min(len(degrees), 2))))
        schemes = [('gauss', d) for d in degrees] + [('uniform', n) for n in (1, 2, 3)] + [('bezier', n) for n in (2, 3, 4)]
        for scheme, degree in schemes:
            with warnings.catch_warnings():
                warnings.simplefilter('ignore')
                try:
                    P = ref.getpoints(scheme, degree)
                    co = numpy.asarray(P.coords, dtype=float); we = numpy.asarray(P.weights, dtype=float)
                except Exception as e:
                    if type(e) is Exception and (str(e).startswith('unsupported ischeme') or str(e).startswith('tri not defined')):
                        c.count('rule-unsupported:%s:%s' % (base_kind, scheme)); continue      # documented: scheme not available on this reference
                    c.count('getpoints-raises:%s:%s' % (scheme, type(e).__name__))
                    nbad += 1
                    c.failing_input('getpoints-raises:%s' % scheme, '%s.getpoints(%r, %r) raises %s' % (name, scheme, degree, type(e).__name__), dict(reference=name, scheme=scheme, degree=degree, error=repr(e)))
                    continue
            nrules += 1
            c.case(('rule', name, scheme, degree)); c.count('rule:%s:%s' % (base_kind, scheme))
            replay = dict(reference=name, repr=str(ref), scheme=scheme, degree=degree, npoints=int(P.npoints))
            if co.shape != (P.npoints, ref.ndims) or we.shape != (P.npoints,):
                nbad += 1; c.failing_input('rule-shape:%s' % scheme, 'coords/weights shape does not match npoints', replay); continue
            fco = ffrac(co) if len(co) else []
            # weights sum to the volume
            wsum = sum(Fraction(float(w)) for w in we)
            if abs(wsum - vol) > EPS_TABLE:
                nbad += 1
                c.failing_input('rule-volume:%s' % scheme, '%s %s%r: weights sum to %.15g, volume is %.15g' % (name, scheme, degree, float(wsum), float(vol)), dict(replay, wsum=float(wsum), volume=float(vol)))
                continue
            # all points inside the element
            out = points_outside(shape, co, fco)
            if out:
                nbad += 1
                c.failing_input('rule-outside:%s' % scheme, '%s %s%r: point %s outside the element' % (name, scheme, degree, [float(x) for x in out[0]]), dict(replay, point=[float(x) for x in out[0]]))
                continue
            if scheme == 'gauss':
                # exactness: total degree <= p on simplices / mosaics / children, degree <= p per variable on tensor factors
                if isinstance(ref, element.TensorReference) and all(isinstance(r, element.LineReference) for r in tensor_factors(ref)):
                    exps = [e for e in itertools.product(range(degree + 1), repeat=ref.ndims)]
                    if len(exps) > (24 if quick else 60): exps = c.rng.sample(exps, 24 if quick else 60)
                else:
                    exps = monomials(ref.ndims, degree)
                    if len(exps) > (24 if quick else 60): exps = c.rng.sample(exps, 18 if quick else 50) + [e for e in exps if sum(e) == degree][:6 if quick else 10]
                worst = (Fraction(0), None)
                for e in exps:
                    key = (id(ref), e)
                    if key not in cache: cache[key] = sum(monomial_affine_integral(S, e) for S in shape)
                    d = abs(rule_monomial(fco, we, e) - cache[key])
                    if d > worst[0]: worst = (d, e)
                if worst[0] > EPS_TABLE:
                    nbad += 1
                    c.failing_input('gauss-inexact:%s' % base_kind, '%s gauss %d: monomial %s integrated with error %.3e' % (name, degree, worst[1], float(worst[0])), dict(replay, monomial=worst[1], error=float(worst[0])))
            if scheme == 'bezier' and isinstance(P, __import__('nutils').points.ConcatPoints) and P.duplicates:
                # dedup keeps the weighted sum of any function of the position
                c.count('rule:bezier-dedup')
                parts = [(ffrac(p.coords), [Fraction(float(w)) for w in p.weights]) for p in P.allpoints]
                for e in [tuple(c.rng.randint(0, 2) for _ in range(ref.ndims)) for _ in range(3)]:
                    full = sum(rule_monomial(pc, pw, e) for pc, pw in parts)
                    got = rule_monomial(fco, we, e)
                    if abs(full - got) > EPS_TABLE:
                        nbad += 1
                        c.failing_input('concat-dedup-weights', '%s bezier %d: deduplicated points integrate %s to %.15g, the parts to %.15g' % (name, degree, e, float(got), float(full)), dict(replay, monomial=e, got=float(got), want=float(full)))
                        break
                if P.npoints != sum(p.npoints for p in P.allpoints) - sum(len(d) - 1 for d in P.duplicates) or len(set(map(tuple, co.tolist()))) != len(co):
                    nbad += 1
                    c.failing_input('concat-dedup-points', '%s bezier %d: duplicate points remain / wrong point count' % (name, degree), replay)
    c.obligation('oracle:rules-on-references', nbad == 0, 'oracle', '%d rules on %d references: weights sum to volume, points inside, Gauss exact to the degree (exact rationals, 1e-13), bezier dedup' % (nrules, len(pool)))
    # gauss1: point count vs model, numeric exactness (exploration: nodes from a floating eigen-solve)
    from nutils import points
    degs = list(range(0, 14 if quick else 40))
    ans = yield ['gauss1|%d' % d for d in degs]
    nb = 0; worst = 0.
    for d, a in zip(degs, ans):
        co, we = points.gauss1(d)
        co = numpy.asarray(co); we = numpy.asarray(we)
        c.case(('gauss1', d)); c.count('rule:gauss1')
        if str(len(we)) != a or co.shape != (len(we), 1):
            nb += 1
            # specification: an n-point rule can be exact to degree d only if 2n-1 >= d
            if 2 * len(we) - 1 < d:
                c.failing_input('gauss1-too-few-points', 'gauss1(%d) has %d points: cannot be exact to degree %d' % (d, len(we), d), dict(degree=d, npoints=len(we)))
            else:
                c.broken_no_input('corr:gauss1-count', 'gauss1(%d) has %d points, model says %s' % (d, len(we), a), dict(degree=d, npoints=len(we), model=a))
        for k in range(d + 1):
            err = abs(rule_monomial(co, we, (k,)) - Fraction(1, k + 1))
            worst = max(worst, float(err))
            if err > Fraction(1, 10**12):
                nb += 1
                c.failing_input('gauss1-inexact', 'gauss1(%d) integrates x^%d with error %.3e' % (d, k, float(err)), dict(degree=d, power=k, error=float(err)))
                break
        if any(not (0 <= x <= 1) for x in co.ravel()):
            nb += 1; c.failing_input('gauss1-outside', 'gauss1(%d) has a node outside [0,1]' % d, dict(degree=d))
    c.extra['gauss1_worst_error'] = worst
    c.obligation('explore:gauss1-numeric', nb == 0, 'exploration', 'degrees 0..%d, monomials up to the degree, worst error %.2e; point count vs gauss1Npoints' % (degs[-1], worst))


def tensor_factors(ref):
    from nutils import element
    if isinstance(ref, element.TensorReference):
        return tensor_factors(ref.ref1) + tensor_factors(ref.ref2)
    return [ref]


# ---------------------------------------------------------------- rules with a degree PER DIRECTION (tuple degrees)
#
# `getpoints(scheme, degree)` accepts a tuple: a TensorReference hands entry k to factor k of its (right-nested) spine, a
# simplex that receives a tuple (the triangulation of a trimmed tensor element: MosaicReference, or a child that is a mosaic)
# must use a scheme of total degree sum(degree), WithChildrenReference hands the tuple on to every child.  Specification: the
# Gauss rule of degree (d_0, .., d_k) integrates every monomial exactly whose total degree inside factor k is <= d_k, on the
# element and on whatever remains of it after trimming / refinement; points inside, weights sum to the volume.

def base_reference(ref):
    while hasattr(ref, 'baseref'):
        ref = ref.baseref
    return ref


def ref_spine(ref):
    """the factors a tuple degree is distributed over: [ref1, ref2.ref1, ..., last] of the (right-nested) tensor structure"""
    from nutils import element
    out = []
    while isinstance(ref, element.TensorReference):
        out.append(ref.ref1); ref = ref.ref2
    return out + [ref]


def tuple_blocks(ref):
    """block sizes (numbers of variables) a tuple degree refers to, or None if tuple degrees have no meaning for this reference.
    Tensor base: one block per spine factor.  Simplex base of dimension n >= 2: n blocks of one variable (the simplex receives
    per-direction degrees exactly like the triangulation of a trimmed square / cube does)."""
    from nutils import element
    base = base_reference(ref)
    spine = ref_spine(base)
    if len(spine) >= 2:
        if any(isinstance(f, element.TensorReference) or not isinstance(f, element.SimplexReference) for f in spine): return None
        return [f.ndims for f in spine]
    if isinstance(base, element.SimplexReference) and base.ndims >= 2:
        return [1] * base.ndims
    return None


def tuple_monomials(blocks, degree):
    """all exponent tuples with total degree <= degree[k] inside block k"""
    per = [monomials(m, d) for m, d in zip(blocks, degree)]
    return [sum(parts, ()) for parts in itertools.product(*per)]


def directly_trimmed_references(c, n):
    """references cut by a random linear level set through Reference.trim (mosaics, children that are mosaics), on square, cube, prism,
    line x triangle and triangle bases"""
    from nutils import element
    rng = c.rng
    line = element.LineReference(); tri = element.TriangleReference()
    out = []
    for _ in range(n):
        name, base = rng.choice([('square', line**2), ('square', line**2), ('square', line**2), ('cube', line**3), ('prism', tri * line), ('line*triangle', line * tri), ('triangle', tri)])
        maxrefine = rng.choice([0, 0, 1, 1, 2]) if base.ndims == 2 else rng.choice([0, 0, 1])
        coef = numpy.array([rng.choice([-2, -1, 1, 1, 2, 3]) for _ in range(base.ndims)], dtype=float)
        verts = numpy.asarray(base.getpoints('vertex', maxrefine).coords, dtype=float)
        vals = verts @ coef
        cut = rng.choice([.25, .5, .75]) * (vals.max() - vals.min()) + vals.min() + rng.choice([0, 1 / 16, -1 / 16])
        levels = (vals - cut) * rng.choice([1, -1])
        try:
            with warnings.catch_warnings():
                warnings.simplefilter('ignore')
                ref = base.trim(levels, maxrefine=maxrefine, ndivisions=8)
        except Exception as e:
            c.count('ref-trim-raises:' + type(e).__name__); continue
        if not ref or ref is base:
            c.count('ref-trim-trivial'); continue
        out.append(('%s.trim(%s,maxrefine%d)' % (name, type(ref).__name__, maxrefine), ref))
    return out


def points_outside(shape, co, fco):
    """the points (Fractions) that are outside every simplex of `shape`.  A float barycentric test first accepts the points that are
    inside some simplex by a clear margin (1e-9; the data are O(1) and dyadic, float error is ~1e-15); everything else (boundary points,
    suspects) is decided by the exact rational test."""
    if not len(co): return []
    clear = numpy.zeros(len(co), dtype=bool)
    for S in shape:
        V = numpy.array([[float(x) for x in v] for v in S])
        A = (V[1:] - V[0]).T
        if abs(numpy.linalg.det(A)) < 1e-12: continue
        lam = numpy.linalg.solve(A, (co - V[0]).T).T
        clear |= (lam.min(axis=1) >= 1e-9) & (lam.sum(axis=1) <= 1 - 1e-9)
        if clear.all(): return []
    return [p for p, ok in zip(fco, clear) if not ok and not inside_shape(shape, p)]


def contains_mosaic(ref):
    from nutils import element
    if isinstance(ref, element.MosaicReference): return True
    if isinstance(ref, element.WithChildrenReference): return any(contains_mosaic(cr) for cr in ref.child_refs if cr)
    return False


def stream_rules_tuple(c, quick, pool):
    from nutils import element
    rng = c.rng
    pool = [(n, r) for n, r in pool if r.ndims >= 2] + directly_trimmed_references(c, 10 if quick else 80)
    nbad = 0; nrules = 0; ncut = 0
    cache = {}
    for name, ref in pool:
        blocks = tuple_blocks(ref)
        if blocks is None:
            c.count('rule-tuple:no-structure'); continue
        try:
            shape = shape_of(ref)
        except Exception as e:
            c.count('shape-unavailable:' + type(e).__name__); continue
        vol = sum(monomial_affine_integral(S, (0,) * ref.ndims) for S in shape)
        base_kind = name.split('(')[0].split('.')[0] if not isinstance(ref, (element.MosaicReference, element.WithChildrenReference)) else type(ref).__name__
        cut = contains_mosaic(ref)
        maxdeg = max_gauss_degree(ref)
        if isinstance(base_reference(ref), element.SimplexReference) and maxdeg is None: maxdeg = 6
        budget = maxdeg if maxdeg is not None else 4 * len(blocks)
        if quick and ref.ndims == 3: budget = min(budget, 4)
        def gauss_tuple(nonzero):
            for _ in range(50):
                d = tuple(rng.randint(1 if nonzero else 0, 5) for _ in blocks)
                if sum(d) <= budget and (maxdeg is not None or max(d) <= 6): return d
            return tuple(1 if nonzero and i < budget else 0 for i in range(len(blocks)))
        degrees = {gauss_tuple(True) for _ in range(2 if quick else 4)} | {gauss_tuple(False)}
        schemes = [('gauss', d) for d in sorted(degrees)]
        pure_tensor = isinstance(ref, element.TensorReference)
        if pure_tensor or rng.random() < .3:
            spine = ref_spine(base_reference(ref))
            if all(isinstance(f, (element.LineReference, element.TriangleReference)) for f in spine):
                schemes.append(('uniform', tuple(rng.randint(1, 3) for _ in blocks)))
            schemes.append(('bezier', tuple(rng.randint(2, 4) for _ in blocks)))
        for scheme, degree in schemes:
            with warnings.catch_warnings():
                warnings.simplefilter('ignore')
                try:
                    P = ref.getpoints(scheme, degree)
                    co = numpy.asarray(P.coords, dtype=float); we = numpy.asarray(P.weights, dtype=float)
                except Exception as e:
                    if scheme != 'gauss' and not pure_tensor:
                        # uniform / bezier take a tuple only where a TensorReference splits it; elsewhere (mosaics, children, simplices) it is not defined
                        c.count('rule-tuple-unsupported:%s:%s' % (base_kind, scheme)); continue
                    c.count('getpoints-raises:%s:%s' % (scheme, type(e).__name__))
                    nbad += 1
                    c.failing_input('getpoints-raises:%s' % scheme, '%s.getpoints(%r, %r) raises %s' % (name, scheme, degree, type(e).__name__), dict(reference=name, scheme=scheme, degree=list(degree), error=repr(e)))
                    continue
            nrules += 1; ncut += cut and scheme == 'gauss'
            c.case(('rule-tuple', name, scheme, degree, len(shape))); c.count('rule-tuple:%s:%s' % (base_kind, scheme))
            if scheme == 'gauss':
                c.count('rule-tuple-gauss:%s:%s' % ('cut' if cut else 'uncut', 'mixed-degrees' if sum(1 for d in degree if d) >= 2 else 'one-direction'))
            replay = dict(reference=name, repr=str(ref), scheme=scheme, degree=list(degree), npoints=int(P.npoints))
            if co.shape != (P.npoints, ref.ndims) or we.shape != (P.npoints,):
                nbad += 1; c.failing_input('rule-shape:%s' % scheme, 'coords/weights shape does not match npoints', replay); continue
            fco = ffrac(co) if len(co) else []
            wsum = sum(Fraction(float(w)) for w in we)
            if abs(wsum - vol) > EPS_TABLE:
                nbad += 1
                c.failing_input('rule-volume:%s' % scheme, '%s %s%r: weights sum to %.15g, volume is %.15g' % (name, scheme, degree, float(wsum), float(vol)), dict(replay, wsum=float(wsum), volume=float(vol)))
                continue
            out = points_outside(shape, co, fco)
            if out:
                nbad += 1
                c.failing_input('rule-outside:%s' % scheme, '%s %s%r: point %s outside the element' % (name, scheme, degree, [float(x) for x in out[0]]), dict(replay, point=[float(x) for x in out[0]]))
                continue
            if scheme != 'gauss': continue
            exps = tuple_monomials(blocks, degree)
            o = numpy.cumsum([0] + blocks)
            top = [e for e in exps if all(sum(e[o[k]:o[k + 1]]) == d for k, d in enumerate(degree))]      # the highest monomials the degree promises
            limit = 20 if quick else 60
            if len(exps) > limit:
                exps = rng.sample(top, min(len(top), 6)) + rng.sample(exps, limit - 6)
            worst = (Fraction(0), None)
            for e in exps:
                key = (id(ref), e)
                if key not in cache: cache[key] = sum(monomial_affine_integral(S, e) for S in shape)
                d = abs(rule_monomial(fco, we, e) - cache[key])
                if d > worst[0]: worst = (d, e)
            if worst[0] > EPS_TABLE:
                nbad += 1
                c.failing_input('gauss-inexact:%s' % base_kind, '%s gauss %r (degree per direction): monomial %s integrated with error %.3e' % (name, degree, worst[1], float(worst[0])),
                                dict(replay, monomial=worst[1], error=float(worst[0])))
    c.obligation('oracle:rules-tuple-degree', nbad == 0, 'oracle', '%d rules with a degree per direction on %d references (%d Gauss rules on cut cells): weights sum to volume, points inside, '
                 'Gauss exact for every monomial within the degree of each direction (exact rationals, 1e-13)' % (nrules, len(pool), ncut))


# ---------------------------------------------------------------- TensorPoints / TransformPoints / ConcatPoints vs the Lean rules (integer weights)

def stream_points_model(c, quick):
    from nutils import points, types, transform
    rng = c.rng
    N = 40 if quick else 600
    reqs = []; real = []; meta = []

    def cw(n, ndims=1, pool=None):
        co = numpy.array([[rng.randint(0, 8) / 8 for _ in range(ndims)] for _ in range(n)], dtype=float).reshape(n, ndims)
        if pool is not None:
            co = numpy.array([rng.choice(pool) for _ in range(n)], dtype=float).reshape(n, ndims)
        we = numpy.array([rng.randint(-3, 9) for _ in range(n)], dtype=float)
        return points.CoordsWeightsPoints(types.arraydata(co), types.arraydata(we))

    for _ in range(N):
        kind = rng.choice(['tensor', 'transform', 'concat', 'concat', 'dedup', 'dedup'])
        try:
            if kind == 'tensor':
                p1, p2 = cw(rng.randint(0, 4)), cw(rng.randint(0, 4), rng.randint(1, 2))
                T = points.TensorPoints(p1, p2)
                reqs.append('tensor|%s|%s' % (ints(p1.weights), ints(p2.weights)))
                want_co = [list(a) + list(b) for a in p1.coords for b in p2.coords]
                real.append((' '.join('%d,%d:%d' % (i, j, int(T.weights[i * p2.npoints + j])) for i in range(p1.npoints) for j in range(p2.npoints)),
                             numpy.asarray(T.coords).tolist() == want_co and T.npoints == p1.npoints * p2.npoints and
                             numpy.asarray(T.weights).tolist() == [float(a * b) for a in p1.weights for b in p2.weights]))
            elif kind == 'transform':
                p = cw(rng.randint(0, 5), 2)
                M = numpy.array([[rng.choice([-2, -1, 1, 2, .5]), rng.choice([0, 1, -1])], [rng.choice([0, 1]), rng.choice([1, 2, -1, .5])]], dtype=float)
                det = M[0, 0] * M[1, 1] - M[0, 1] * M[1, 0]
                if det == 0: M = numpy.eye(2) * 2; det = 4.
                tr = transform.Square(types.arraydata(M), types.arraydata(numpy.array([rng.randint(-2, 2), rng.randint(-2, 2)], dtype=float)))
                T = points.TransformPoints(p, tr)
                sc = 4
                reqs.append('transform|%s|%d' % (ints(p.weights), round(abs(det) * sc)))
                want_co = (numpy.asarray(p.coords) @ M.T + tr.offset).tolist()
                tw = numpy.asarray(T.weights) * sc
                real.append((ints(numpy.round(tw)), numpy.asarray(T.coords).tolist() == want_co and bool(numpy.all(abs(tw - numpy.round(tw)) < 1e-9)) and
                             bool(numpy.all(abs(numpy.asarray(T.weights) - abs(det) * numpy.asarray(p.weights)) < 1e-12))))
            else:
                pool = [[k / 4] for k in range(6)]
                parts = [cw(rng.randint(1, 4), 1, pool if kind == 'dedup' else None) for _ in range(rng.randint(1, 4))]
                dups = frozenset()
                if kind == 'dedup':
                    groups = {}
                    for i, p in enumerate(parts):
                        for j, x in enumerate(p.coords):
                            if rng.random() < .8: groups.setdefault(tuple(x), []).append((i, j))
                    dups = frozenset(tuple(g) for g in groups.values() if len(g) > 1)
                T = points.ConcatPoints(tuple(parts), dups)
                ids = [[int(x[0] * 4) for x in p.coords] for p in parts]
                reqs.append('concat|%s|%s' % (';'.join(' '.join('%d:%d' % (pid, int(w)) for pid, w in zip(idl, p.weights)) for idl, p in zip(ids, parts)),
                                              ';'.join(' '.join('%d:%d' % ij for ij in g) for g in sorted(dups))))
                got = ' '.join('%d:%d' % (int(x[0] * 4), int(w)) for x, w in zip(T.coords, T.weights))
                # specification: total weight and weighted sum of any function of the position are those of the parts
                spec_ok = sum(T.weights) == sum(sum(p.weights) for p in parts) and \
                    sum(w * x[0] ** 2 for x, w in zip(T.coords, T.weights)) == sum(w * x[0] ** 2 for p in parts for x, w in zip(p.coords, p.weights)) and \
                    len(T.weights) == T.npoints == len(T.coords)
                real.append((got, spec_ok))
            meta.append(kind)
        except Exception as e:
            if len(reqs) > len(real): reqs.pop()
            c.count('points-model-raises:%s:%s' % (kind, type(e).__name__))
            c.failing_input('points-class-raises:%s' % kind, '%s construction raises %s: %s' % (kind, type(e).__name__, e), dict(kind=kind, error=repr(e)))
    ans = yield reqs
    nbad = 0
    for kind, rq, a, (got, spec_ok) in zip(meta, reqs, ans, real):
        c.case(('points', rq)); c.count('points-model:' + kind)
        replay = dict(kind=kind, request=rq, model=a, real=got)
        if not spec_ok:
            nbad += 1
            sig = {'tensor': 'tensor-points-wrong', 'transform': 'transform-points-wrong'}.get(kind, 'concat-dedup-weights')
            c.failing_input(sig, '%s: result does not keep the total weight / weighted sums / coordinates the parts define' % kind, replay)
        elif a != got:
            nbad += 1
            c.broken_no_input('corr:points-%s' % kind, 'model and implementation disagree on %s' % kind, replay)
    c.obligation('corr:points-classes', nbad == 0, 'correspondence', '%d TensorPoints / TransformPoints / ConcatPoints objects with integer weights vs model rules' % len(reqs))


# ---------------------------------------------------------------- PointsSequence containers vs a plain list

def stream_pointsseq(c, quick):
    from nutils import points, types, evaluable
    from nutils.pointsseq import PointsSequence
    rng = c.rng
    N = 25 if quick else 400
    nbad = 0; nops = 0
    items = [points.CoordsWeightsPoints(types.arraydata(numpy.array([[k / 8] for k in range(n)], dtype=float).reshape(n, 1)),
                                        types.arraydata(numpy.arange(1., n + 1))) for n in (0, 1, 2, 3)]

    def holds(seq, lst):
        if not (len(seq) == len(lst) and seq.npoints == sum(p.npoints for p in lst) and bool(seq) == bool(lst)): return False
        if [p.npoints for p in seq] != [p.npoints for p in lst]: return False
        return all(numpy.array_equal(seq.get(i).coords, p.coords) and numpy.array_equal(seq.get(i).weights, p.weights) for i, p in enumerate(lst))

    for _ in range(N):
        lst = [rng.choice(items) for _ in range(rng.randint(0, 5))] if rng.random() < .7 else [rng.choice(items)] * rng.randint(1, 4)
        seq = PointsSequence.from_iter(lst, 1)
        hist = ['from_iter%r' % ([p.npoints for p in lst],)]
        failed = False
        nsteps = rng.randint(1, 4)
        for _ in range(nsteps):
            op = rng.choice(['take', 'take-sorted', 'compress', 'repeat', 'chain', 'product', 'slice'])
            if _ == nsteps - 1 and rng.random() < .6: op = 'product'
            arg = None
            try:
                if op in ('take', 'take-sorted') and lst:
                    arg = [rng.randrange(len(lst)) for _ in range(rng.randint(0, 4))]
                    if op == 'take-sorted': arg = sorted(arg)
                    seq = seq.take(numpy.array(arg, dtype=int)); lst = [lst[i] for i in arg]
                elif op == 'compress':
                    arg = [rng.random() < .6 for _ in lst]
                    seq = seq.compress(numpy.array(arg, dtype=bool)); lst = [p for p, k in zip(lst, arg) if k]
                elif op == 'repeat':
                    arg = rng.randint(0, 3); seq = seq.repeat(arg); lst = lst * arg
                elif op == 'chain':
                    other = [rng.choice(items) for _ in range(rng.randint(0, 3))]
                    arg = [p.npoints for p in other]
                    seq = seq.chain(PointsSequence.from_iter(other, 1)); lst = lst + other
                elif op == 'product' and len(lst) <= 6:
                    other = [rng.choice(items[1:]) for _ in range(rng.randint(1, 3))]
                    arg = [p.npoints for p in other]
                    seq = seq.product(PointsSequence.from_iter(other, 1)); lst = [a * b for a in lst for b in other]
                elif op == 'slice' and lst:
                    a = rng.randint(0, len(lst)); b = rng.randint(a, len(lst)); arg = (a, b)
                    seq = seq[a:b]; lst = lst[a:b]
                else:
                    continue
                hist.append('%s%r' % (op, arg)); nops += 1; c.count('pointsseq-op:' + op)
                ok = holds(seq, lst)
            except Exception as e:
                nbad += 1; failed = True
                c.failing_input('pointsseq-raises:' + op, 'PointsSequence.%s raises %s' % (op, type(e).__name__), dict(history=hist, op=op, arg=arg, error=repr(e)))
                break
            if not ok:
                nbad += 1; failed = True
                got = [int(p.npoints) for p in seq]
                if op == 'take' and arg != sorted(arg) and sorted(got) == sorted(p.npoints for p in lst):
                    c.failing_input('pointsseq-take-unsorted-reorders', 'PointsSequence.take with non-monotone indices on a chained sequence returns the items grouped by chain part instead of in the requested order',
                                    dict(history=hist, indices=arg, got=got, want=[p.npoints for p in lst]))
                else:
                    c.failing_input('pointsseq-wrong-items', 'PointsSequence after %s does not hold the expected Points' % hist, dict(history=hist, got=got, want=[p.npoints for p in lst]))
                break
            if op == 'product': break     # ndims changes: stop here
        c.case(('pointsseq', tuple(hist)), nontrivial=len(hist) > 1); c.count('pointsseq:' + type(seq).__name__)
        if failed or not lst: continue
        try:
            i = rng.randrange(len(lst))
            idx = evaluable.constant(i)
            co = evaluable.eval_once(seq.get_evaluable_coords(idx))
            we = evaluable.eval_once(seq.get_evaluable_weights(idx))
            ok = numpy.array_equal(co, lst[i].coords) and numpy.array_equal(we, lst[i].weights)
            err = None
        except Exception as e:
            ok = False; err = repr(e)
        if not ok:
            nbad += 1
            c.failing_input('pointsseq-evaluable-wrong', 'get_evaluable_coords/weights of item %d after %s differ from the item' % (i, hist), dict(history=hist, item=i, error=err))
    c.obligation('oracle:pointsseq-containers', nbad == 0, 'oracle', '%d sequences, %d operations vs a plain Python list' % (N, nops))


# ---------------------------------------------------------------- random sample expressions

def leaf_data(tree, spaces_by_name, rng_for_integrand):
    """per leaf: space, per element: weights (floats or None), values of the space functions and of the integrand factor"""
    data = []
    for leaf in tree.leaves:
        sp = spaces_by_name[leaf.space]
        funcs = sp.funcs() + [sp.integrand(rng_for_integrand)]
        vals = leaf.eval(funcs) if leaf.npoints else [numpy.zeros(0) for _ in funcs]
        offs = numpy.cumsum([0] + [p.npoints for p in leaf.points])
        F = numpy.stack([numpy.asarray(v, dtype=float) for v in vals], axis=1) if leaf.npoints else numpy.zeros((0, len(funcs)))
        W = []
        for p in leaf.points:
            w = getattr(p, 'weights', None)
            W.append(None if w is None else numpy.asarray(w, dtype=float))
        data.append(dict(space=sp, offs=offs, F=F, W=W))
    return data


def sample_case(c, rng, caseno, spaces_pool, stats):
    from nutils import function
    nsp = rng.choice([1, 1, 2, 2, 3])
    names = ['X', 'Y', 'Z'][:nsp]
    kinds_all = ['line', 'line', 'rect', 'tri', 'tet', 'hier', 'trim', 'cube', 'mixed']
    spaces = []
    for nm in names:
        kind = rng.choice(kinds_all if nm == 'X' else [k for k in kinds_all if k != 'mixed'])
        if nsp == 3 and kind in ('tet', 'cube'): kind = 'line'
        key = (nm, kind, rng.randrange(3 if c.tier == 'quick' else 12))
        if key not in spaces_pool:
            spaces_pool[key] = make_space(rng, nm, kind)
        spaces.append(spaces_pool[key])
    for sp in spaces: c.count('space:' + sp.kind)
    for attempt in range(4):
        gen = Gen(c, rng)
        with warnings.catch_warnings():
            warnings.simplefilter('ignore')
            S = gen.multi(spaces, rng.randint(1, 4))
        if S.npoints <= 2500: break
        c.count('generator:too-large-retry')
    else:
        raise ValueError('sample too large')
    tree = Tree()
    node = tree.node(S)
    expr = expr_str(node)
    return spaces, gen, S, tree, node, expr


def stream_samples(c, N):
    from nutils import function
    rng = c.rng
    spaces_pool = {}
    cases = []
    ngen_fail = 0
    for caseno in range(N):
        try:
            cases.append(sample_case(c, rng, caseno, spaces_pool, None))
        except NotImplementedError as e:
            ngen_fail += 1; c.count('generator:NotImplementedError')
        except Exception as e:
            ngen_fail += 1; c.count('generator-raises:' + type(e).__name__)
            c.extra.setdefault('generator_errors', [])
            if len(c.extra['generator_errors']) < 5: c.extra['generator_errors'].append('%s: %s' % (type(e).__name__, str(e)[:200]))
    c.extra['generator_failures'] = ngen_fail
    c.log('samples: %d real constructions generated' % len(cases))

    # ---- model requests: one per case (+ smart constructor operations)
    sreq = []; opreq = []; opmeta = []
    per_case = []
    for spaces, gen, S, tree, node, expr in cases:
        byname = {sp.name: sp for sp in spaces}
        data = leaf_data(tree, byname, rng)
        # integer tables for the model: scaled real numbers where they are small dyadics, surrogates otherwise
        tabs = []
        W_int = {}; V_int = {}
        for tag, d in enumerate(data):
            for e in range(len(d['offs']) - 1):
                a, b = d['offs'][e], d['offs'][e + 1]
                w = d['W'][e]
                vals = d['F'][a:b, -1]
                wi = []; vi = []
                for kk in range(b - a):
                    x = (w[kk] * 4096) if w is not None else .5
                    v = vals[kk] * 8
                    if x != int(x) or abs(x) > 2**40: x = 1 + (7 * tag + 3 * e + kk) % 5      # surrogate (Gauss weights, no weights)
                    if v != int(v) or abs(v) > 2**40: v = 1 + (5 * tag + e + 2 * kk) % 7      # surrogate (Gauss points)
                    wi.append(int(x)); vi.append(int(v))
                    W_int[(tag, e, kk)] = int(x); V_int[(tag, e, kk)] = int(v)
                if b > a: tabs.append('%d %d:%s:%s' % (tag, e, ints(wi), ints(vi)))
        # the Lean model is interpreted and recomputes sub-samples freely: only small cases are sent in full
        haszip = contains(node, 'Z')
        mode = ('full' if S.npoints <= 12 and S.nelems <= 12 else 'lite' if S.npoints <= (40 if haszip else 64) else
                'index' if S.npoints <= (100 if haszip else 400) else 'none')
        c.count('model-mode:' + mode)
        sreq.append('sample|%s|%s|%s' % (mode, expr, ';'.join(tabs) if mode != 'index' else '') if mode != 'none' else 'gauss1|0')
        per_case.append(dict(data=data, W_int=W_int, V_int=V_int, mode=mode))
        tr = tree
        for op in gen.ops:
            if op[0] == 'add':
                opreq.append('add|%s|%s' % (expr_str(tr.node(op[1])), expr_str(tr.node(op[2])))); opmeta.append((len(sreq) - 1, op, expr_str(tr.node(op[3]))))
            else:
                opreq.append('take|%s|%s' % (expr_str(tr.node(op[1])), ints(op[2]))); opmeta.append((len(sreq) - 1, op, expr_str(tr.node(op[3]))))
    c.log('samples: leaf data evaluated, %d model requests' % (len(sreq) + len(opreq)))
    ans = yield sreq + opreq
    sans, opans = ans[:len(sreq)], ans[len(sreq):]
    c.log('samples: model answered')

    # ---- smart constructors
    nbad = 0
    for (ci, op, realexpr), a in zip(opmeta, opans):
        c.count('smart:' + op[0])
        if a != realexpr:
            nbad += 1
            c.broken_no_input('corr:smart-constructor-%s' % op[0], 'Sample.%s builds %s, model builds %s' % ('__add__' if op[0] == 'add' else 'take_elements', realexpr, a),
                              dict(op=op[0], indices=op[2] if op[0] == 'take' else None, real=realexpr, model=a, case=sreq[ci]))
    c.obligation('corr:smart-constructors', nbad == 0, 'correspondence', '%d Sample.__add__ / take_elements results vs mkAdd / takeElements' % len(opmeta))

    # ---- per case: correspondence + specification oracles
    bad = dict(index=0, evaluable=0, spec=0, numbers=0, order=0, integral=0, partition=0)
    for (spaces, gen, S, tree, node, expr), a, pc, rq in zip(cases, sans, per_case, sreq):
        depth_nontrivial = any(k in expr for k in 'CAMTZ')
        c.case(expr, nontrivial=depth_nontrivial)
        for k in 'DCAMTZE':
            if contains(node, k): c.count('expr-has:' + k)
        c.sample(dict(expr=expr, nelems=int(S.nelems), npoints=int(S.npoints), spaces=[sp.kind for sp in spaces]))
        f = a.split('|')
        mode = pc['mode']
        if mode == 'none':
            f = ['1', '1' if can_integrate_py(node) else '0', str(S.nelems), str(S.npoints), None]
        elif len(f) != {'full': 10, 'lite': 8, 'index': 5}[mode]:
            bad['index'] += 1
            c.broken_no_input('corr:sample-driver', 'driver answered %r' % a[:80], dict(request=rq[:2000])); continue
        mvalid, mcan, mnel, mnpt, midx = f[:5]
        mpts, mwts, mnum = (f[5:8] if mode in ('full', 'lite') else (None, None, None))
        mbind, mwat = (f[8:10] if mode == 'full' else (None, None))
        replay = dict(expr=expr, spaces=[(sp.name, sp.kind) for sp in spaces], model=dict(nelems=mnel, npoints=mnpt, index=midx))
        # --- real index
        try:
            ridx = [[int(j) for j in S.getindex(i)] for i in range(S.nelems)]
        except Exception as e:
            bad['index'] += 1
            c.failing_input('getindex-raises', 'getindex raises %s on a valid element number' % type(e).__name__, dict(replay, error=repr(e))); continue
        replay['real'] = dict(nelems=int(S.nelems), npoints=int(S.npoints), index=ridx)
        # O1: partition (specification, real data only)
        flat = sorted(j for l in ridx for j in l)
        if flat != list(range(S.npoints)):
            bad['partition'] += 1
            c.failing_input('index-not-a-partition', 'the getindex lists of %s do not partition range(npoints)' % type(S).__name__, replay); continue
        # correspondence: nelems, npoints, index
        mlist = ridx if mode == 'none' else [[int(x) for x in l.split()] for l in midx.split(';')] if mnel != '0' else []
        if mvalid != '1':
            bad['index'] += 1; c.broken_no_input('corr:sample-valid', 'model says the real construction is invalid', replay); continue
        same = (int(mnel), int(mnpt)) == (S.nelems, S.npoints) and mlist == ridx
        if not same and contains(node, 'Z') and (int(mnel), int(mnpt)) == (S.nelems, S.npoints) and [sorted(l) for l in mlist] == [sorted(l) for l in ridx]:
            c.count('zip-order-unstable'); same = True
            unstable = True
        else:
            unstable = False
        if not same:
            bad['index'] += 1
            c.broken_no_input('corr:sample-index', 'model and implementation disagree on nelems / npoints / getindex', replay)
        # --- python semantic specification (the order inside zipped elements is taken from the real object)
        spec = Spec()
        try:
            sp_nel = spec.nelems(node)
            elems = [spec.elem(node, i) for i in range(sp_nel)]
            sp_idx = [spec.index(node, i) for i in range(sp_nel)]
        except SpecViolation as v:
            bad['partition'] += 1
            c.failing_input(v.sig, v.what, dict(replay, **v.detail)); continue
        except Exception as e:
            bad['spec'] += 1
            c.broken_no_input('spec:python', 'python specification raised %s: %s' % (type(e).__name__, e), replay); continue
        # specification vs Lean model (keeps the oracle honest); per element as multisets when the order inside zipped elements differs
        sp_pts = [[fmt_pt(pt) for pt, wl in el] for el in elems]
        sp_wts = [[math.prod(pc['W_int'][lp] for lp in wl) for pt, wl in el] for el in elems]
        if mode in ('full', 'lite'):
            m_pts = [[x for x in l.split(',') if x] for l in mpts.split(';')] if sp_nel else []
            m_wts = [[int(x) for x in l.split()] for l in mwts.split(';')] if sp_nel else []
            pairs_s = [list(zip(a_, b_)) for a_, b_ in zip(sp_pts, sp_wts)]
            pairs_m = [list(zip(a_, b_)) for a_, b_ in zip(m_pts, m_wts)]
        else:
            pairs_s = pairs_m = m_pts = m_wts = []
        agree = sp_idx == mlist and pairs_s == pairs_m
        if not agree and contains(node, 'Z') and [sorted(l) for l in sp_idx] == [sorted(l) for l in mlist] and [sorted(l) for l in pairs_s] == [sorted(l) for l in pairs_m]:
            if not unstable: c.count('zip-order-unstable')
            unstable = True; agree = True
        if not agree or [len(x) for x in m_pts] != [len(x) for x in m_wts]:
            bad['spec'] += 1
            c.broken_no_input('corr:spec-vs-model', 'python specification and Lean model disagree on element points / weights / index',
                              dict(replay, spec_pts=repr(sp_pts)[:400], model_pts=(mpts or '')[:400], spec_wts=repr(sp_wts)[:200], model_wts=(mwts or '')[:200]))
        nums = mnum.split() if mnum is not None else []
        if len(set(nums)) > 1:
            bad['numbers'] += 1
            c.broken_no_input('model:integral-forms', 'integralCode, loopIntegral, flatWeightedSum differ in the model: %s' % mnum, replay)
        if nums:
            sp_int = sum(math.prod(pc['W_int'][lp] for lp in wl) * math.prod(pc['V_int'][lp] for lp in pt) for el in elems for pt, wl in el)
            sp_bind = [None] * S.npoints
            for el, il in zip(elems, sp_idx):
                for (pt, wl), q in zip(el, il):
                    sp_bind[q] = math.prod(pc['V_int'][lp] for lp in pt)
            if str(sp_int) != nums[0] or (mbind is not None and not unstable and ints(sp_bind) != mbind):
                bad['numbers'] += 1
                c.broken_no_input('corr:spec-vs-model-numbers', 'python specification and Lean model disagree on the integral / bind values', dict(replay, spec_integral=sp_int, model=mnum))
        # --- real evaluation
        allfuncs = []
        for sp in spaces: allfuncs += sp.funcs()
        integrand = functools.reduce(lambda x, y: x * y, [sp.integrand(rng) for sp in spaces])
        weights_available = all(pc['data'][lp[0]]['W'][lp[1]] is not None for el in elems for pt, wl in el for lp in wl)
        raised = None; ev = integ = None
        try:
            with warnings.catch_warnings():
                warnings.simplefilter('ignore')
                ev = S.eval(allfuncs + [integrand])
                integ = S.integrate(integrand) if weights_available else None
        except Exception as e:
            raised = e
        if raised is not None:
            c.count('real-raises:' + type(raised).__name__)
            name = type(raised).__name__
            if isinstance(raised, NotImplementedError) and mcan == '0':
                c.failing_input(KNOWN_SIG, 'integrate/eval of take_elements or zip over a sample containing a sum raises NotImplementedError', dict(replay, error=repr(raised)))
            elif isinstance(raised, (AssertionError, ZeroDivisionError)) and has_empty_product(node, spec):     # same root cause, the exception depends on the shape
                c.failing_input(EMPTY_MUL_SIG, 'eval of a product sample with a factor without points raises AssertionError (function.reshape of a zero-size array in _Mul._bind)', dict(replay, error=repr(raised)))
            elif isinstance(raised, ValueError) and 'repeated axis in transpose' in str(raised):
                c.failing_input(TRANSPOSE_SIG, "eval of a nested sample raises ValueError 'repeated axis in transpose' in the optimized evaluable (plain evaluation is correct)", dict(replay, error=repr(raised)))
            else:
                bad['evaluable'] += 1
                c.failing_input('sample-eval-raises:%s' % name, 'eval/integrate of %s raises %s: %s' % (expr[:60], name, str(raised)[:100]), dict(replay, error=repr(raised)))
            continue
        if mcan == '0':
            bad['evaluable'] += 1
            c.broken_no_input('corr:can-integrate', 'model says this nesting raises NotImplementedError, the implementation evaluates it', replay)
        c.traces += 1
        EV = numpy.stack([numpy.asarray(v, dtype=float) for v in ev], axis=1) if S.npoints else numpy.zeros((0, len(allfuncs) + 1))
        if EV.shape != (S.npoints, len(allfuncs) + 1):
            bad['order'] += 1
            c.failing_input('eval-shape', 'sample.eval returns %d points, npoints is %d' % (EV.shape[0], S.npoints), replay); continue
        # O3: eval(F)[getindex(i)[k]] == F at point k of element i (leaf evaluated on its own)
        col = {}; o = 0
        for sp in spaces:
            col[sp.name] = (o, o + 1 + sp.ndims); o += 1 + sp.ndims
        worst = 0.; where = None
        total = Fraction(0)
        for i, (el, il) in enumerate(zip(elems, ridx)):
            if len(el) != len(il):
                worst = float('inf'); where = (i, 'element has %d points, index has %d entries' % (len(el), len(il))); break
            for kk, ((pt, wl), q) in enumerate(zip(el, il)):
                fval = 1.
                for lp in pt:
                    d_ = pc['data'][lp[0]]
                    row = d_['F'][d_['offs'][lp[1]] + lp[2]]
                    a_, b_ = col[d_['space'].name]
                    dev = abs(EV[q, a_:b_] - row[:-1]).max()
                    if dev > worst: worst = dev; where = (i, kk, q, lp)
                    fval *= row[-1]
                dev = abs(EV[q, -1] - fval) / max(1., abs(fval))
                if dev > worst: worst = dev; where = (i, kk, q, 'integrand')
                if weights_available:
                    w = 1.
                    for lp in wl: w *= pc['data'][lp[0]]['W'][lp[1]][lp[2]]
                    total += Fraction(float(w)) * Fraction(float(EV[q, -1]))
        if len(elems) != len(ridx):
            worst = float('inf'); where = 'specification has %d elements, sample %d' % (len(elems), len(ridx))
        if worst > 1e-12:
            bad['order'] += 1
            c.failing_input('eval-order-vs-index', 'sample.eval(f)[getindex(i)[k]] differs from f at point k of element i (dev %.3e at %s)' % (worst, where), dict(replay, deviation=worst, where=repr(where)))
            continue
        c.count('eval-order-compared')
        # O2: integrate(f) == sum of weight x eval(f)
        if weights_available:
            dev = abs(Fraction(float(integ)) - total)
            scale = max(Fraction(1), abs(total))
            c.count('integral-compared')
            if dev > Fraction(1, 10**9) * scale:
                bad['integral'] += 1
                c.failing_input('integrate-vs-weighted-sum', 'sample.integrate(f) = %.15g but sum(weights * sample.eval(f)) = %.15g' % (float(integ), float(total)), dict(replay, integrate=float(integ), weighted_sum=float(total)))
            elif dev > Fraction(1, 10**12) * scale:
                bad['integral'] += 1
                c.broken_no_input('oracle:integrate-vs-weighted-sum', 'sample.integrate(f) deviates from sum(weights * eval(f)) by %.3e (between 1e-12 and 1e-9 relative)' % float(dev), dict(replay, integrate=float(integ), weighted_sum=float(total)))
        else:
            c.count('integral-skipped-no-weights')
    c.extra['sample_stream_bad'] = bad
    c.log('samples: oracles done')
    c.obligation('corr:sample-index-algebra', bad['index'] == 0 and bad['evaluable'] == 0, 'correspondence', '%d real sample constructions vs SampleExpr: nelems, npoints, getindex, evaluability' % len(cases))
    c.obligation('corr:python-spec-vs-model', bad['spec'] == 0 and bad['numbers'] == 0, 'correspondence', 'element points / weights / integral / bind of the python specification vs the Lean model')
    c.obligation('oracle:index-partition', bad['partition'] == 0, 'oracle', 'real getindex lists partition range(npoints)')
    c.obligation('oracle:eval-order', bad['order'] == 0, 'oracle', 'eval(F)[getindex(i)[k]] equals F at point k of element i')
    c.obligation('oracle:integrate-eq-weighted-sum', bad['integral'] == 0, 'oracle', 'integrate(f) equals sum of weight x eval(f)')


# ---------------------------------------------------------------- Gauss exactness through topology.integrate (label: exploration support, numeric)

def stream_gauss_topologies(c, quick):
    from nutils import mesh, function
    rng = c.rng
    N = 18 if quick else 160
    nbad = 0; n = 0
    for _ in range(N):
        kind = rng.choice(['line', 'rect', 'tri', 'tet', 'hier', 'trim', 'trim', 'mixed', 'cube'])
        try:
            with warnings.catch_warnings():
                warnings.simplefilter('ignore')
                sp = make_space(rng, 'X', kind)
        except Exception as e:
            c.count('make_space-raises:' + type(e).__name__); continue
        nd = sp.ndims
        maxdeg = {'tri': 6, 'tet': 7, 'mixed': 6, 'trim': 6}.get(kind, 8)
        spelling = 'degree'
        if nd >= 2 and rng.random() < .45:
            # a degree per direction, in each of the three spellings the API accepts: exact for x^e with e_i <= degree_i (cut cells and
            # simplices receive the whole tuple and must use its sum)
            cap = maxdeg if kind in ('tri', 'tet', 'mixed', 'trim') else 12
            if quick and nd == 3: cap = min(cap, 5)
            while True:
                degree = tuple(rng.randint(0, 4) for _ in range(nd))
                if sum(degree) <= cap: break
            e = tuple(rng.randint(0, d) if rng.random() < .5 else d for d in degree)
            spelling = rng.choice(['degree-tuple', 'sample-tuple', 'legacy-string'])
        else:
            degree = rng.randint(0, maxdeg if not (quick and nd == 3) else 4)
            if kind in ('line', 'rect', 'cube', 'hier'):
                e = tuple(rng.randint(0, degree) for _ in range(nd))       # degree per variable on tensor elements
            else:
                e = rng.choice(monomials(nd, degree))
        f = functools.reduce(lambda a, b: a * b, [sp.geom[i] ** a for i, a in enumerate(e)], 1.) * function.J(sp.geom)
        try:
            with warnings.catch_warnings():
                warnings.simplefilter('ignore')
                if spelling == 'sample-tuple': got = float(sp.topo.sample('gauss', degree).integrate(f))
                elif spelling == 'legacy-string': got = float(sp.topo.integrate(f, ischeme='gauss' + ','.join(map(str, degree))))
                else: got = float(sp.topo.integrate(f, degree=degree))
                want = exact_topology_integral(sp, e)
        except Exception as ex:
            c.count('gauss-topology-raises:' + type(ex).__name__)
            continue
        if spelling != 'degree': c.count('gauss-topology-tuple:%s:%s' % (kind, spelling))
        n += 1
        c.case(('gauss-topo', kind, degree, e)); c.count('gauss-topology:' + kind)
        dev = abs(Fraction(got) - want)
        scale = max(Fraction(1), abs(want))
        if dev > Fraction(1, 10**9) * scale:
            nbad += 1
            c.failing_input('gauss-topology-inexact:' + kind, '%s topology: integral of x^%s with gauss degree %r (%s) is %.15g, exact %.15g' % (kind, e, degree, spelling, got, float(want)), dict(kind=kind, degree=degree, spelling=spelling, monomial=e, got=got, want=float(want)))
        elif dev > Fraction(1, 10**12) * scale:
            nbad += 1
            c.broken_no_input('explore:gauss-topology', '%s topology: deviation %.3e between 1e-12 and 1e-9' % (kind, float(dev)), dict(kind=kind, degree=degree, monomial=e, got=got, want=float(want)))
    c.obligation('explore:gauss-on-topologies', nbad == 0, 'exploration', '%d topology.integrate(monomial x J, degree) vs exact rational integrals' % n)


def exact_topology_integral(sp, e):
    """exact integral of x^e over the topology: the geometry is affine per element; the element shape comes from
    reference vertices/simplices, mapped through the geometry evaluated at the reference vertices"""
    from nutils import function, points, types
    from nutils.sample import Sample
    from nutils.pointsseq import PointsSequence
    topo = sp.topo
    total = Fraction(0)
    seqs = []; shapes = []
    for ref in topo.references:
        shp = shape_of(ref)
        shapes.append(shp)
        verts = numpy.array([[float(x) for x in v] for S in shp for v in S], dtype=float).reshape(-1, sp.ndims)
        seqs.append(points.CoordsPoints(types.arraydata(verts)))
    smp = Sample.new(sp.name, (topo.transforms,), PointsSequence.from_iter(seqs, sp.ndims))
    X = numpy.asarray(smp.eval(sp.geom), dtype=float).reshape(-1, sp.ndims)
    o = 0
    for shp in shapes:
        for S in shp:
            k = len(S)
            V = [[Fraction(float(x)) for x in X[o + j]] for j in range(k)]
            o += k
            total += monomial_affine_integral(V, e)
    return total
