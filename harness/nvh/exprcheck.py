"""Shared machinery for the expression-level properties (C01..C05, C13): guarded calls into the real
simplifier / evaluator, Lean specification evaluation of serialised trees, result comparison."""
import json, signal, numpy, warnings
from nutils import evaluable as ev
from . import ser, polykey

warnings.simplefilter('ignore')


class Hang(Exception):
    pass


def _alarm(*a):
    raise Hang()


def guarded(fn, timeout=20):
    """run fn() under a watchdog; returns ('ok', value) | ('hang', None) | ('exception', exc)"""
    old = signal.signal(signal.SIGALRM, _alarm)
    signal.alarm(timeout)
    try:
        return 'ok', fn()
    except Hang:
        return 'hang', None
    except RecursionError as e:
        return 'exception', e
    except Exception as e:
        return 'exception', e
    finally:
        signal.alarm(0)
        signal.signal(signal.SIGALRM, old)


def real_eval(e, args, simplify=False, optimize=False):
    """evaluate with the real code; returns ('ok', ndarray) | ('nonfinite', arr) | ('exception', exc) | ('hang', None)"""
    def run():
        with numpy.errstate(all='ignore'):
            return ev.eval_once(e, _simplify=simplify, _optimize=optimize, arguments=args)
    kind, val = guarded(run, 30)
    if kind == 'ok':
        val = numpy.asarray(val)
        if val.dtype.kind in 'fc' and not numpy.isfinite(val).all():
            return 'nonfinite', val
    return kind, val


def lean_requests(c, reqs):
    """send JSON requests to the Expr driver; returns parsed answers (dict) or {'bad': text}"""
    out = []
    for a in c.model(reqs, driver='Expr', timeout=3000):
        out.append({'bad': a} if a.startswith('bad-request') else json.loads(a))
    return out


def compare_result(res, value, sym_env=None):
    """compare a Lean result with a real ndarray.  returns 'exact' | 'close' | 'shape' | 'value' | 'error:<kind>'"""
    if 'error' in res:
        return 'error:' + res['error']
    v = numpy.asarray(value)
    if list(v.shape) != res['shape']:
        return 'shape'
    try:
        if ser.array_json(v)['data'] == res['data']:
            return 'exact'
    except ValueError:
        pass
    flat = v.reshape(-1)
    try:
        for key, x in zip(res['data'], flat):
            if not polykey.close(polykey.to_float(key, sym_env), float(x)):
                return 'value'
    except (KeyError, ValueError, OverflowError, ZeroDivisionError):
        return 'error:noneval'
    return 'close'


def arrays_close(a, b, rtol=1e-9, atol=1e-11):
    a, b = numpy.asarray(a), numpy.asarray(b)
    if a.shape != b.shape:
        return False
    if a.dtype.kind in 'biu' and b.dtype.kind in 'biu':
        return bool((a == b).all())
    return bool(numpy.allclose(a, b, rtol=rtol, atol=atol))


def describe(e, args):
    try:
        tree = e.asciitree()
    except Exception:
        tree = repr(e)
    return dict(tree=tree, arguments={k: numpy.asarray(v).tolist() for k, v in args.items()})
