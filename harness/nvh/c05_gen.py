"""C05 — structured generators of higher-rank sparse expressions.

The random DAGs of nvh.genexpr are shallow in three directions that matter for the `_assparse` overrides:
arrays have at most 3 axes of length <= 3 (often equal), dofmaps of `Inflate` have at most 2 axes, products have two
factors, and element loops produce vectors and matrices only.  The generators below open these dimensions in a
systematic way (all randomness from the rng that is passed in, values are small dyadic rationals so that float
arithmetic is exact):

* `product_case`   n-ary products (2..5 factors) of factors that live on arbitrary subsets of the axes of a rank 2..4
                   array with pairwise different lengths (the other axes are inserted), dense / sparse / loop-assembled
                   factors, every construction order and association: explores the cluster merge of `Multiply._assparse`.
* `product_orders` the exhaustive version for rank 2 and 3: every ordered triple of axis subsets of size 1..2 (dense factors).
* `inflate_case`   block inflation with a dofmap of 0..4 axes with pairwise different lengths (constant, with duplicates,
                   argument dependent), 0..2 kept axes, inflated axis anywhere, optionally inflated twice.
* `loop_case`      element loops of rank 1..4: every axis of the element block is variable (element dependent length, from
                   1..3 different size tables), or fixed, inflated by element dependent dofs in any order; blocks are outer
                   products / sums of outer products of per-axis vectors; LoopConcatenate of higher-rank sparse chunks.
* `Gen5`           nvh.genexpr.Gen with multi-dimensional dofmaps, longer axes and n-ary products with inserted axes.

Every generator returns `(expr, arguments, tag)`.
"""
import numpy, itertools
from nutils import evaluable as ev, types
from . import genexpr

LENGTHS = [1, 2, 3, 4, 5]


def const(a, dtype=None):
    return ev.Constant(types.arraydata(numpy.array(a, dtype=dtype)))


def cshape(shape):
    return tuple(ev.constant(int(n)) for n in shape)


def distinct_shape(rng, nd, maxsize=120, lengths=LENGTHS):
    """nd axis lengths, pairwise different whenever possible (a stride / axis mix-up between two axes of equal length is invisible)"""
    for _ in range(20):
        shape = rng.sample(lengths, nd) if nd <= len(lengths) and rng.random() < .85 else [rng.choice(lengths) for _ in range(nd)]
        if int(numpy.prod(shape)) <= maxsize:
            return tuple(shape)
    shape = list(shape)
    while int(numpy.prod(shape)) > maxsize:    # too large: shorten the longest axis
        k = shape.index(max(shape))
        shape[k] = max(1, shape[k] - 2) if shape[k] > 2 else 1
    return tuple(shape)


def dyadic(rng, shape, dtype=float):
    n = int(numpy.prod(shape)) if len(shape) else 1
    if dtype == int:
        return numpy.array([rng.randint(-3, 3) for _ in range(n)], dtype=int).reshape(shape)
    d = rng.choice([1., 2., 4.])
    return numpy.array([rng.randint(-8, 8) / d for _ in range(n)], dtype=float).reshape(shape)


class Names:
    """fresh argument names + the argument values"""

    def __init__(self, rng):
        self.rng = rng
        self.args = {}
        self.n = 0

    def arg(self, shape, dtype=float, value=None):
        name = 'p%d' % self.n; self.n += 1
        self.args[name] = dyadic(self.rng, shape, dtype) if value is None else value
        return ev.Argument(name, cshape(shape), dtype)

    def loop_index(self, length):
        self.n += 1
        return ev.loop_index('l%d_%d' % (self.n, self.rng.getrandbits(20)), ev.constant(length))


def scatter(names, shape, dtype=float, nnz=None):
    """sparse array of the given shape: Unravel^k(Inflate(argument, flat positions, prod(shape))); positions may repeat"""
    rng = names.rng
    size = int(numpy.prod(shape))
    m = rng.choice([0, 1, 2, 3, 5]) if nnz is None else nnz
    if size == 0: m = 0
    flat = [rng.randrange(size) for _ in range(m)]
    e = ev.Inflate(names.arg((m,), dtype), const(flat, int), ev.constant(size))
    for k in range(len(shape) - 1):
        e = ev.Unravel(e, ev.constant(shape[k]), ev.constant(int(numpy.prod(shape[k+1:]))))
    if not shape:
        e = ev.Sum(ev.Inflate(names.arg((m,), dtype), const([0] * m, int), ev.constant(1)))
    return e


def loop_vector(names, n, dtype=float):
    """vector of length n assembled by an element loop with element dependent block sizes"""
    rng = names.rng
    nel = rng.choice([1, 2, 3, 4])
    sizes = [rng.choice([0, 1, 2, 3]) for _ in range(nel)]
    idx = names.loop_index(nel)
    ni, dofs, coeffs = per_element(names, idx, sizes, n, dtype)
    return ev.loop_sum(ev.Inflate(coeffs, dofs, ev.constant(n)), idx)


def per_element(names, idx, sizes, n, dtype=float):
    """(block length n_e, dofs_e : (n_e,) in [0,n), coefficients_e : (n_e,)) as functions of the loop index"""
    rng = names.rng
    sizes = list(sizes)
    off = numpy.cumsum([0] + sizes)
    ni = ev.Take(const(sizes + [0], int), idx)
    oi = ev.Take(const(off, int), idx)
    sl = ev.Range(ni) + ev.InsertAxis(oi, ni)
    tab = []
    for k in sizes:
        tab += rng.sample(range(n), k) if k <= n and rng.random() < .6 else [rng.randrange(n) for _ in range(k)]
    dofs = ev.Take(const(tab + [0], int), sl)
    coeffs = ev.Take(names.arg((int(off[-1]) + 1,), dtype), sl)
    if rng.random() < .4:
        w = idx + ev.constant(1)
        coeffs = coeffs * ev.InsertAxis(w if dtype == int else ev.IntToFloat(w), ni)
    return ni, dofs, coeffs


def insert_axes(rng, f, where, shape):
    """array on the axes `where` (ascending) of `shape` -> array of full `shape`, the other axes inserted; two raw forms"""
    nd = len(shape)
    where = list(where)
    if rng.random() < .5:
        for i in range(nd):
            if i not in where:
                f = ev.insertaxis(f, i, ev.constant(shape[i]))    # Transpose.from_end(InsertAxis(f), i)
        return f
    missing = [i for i in range(nd) if i not in where]
    for i in missing:
        f = ev.InsertAxis(f, ev.constant(shape[i]))
    cur = where + missing                                         # cur[k] = target axis of current axis k
    axes = tuple(cur.index(i) for i in range(nd))
    return f if axes == tuple(range(nd)) else ev.Transpose(f, axes)


def assoc(rng, factors, op):
    """random association of an ordered list by the raw binary constructor (in-order = list order)"""
    if len(factors) == 1:
        return factors[0]
    k = rng.randint(1, len(factors) - 1)
    return op(types.frozenmultiset([assoc(rng, factors[:k], op), assoc(rng, factors[k:], op)]))


def post_op(rng, e):
    """a structural operation on top (exercises the override above the generated node with a higher-rank sparse child)"""
    r = rng.random()
    nd = e.ndim
    if r < .55 or nd == 0:
        return e, ''
    if r < .7 and nd >= 2:
        axes = list(range(nd)); rng.shuffle(axes)
        if axes == list(range(nd)): axes = axes[1:] + axes[:1]
        return ev.Transpose(e, tuple(axes)), '+transpose'
    if r < .8:
        return ev.Sum(e), '+sum'
    if r < .87 and nd >= 2:
        return ev.Ravel(e), '+ravel'
    if r < .93 and nd <= 3:
        return ev.InsertAxis(e, ev.constant(rng.choice([1, 2]))), '+insertaxis'
    if nd <= 3:
        return ev.Diagonalize(e), '+diagonalize'
    return e, ''


# ---------------------------------------------------------------------------------------------------------------------
# products

def make_factor(names, fshape, dtype, kinds=('arg', 'arg', 'arg', 'sparse', 'loop', 'const')):
    rng = names.rng
    kind = rng.choice(kinds)
    if kind == 'loop' and len(fshape) == 1 and fshape[0] >= 1:
        return loop_vector(names, fshape[0], dtype), 'loop'
    if kind == 'sparse':
        return scatter(names, fshape, dtype), 'sparse'
    if kind == 'const':
        v = dyadic(rng, fshape, dtype)
        return const(v, dtype), 'const'
    return names.arg(fshape, dtype), 'arg'


def product_of(names, shape, subsets, dtype=float, kinds=None):
    """product (in the given order, random association, raw constructors) of one factor per axis subset"""
    rng = names.rng
    factors, used = [], []
    for w in subsets:
        w = sorted(w)
        f, kind = make_factor(names, tuple(shape[i] for i in w), dtype, *(() if kinds is None else (kinds,)))
        used.append(kind)
        factors.append(insert_axes(rng, f, w, shape))
    return assoc(rng, factors, ev.Multiply), used


def random_subsets(rng, nd, nf, cover):
    subsets = []
    for _ in range(nf):
        k = min(nd, rng.choice([0, 1, 1, 1, 1, 2, 2, 2, 3]))
        subsets.append(sorted(rng.sample(range(nd), k)))
    if cover:   # every axis is a real axis of some factor
        for i in range(nd):
            if not any(i in w for w in subsets):
                w = rng.choice(subsets)
                w.append(i); w.sort()
    return subsets


def product_case(rng, cover=None, small=False):
    """small: sizes that the (interpreted, symbolic) Lean evaluator handles quickly"""
    names = Names(rng)
    nd = rng.choice([2, 2, 3, 3, 3, 4])
    shape = distinct_shape(rng, nd, maxsize=24 if small else 100)
    nf = rng.choice([2, 3, 3, 3, 4] if small else [2, 3, 3, 3, 4, 4, 5])
    if cover is None: cover = rng.random() < .8
    subsets = random_subsets(rng, nd, nf, cover)
    dtype = rng.choice([float, float, float, int])
    e, used = product_of(names, shape, subsets, dtype)
    e, post = post_op(rng, e)
    return e, names.args, 'prod:%dd:%df%s' % (nd, nf, post)


def order_triples(nd):
    """every ordered triple of non-empty axis subsets of size <= 2 of a rank-nd array in which every axis is a real axis of some
    factor (an axis inserted in all factors is simplified away, and is outside the domain of the raw Multiply._assparse)"""
    subs = [list(s) for k in (1, 2) for s in itertools.combinations(range(nd), k)]
    return [t for t in itertools.product(subs, repeat=3) if len(set(i for w in t for i in w)) == nd]


def n_orders(nd):
    return len(order_triples(nd))


def product_orders(rng, nd):
    """exhaustive in the construction order: one product of three dense factors per ordered triple of axis subsets"""
    for triple in order_triples(nd):
        names = Names(rng)
        shape = distinct_shape(rng, nd, maxsize=60, lengths=[2, 3, 4, 5])
        e, used = product_of(names, shape, triple, float, kinds=('arg',))
        yield e, names.args, 'prod-orders:%dd' % nd


# ---------------------------------------------------------------------------------------------------------------------
# block inflation

def dofmap_of(names, dshape, n):
    """int array of shape dshape with entries in [0, n): injective when possible / with duplicates; constant or argument dependent"""
    rng = names.rng
    size = int(numpy.prod(dshape)) if len(dshape) else 1
    if size <= n and rng.random() < .5:
        v = numpy.array(rng.sample(range(n), size), dtype=int).reshape(dshape)
    else:
        v = numpy.array([rng.randrange(n) for _ in range(size)], dtype=int).reshape(dshape)
    r = rng.random()
    if r < .6:
        return const(v, int)
    if r < .85:
        return ev.InRange(names.arg(tuple(dshape), int, value=v), ev.constant(n))
    # a table indexed by an index block
    perm = list(range(size)); rng.shuffle(perm)
    tab = numpy.zeros(size, dtype=int); tab[perm] = v.reshape(-1)
    return ev.Take(const(tab, int), const(numpy.array(perm, dtype=int).reshape(dshape), int))


def block_shape(rng, k, maxsize=64):
    """shape of an index block with k axes: lengths >= 2 (unit axes of a dofmap are simplified away), neighbours preferably different"""
    for _ in range(40):
        shape = [rng.choice([2, 2, 3, 3, 4, 5, 1]) for _ in range(k)]
        if int(numpy.prod(shape)) <= maxsize and (k < 2 or rng.random() < .1 or all(a != b for a, b in zip(shape, shape[1:]))):
            return tuple(shape)
    return tuple([2, 3, 2, 3][:k])


def inflate_case(rng, small=False):
    names = Names(rng)
    k = rng.choice([0, 1, 2, 2, 3, 3, 3, 4])
    keep = rng.choice([0, 0, 1, 1, 2])
    dshape = block_shape(rng, k, maxsize=24 if small else 64)
    kshape = distinct_shape(rng, keep, maxsize=max(1, (36 if small else 160) // max(1, int(numpy.prod(dshape)))), lengths=[1, 2, 3, 4])
    full = tuple(kshape) + tuple(dshape)
    n = rng.choice([1, 2, 3, 5, 7, int(numpy.prod(dshape)), int(numpy.prod(dshape)) + 2])
    dtype = rng.choice([float, float, float, int])
    r = rng.random()
    if r < .5:
        func = names.arg(full, dtype); fk = 'arg'
    elif r < .7 and full:
        func = scatter(names, full, dtype, nnz=rng.choice([1, 3, 6, 10])); fk = 'sparse'
    elif len(full) >= 2:
        subsets = random_subsets(rng, len(full), rng.choice([2, 3]), True)
        func, _ = product_of(names, full, subsets, dtype, kinds=('arg', 'arg', 'sparse')); fk = 'prod'
    else:
        func = names.arg(full, dtype); fk = 'arg'
    dofmap = dofmap_of(names, dshape, n)
    if keep and rng.random() < .5:
        axis = rng.randrange(keep + 1)
        # the dofmap block sits at axes axis..axis+k of the operand, the inflated axis ends up at position `axis`
        perm = list(range(keep + k))
        src = perm[:axis] + perm[keep:] + perm[axis:keep]
        # operand with shape kshape[:axis] + dshape + kshape[axis:]
        func = ev.Transpose(func, tuple(src)) if src != perm else func
        e = ev._inflate(func, dofmap, ev.constant(n), axis)
    else:
        e = ev.Inflate(func, dofmap, ev.constant(n))
    tag = 'inflate:%dd-dofmap/keep%d/%s' % (k, keep, fk)
    if keep and rng.random() < .3:
        # inflate a second (kept) axis with a 1-d dofmap
        ax = rng.randrange(e.ndim)
        length = int(e.shape[ax].__index__()) if e.shape[ax].isconstant else None
        if length:
            m = rng.choice([length, length + 1, 2])
            e = ev._inflate(e, dofmap_of(names, (length,), m), ev.constant(m), ax); tag += '+inflate'
    e, post = post_op(rng, e)
    return e, names.args, tag + post


# ---------------------------------------------------------------------------------------------------------------------
# element loops of arbitrary rank

def loop_case(rng, small=False):
    names = Names(rng)
    nel = rng.choice([1, 2, 2, 3] if small else [1, 2, 3, 3, 4])
    rank = rng.choice([1, 2, 3, 3] if small else [1, 2, 3, 3, 3, 4])
    idx = names.loop_index(nel)
    dtype = float
    ntab = rng.randint(1, min(rank, 3))
    tables = []
    for _ in range(ntab):
        sizes = [rng.choice([0, 1, 2, 2] if small else [0, 1, 2, 2, 3]) for _ in range(nel)]
        tables.append(sizes)
    kind = rng.choice(['sum', 'sum', 'sum', 'concat'])
    axes = []    # per axis: dict(kind, vec, dofs, n, len)
    for a in range(rank):
        if rng.random() < (.75 if kind == 'sum' else .3):
            n = rng.choice([1, 2, 3, 4])
            ni, dofs, vec = per_element(names, idx, tables[rng.randrange(ntab)], n, dtype)
            axes.append(dict(kind='var', vec=vec, dofs=dofs, n=n, len=ni))
        else:
            k = rng.choice([1, 2, 3])
            vec = names.arg((k,), dtype)
            if rng.random() < .5:
                n = rng.choice([k, k + 1, 2])
                axes.append(dict(kind='fixed-inflated', vec=vec, dofs=dofmap_of(names, (k,), n), n=n, len=ev.constant(k)))
            else:
                axes.append(dict(kind='fixed', vec=vec, dofs=None, n=k, len=ev.constant(k)))
    if kind == 'concat':
        # LoopConcatenate along the last axis (variable or fixed chunk length), the leading axes must not depend on the loop index
        # (variable leading axes are inflated inside the loop)
        last = axes[-1]
        last['dofs'] = None; last['kind'] = 'chunk'
    lens = [ax['len'] for ax in axes]

    def outer():
        groups = []
        for a in range(rank):
            v = axes[a]['vec']
            if rng.random() < .3:
                v = v * v if rng.random() < .5 else v + v
            f = v
            for b in range(rank):
                if b != a:
                    f = ev.insertaxis(f, b, lens[b])
            groups.append(f)
        order = list(range(rank)); rng.shuffle(order)
        r = rng.random()
        if r < .6 or rank == 1:
            return ev.multiply(*[groups[a] for a in order])          # u_i v_j w_k: one cluster per axis
        if r < .8:
            return ev.add(*[groups[a] for a in order])               # u_i + v_j + w_k
        k = rng.randint(1, rank - 1)
        return ev.multiply(*[groups[a] for a in order[:k]]) + ev.multiply(*[groups[a] for a in order[k:]]) if rng.random() < .5 else \
            ev.multiply(ev.add(*[groups[a] for a in order[:k]]), *[groups[a] for a in order[k:]])
    block = outer()
    if rng.random() < .25:
        block = block + outer()
    inflate_order = [a for a in range(rank) if axes[a]['dofs'] is not None]
    rng.shuffle(inflate_order)
    for a in inflate_order:
        block = ev._inflate(block, axes[a]['dofs'], ev.constant(axes[a]['n']), a)
    nvar = sum(1 for ax in axes if ax['kind'] == 'var')
    if kind == 'sum':
        e = ev.loop_sum(block, idx)
    else:
        e = ev.loop_concatenate(block, idx)
    e, post = post_op(rng, e)
    return e, names.args, 'loop-%s:rank%d:%dvar%s' % (kind, rank, nvar, post)


# ---------------------------------------------------------------------------------------------------------------------
# random DAGs with the extra dimensions

class Gen5(genexpr.Gen):
    """genexpr.Gen with dofmaps of up to 4 axes with pairwise different lengths and n-ary products of factors with inserted axes"""

    def mk_Inflate(self, dtype, shape, depth):
        k = self.rng.choice([0, 1, 1, 2, 2, 3, 3, 4])
        room = max(1, 64 // max(1, int(numpy.prod(shape[:-1])) if shape[:-1] else 1))
        dshape = block_shape(self.rng, k, maxsize=room) if k else ()
        if int(numpy.prod(dshape)) > room: dshape = dshape[:2]
        n = shape[-1]
        if n == 0:
            dshape = (0,)
        func = self.array(dtype, shape[:-1] + tuple(dshape), depth-1)
        return ev.Inflate(func, self.index(tuple(dshape), n, depth-1), ev.constant(n))

    def mk_Multiply(self, dtype, shape, depth):
        nd = len(shape)
        if nd < 2 or self.rng.random() < .3:
            return super().mk_Multiply(dtype, shape, depth)
        nf = self.rng.choice([2, 3, 3, 4])
        subsets = random_subsets(self.rng, nd, nf, self.rng.random() < .8)
        factors = [insert_axes(self.rng, self.array(dtype, tuple(shape[i] for i in w), depth-1), w, shape) for w in subsets]
        return assoc(self.rng, factors, ev.Multiply)


def sparse_dag5(rng, maxdepth):
    g = Gen5(rng, allow=['InsertAxis', 'Transpose', 'Add', 'Multiply', 'Sum', 'Inflate', 'Diagonalize', 'Ravel', 'Unravel', 'Unravel0', 'LoopSum', 'LoopConcatenate'], share=.15)
    nd = rng.choice([1, 2, 2, 3, 3, 4])
    shape = distinct_shape(rng, nd, maxsize=60, lengths=[1, 2, 3, 4]) if rng.random() < .7 else tuple(rng.choice([1, 2, 2, 3, 0]) for _ in range(nd))
    return g.array(rng.choice([float, float, int]), shape, rng.choice(range(2, maxdepth+1))), g
