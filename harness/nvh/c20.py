"""C20 — physical dimensions are tracked soundly (nutils.SI, nutils.unit, nutils._util.nutils_dispatch).

Ties:
 (X) `Quantity.__DISPATCH_TABLE` (function, handler) and the unit definitions at the bottom of SI.py are
     extracted on every run into `lean/NutilsVerif/Generated/C20.lean`; `Props/C20.lean` proves
     `dispatch_table_sound`, `dispatch_units_invariant` and `unit_names_unambiguous` over every generated entry; that the model
     run over the extracted unit definitions reproduces the SI specification table is checked with the compiled model.
 (M) real `Dimension`/`Quantity`/`parse`/`Units`/`__format__`/`unit.create` against the Lean model
     (`Model/C20.lean`, `Model/C20Unit.lean`) on generated exponent vectors, unit strings and handler calls.
Specification oracles used for failing inputs (never "model != code" alone):
 * exact `fractions.Fraction` arithmetic on exponent dicts (the dimension group),
 * the law table `lawOf` of the Lean model (which dimension rule a dispatched function must obey),
 * the same NumPy/nutils computation on the unwrapped numbers (value commutes),
 * invariance under a change of reference units (rescaling by powers of two / four is exact in floats),
 * the meaning of a unit string known by construction from the SI specification table `siSpec`.
"""
import ast, inspect, itertools, operator, pickle, math, re, sys, functools
from fractions import Fraction
from .common import Infra

F = Fraction

# ------------------------------------------------------------------------------------------------ encoding

def rat(x):
    x = F(x)
    return str(x.numerator) if x.denominator == 1 else '%d/%d' % (x.numerator, x.denominator)

def unrat(s):
    return F(s)

def pows_str(p):
    return ','.join('%s:%s' % (b, rat(e)) for b, e in sorted(p.items()))

def pows_parse(s):
    return {} if s == '' else {b: F(e) for b, e in (item.rsplit(':', 1) for item in s.split(','))}

def canon(p):
    return {b: F(e) for b, e in p.items() if e}

def lean_str(s):
    return '"' + s.replace('\\', '\\\\').replace('"', '\\"') + '"'

def lean_rat(x):
    x = F(x)
    return '(%d : Rat)' % x.numerator if x.denominator == 1 else '((%d : Rat) / %d)' % (x.numerator, x.denominator)

def lean_chars(s):
    return '[' + ', '.join("'%s'" % ("\\'" if ch == "'" else '\\\\' if ch == '\\' else ch) for ch in s) + ']'

def lean_pows(p):
    return '[' + ', '.join('(%s, %s)' % (lean_str(b), lean_rat(e)) for b, e in sorted(p.items())) + ']'


# ------------------------------------------------------------------------------------------------ (X) extraction

def fname_of(f):
    mod = getattr(f, '__module__', None) or '?'
    if mod == '_operator': mod = 'operator'
    qn = getattr(f, '__qualname__', None) or getattr(f, '__name__', None) or repr(f)
    return mod + '.' + qn

def extract_dispatch(SI):
    table = SI.Quantity._Quantity__DISPATCH_TABLE
    lines = {}
    for f, p in table.items():
        lines.setdefault(p.func.__name__, set()).add(p.func.__code__.co_firstlineno)
    rank = {(n, l): i for n, ls in lines.items() for i, l in enumerate(sorted(ls))}
    entries = []
    for f, p in table.items():
        h = p.func
        entries.append(dict(fname=fname_of(f), handler=h.__name__, rank=rank[h.__name__, h.__code__.co_firstlineno], func=f, partial=p))
    entries.sort(key=lambda e: e['fname'])
    return entries

def extract_unit_defs(SI):
    """The statements `units.X = ...` / `units['X'] = ...` of SI.py, in source order."""
    src = inspect.getsource(SI)
    defs, unsupported = [], []
    for node in ast.parse(src).body:
        if not (isinstance(node, ast.Assign) and len(node.targets) == 1): continue
        t = node.targets[0]
        if isinstance(t, ast.Attribute) and isinstance(t.value, ast.Name) and t.value.id == 'units':
            v = node.value
            if isinstance(v, ast.Constant) and isinstance(v.value, str):
                defs.append(('str', t.attr, v.value)); continue
            if (isinstance(v, ast.Call) and isinstance(v.func, ast.Attribute) and v.func.attr == 'wrap' and isinstance(v.func.value, ast.Name)
                    and len(v.args) == 1 and isinstance(v.args[0], ast.Constant) and isinstance(v.args[0].value, (int, float))):
                dim = getattr(SI, v.func.value.id, None)
                if isinstance(dim, SI.Dimension):
                    from decimal import Decimal
                    txt = ast.get_source_segment(src, v.args[0])
                    defs.append(('wrap', t.attr, dict(dim._Dimension__powers), F(Decimal(txt)))); continue
            unsupported.append(ast.get_source_segment(src, node))
        elif isinstance(t, ast.Subscript) and isinstance(t.value, ast.Name) and t.value.id == 'units':
            v = node.value
            if (isinstance(t.slice, ast.Constant) and isinstance(t.slice.value, str) and isinstance(v, ast.BinOp) and isinstance(v.op, ast.Mult)
                    and isinstance(v.left, ast.Constant) and isinstance(v.right, ast.Attribute) and isinstance(v.right.value, ast.Name) and v.right.value.id == 'units'):
                defs.append(('item', t.slice.value, ast.get_source_segment(src, v.left) + v.right.attr)); continue
            unsupported.append(ast.get_source_segment(src, node))
    return defs, unsupported

def generated_text(entries, defs):
    L = ['import NutilsVerif.Model.C20', '/-! GENERATED on every run by harness/nvh/c20.py from /repo/src/nutils/SI.py — do not edit. -/',
         'namespace NutilsVerif.C20.Generated', '',
         '/-- `Quantity.__DISPATCH_TABLE`: (function, name of the handler it is registered with, rank among handlers of that name) -/',
         'def dispatchTable : List Entry := [']
    L += ['  ⟨%s, %s, %d⟩%s' % (lean_str(e['fname']), lean_str(e['handler']), e['rank'], ',' if i + 1 < len(entries) else '') for i, e in enumerate(entries)]
    L += [']', '', '/-- the unit definitions of SI.py in source order -/', 'def unitDefs : List UDef := [']
    items = []
    for d in defs:
        if d[0] == 'str': items.append('  .str %s %s' % (lean_chars(d[1]), lean_chars(d[2])))
        elif d[0] == 'item': items.append('  .item %s %s' % (lean_chars(d[1]), lean_chars(d[2])))
        else: items.append('  .wrap %s ⟨%s, %s⟩' % (lean_chars(d[1]), lean_pows(d[2]), lean_rat(d[3])))
    L += [',\n'.join(items), ']', '', 'end NutilsVerif.C20.Generated', '']
    return '\n'.join(L)

def defs_request(defs):
    out = []
    for d in defs:
        if d[0] == 'wrap': out.append('wrap=%s=%s=%s' % (d[1], pows_str(d[2]), rat(d[3])))
        else: out.append('%s=%s=%s' % (d[0], d[1], d[2]))
    return 'units|' + ';'.join(out)



# ------------------------------------------------------------------------------------------------ helpers on real objects

def powers_of(cls):
    return dict(cls._Dimension__powers)

def is_q(SI, x):
    return isinstance(x, SI.Quantity)

def dim_of(SI, x):
    """exponent dict of any value (plain values are dimensionless)"""
    return powers_of(type(x)) if isinstance(x, SI.Quantity) else {}

def unwrap(SI, x):
    return x.unwrap() if isinstance(x, SI.Quantity) else x

EXC = {'DimensionError': 'dimension', 'AssertionError': 'assertion', 'IndexError': 'index', 'TypeError': 'type',
       'ValueError': 'value', 'ZeroDivisionError': 'zeroDiv', 'RecursionError': 'recursion', 'StopIteration': 'stop',
       'AttributeError': 'attribute', 'KeyError': 'key', 'NotImplementedError': 'notimplemented'}

def exc_name(e):
    return EXC.get(type(e).__name__, type(e).__name__)

class Timer:
    pass

# spec oracle for the dimension group: exact Fraction arithmetic on dicts
def spec_mul(a, b): return canon({k: a.get(k, 0) + b.get(k, 0) for k in set(a) | set(b)})
def spec_div(a, b): return canon({k: a.get(k, 0) - b.get(k, 0) for k in set(a) | set(b)})
def spec_pow(a, q): return canon({k: v * F(q) for k, v in a.items()})

BASES = ['L', 'T', 'M', 'I', 'θ', 'N', 'J', 'X', 'Yy', 'a1b', 'x_y', 'Ω', 'q', 'LL', 'l', 'T2x', 'ab']
EXPS = [F(1), F(-1), F(2), F(-2), F(3), F(-3), F(4), F(1, 2), F(-1, 2), F(3, 2), F(1, 3), F(-2, 3), F(5, 7), F(10), F(12), F(-11), F(1, 10), F(11, 13), F(-21, 2), F(100, 3)]

def gen_pows(rng, maxn=4, bases=BASES, exps=EXPS):
    n = rng.choice([0, 1, 1, 2, 2, 3, maxn])
    return {b: rng.choice(exps) for b in rng.sample(bases, n)}

def gen_exponent(rng):
    """(python object passed to Dimension.__pow__, exact value)"""
    k = rng.randrange(7)
    import numpy
    if k == 0: v = rng.randint(-4, 4); return v, F(v)
    if k == 1: v = rng.choice(EXPS + [F(0)]); return v, v
    if k == 2: v = rng.choice([.5, -.5, 1.5, .25, 2., -3., 0., .125]); return v, F(v)
    if k == 3: v = rng.randint(-3, 3); return numpy.int64(v), F(v)
    if k == 4: v = rng.choice([.5, 2.5, -1.]); return numpy.float64(v), F(v)
    if k == 5: v = rng.choice(['1/2', '3', '-2/3']); return v, F(v)
    v = rng.randint(0, 3); return numpy.array(v), F(v)


# ------------------------------------------------------------------------------------------------ stream: dimension algebra

def stream_dim_algebra(c, SI, N):
    rng = c.rng
    D = SI.Dimension
    cases = []
    for _ in range(N):
        a, b = gen_pows(rng), gen_pows(rng)
        if rng.random() < .3: b = {k: rng.choice([v, -v, v]) for k, v in a.items()}   # cancellations
        op = rng.choice(['mul', 'div', 'pow', 'pow'])
        e = gen_exponent(rng) if op == 'pow' else None
        cases.append((op, a, b, e))
    req = []
    for op, a, b, e in cases:
        if op == 'pow': req.append('dimop|pow|%s|%s' % (pows_str(a), rat(e[1])))
        else: req.append('dimop|%s|%s|%s' % (op, pows_str(a), pows_str(b)))
    ans = yield req
    nbad = 0
    for (op, a, b, e), r in zip(cases, ans):
        A = D.from_powers(dict(a)); B = D.from_powers(dict(b))
        spec = spec_mul(a, b) if op == 'mul' else spec_div(a, b) if op == 'div' else spec_pow(a, e[1])
        replay = dict(stream='dim-algebra', op=op, a=pows_str(a), b=pows_str(b), exponent=repr(e[0]) if e else None, model=r)
        try:
            R = A * B if op == 'mul' else A / B if op == 'div' else A ** e[0]
        except Exception as ex:
            c.failing_input('dimension-algebra:%s-raises' % op, 'Dimension %s raises %s on valid operands' % (op, type(ex).__name__), dict(replay, exc=repr(ex)))
            nbad += 1; continue
        got = powers_of(R)
        mp, mname = r.split('|')[:2]
        c.case(('dim', op, pows_str(a), pows_str(b), rat(e[1]) if e else ''), nontrivial=bool(a))
        c.count('dim:' + op); c.count('dim:result-' + ('dimensionless' if not spec else 'fractional' if any(v.denominator != 1 for v in spec.values()) else 'integral'))
        c.sample(dict(replay, real=pows_str(got), name=R.__name__))
        # specification oracle
        if canon(got) != spec or any(not v for v in got.values()):
            c.failing_input('dimension-algebra:' + op, 'Dimension.%s gives exponents that differ from exact arithmetic on the operands\' exponents' % op, dict(replay, real=pows_str(got), spec=pows_str(spec)))
            nbad += 1; continue
        if R is not D.from_powers(dict(spec)) or bool(R) != bool(spec):
            c.failing_input('dimension-cache:identity', 'equal exponent vectors give different classes (cache keyed by name is not sound)', dict(replay, real=R.__name__))
            nbad += 1; continue
        try:
            back = getattr(SI.Quantity, R.__name__); back2 = pickle.loads(pickle.dumps(R))
        except Exception as ex:
            back = back2 = ex
        if back is not R or back2 is not R:
            c.failing_input('dimension-name:roundtrip', 'class name does not resolve back to the class (pickle round trip)', dict(replay, name=R.__name__, back=repr(back)))
            nbad += 1; continue
        # correspondence with the model
        if pows_parse(mp) != spec or R.__name__ != '[' + mname + ']':
            nbad += 1
            c.broken_no_input('corr:dimension-algebra', 'model and implementation disagree on exponents or class name', dict(replay, real=pows_str(got), name=R.__name__))
    # group laws directly on the real classes
    nlaw = 0
    for _ in range(N // 4):
        a, b, d = (D.from_powers(gen_pows(rng, exps=EXPS[:12])) for _ in range(3))
        p, q = rng.choice(EXPS[:12]), rng.choice(EXPS[:12] + [F(0)])
        laws = {'assoc': lambda: (a * b) * d is a * (b * d), 'comm': lambda: a * b is b * a, 'one': lambda: a * SI.Dimensionless is a and a / SI.Dimensionless is a,
                'inv': lambda: a / a is SI.Dimensionless and a * a ** -1 is SI.Dimensionless, 'div': lambda: a / b is a * b ** -1,
                'pow_add': lambda: a ** (p + q) is a ** p * a ** q, 'pow_mul': lambda: (a ** p) ** q is a ** (p * q), 'mul_pow': lambda: (a * b) ** q is a ** q * b ** q,
                'pow_one': lambda: a ** 1 is a and a ** 0 is SI.Dimensionless}
        for name, f in laws.items():
            nlaw += 1
            try: ok = f()
            except Exception as ex: ok = False
            if not ok:
                nbad += 1
                c.failing_input('dimension-group:' + name, 'group law %s fails on real Dimension classes' % name, dict(stream='dim-laws', law=name, a=a.__name__, b=b.__name__, d=d.__name__, p=str(p), q=str(q)))
        c.case(('laws', a.__name__, b.__name__, d.__name__, str(p), str(q)), nontrivial=bool(a))
    c.count('dim:laws-checked', nlaw)
    c.obligation('corr:dimension-algebra', nbad == 0, 'correspondence', '%d operations, %d law instances' % (len(cases), nlaw))


# ------------------------------------------------------------------------------------------------ stream: names, _split_factors, create, __getattr__

def gen_factor_string(rng):
    alpha = ['L', 'T', 'a', 'b', 'θ', '1', '2', '0', '3', '_', '*', '/', 'x', '12', '_2', 'M']
    return ''.join(rng.choice(alpha) for _ in range(rng.randint(0, 8)))

def stream_names(c, SI, N):
    rng = c.rng
    strings = ['', '*', '/', 'a', 'M*L/T2', 'M_2*L_2/T', 'M3_2*L3_2/T3', '/T', '/T/L', 'a//b', 'a*/b', 'a1_2_3', 'a__2', 'a2_', 'a_0', 'a0', '1', 'a1b2', 'x_y3', 'a_1_', 'a1__2', 'a_', 'a2_0']
    strings += [gen_factor_string(rng) for _ in range(N)]
    ans = yield ['split|' + s for s in strings] + ['dimofname|' + s for s in strings] + ['create|' + s for s in strings]
    n = len(strings); nbad = 0
    for i, s in enumerate(strings):
        # _split_factors
        try: real = 'ok|' + ';'.join('%s:%s:%d' % (b, rat(p), n_) for b, p, n_ in SI._split_factors(s))
        except Exception as e: real = 'err|' + exc_name(e)
        c.case(('split', s), nontrivial=len(s) > 1); c.count('split:' + real.split('|')[0])
        if real != ans[i]:
            nbad += 1; c.broken_no_input('corr:_split_factors', 'model and implementation disagree', dict(stream='names', op='split', s=s, real=real, model=ans[i]))
        # Dimension.create
        m = ans[2 * n + i].split('|')
        if s in SI.Dimension._Dimension__cache:
            c.count('create:skipped-name-in-cache')
        else:
            try:
                cls = SI.Dimension.create(s)
                real = 'ok' if powers_of(cls) == {s: F(1)} else 'ok-wrong-powers'
            except Exception as e: real = exc_name(e)
            c.count('create:' + real)
            m = ['ok' if m[0] == 'ok' else 'value' if m[0] == 'invalid' else 'stop' if m[0] == 'stop' else m[1], m[-1]]
            if real == 'ok' and m[-1] != '1':
                # the specification (ValidBase) says the name of this base is ambiguous
                c.failing_input('dimension-create:accepts-ambiguous', 'Dimension.create accepts a symbol whose class name cannot be parsed back', dict(stream='names', op='create', s=s, model=ans[2 * n + i]))
                nbad += 1
            elif real != m[0]:
                nbad += 1; c.broken_no_input('corr:Dimension.create', 'model and implementation disagree', dict(stream='names', op='create', s=s, real=real, model=ans[2 * n + i]))
        # Quantity.__getattr__('[s]')
        if ans[n + i].startswith('ok|') and ans[n + i].endswith('|0'):
            # a base symbol that Dimension.create rejects: the name cache is history dependent, and resolving such a name for real
            # would plant a class with foreign bases under the name of a legitimate dimension for the rest of this process
            c.count('getattr:skipped-ambiguous-base')
            real = None
        else:
            try: real = 'ok|' + pows_str(powers_of(getattr(SI.Quantity, '[' + s + ']')))
            except Exception as e: real = 'err|' + exc_name(e)
            c.count('getattr:' + real.split('|')[0])
        if real is None: pass
        elif real != ans[n + i].rsplit('|', 1)[0] if ans[n + i].startswith('ok|') else real != ans[n + i]:
            nbad += 1; c.broken_no_input('corr:Dimension.__getattr__', 'model and implementation disagree', dict(stream='names', op='getattr', s=s, real=real, model=ans[n + i]))
    c.obligation('corr:names', nbad == 0, 'correspondence', '%d strings x (split, getattr, create)' % n)


# ------------------------------------------------------------------------------------------------ stream: the handler functions, probed with a recording stub

SMALL_DIMS = [{}, {'L': F(1)}, {'T': F(1)}, {'L': F(1), 'T': F(-1)}, {'M': F(1, 2)}, {'L': F(2)}, {'L': F(-1)}]

class Plain:
    'a positional argument that is not a Quantity'
    def __init__(self, i): self.i = i

def show_val(SI, i, a):
    if isinstance(a, str): return a
    if isinstance(a, SI.Quantity): return 'Q<%s>[%s]' % (pows_str(powers_of(type(a))), show_val(SI, i, a.unwrap()))
    if isinstance(a, (list, tuple)): return '[' + ','.join(show_val(SI, j, x) for j, x in enumerate(a)) + ']'
    if isinstance(a, Plain): return 'a%d' % a.i
    return 'a%d' % i

def make_arg(SI, rng, i, dims):
    """(real argument, protocol encoding)"""
    d = rng.choice(dims)
    if rng.random() < .3 or not d:
        if d or rng.random() < .7:
            return Plain(i), 'p'
        # a Quantity class can be dimensionless only through direct instantiation; wrap() never produces one
        return Plain(i), 'p'
    return SI.Dimension.from_powers(dict(d)).wrap('a%d' % i), 'q:' + pows_str(d)

def stream_handlers(c, SI, entries, N, out):
    rng = c.rng
    handlers = {}
    for e in entries:
        handlers.setdefault((e['handler'], e['rank']), e['partial'].func)
    keys = sorted(handlers)
    kinds = yield ['handler|%s|%d' % k for k in keys]
    nbad = 0
    cases = []
    pending = {}
    for key, kind in zip(keys, kinds):
        if kind in ('none', 'bad-request'):
            c.count('handlers:unknown-handler')
            nbad += 1
            c.broken_no_input('corr:handler-name', 'dispatch handler %r is unknown to the model' % (key,), dict(stream='handlers', handler=key))
            continue
        for _ in range(N):
            dims = [rng.choice(SMALL_DIMS[1:]) for _ in range(2)] + [{}]      # few distinct dimensions so that agreement is frequent
            if kind == 'stackLike':
                seq = [make_arg(SI, rng, i, dims) for i in range(rng.choice([0, 1, 2, 2, 3]))]
                rest = [(Plain(len(seq) + j), 'p') for j in range(rng.choice([0, 0, 1]))]
                cases.append((key, kind, ('stack', seq, rest), 'stack|%s|%s' % (';'.join(a[1] for a in seq), ';'.join(a[1] for a in rest))))
            elif kind == 'locate':
                ops = []
                for j, optional in enumerate([False, False, True, True]):
                    if optional and rng.random() < .4: ops.append((None, 'none'))
                    else: ops.append(make_arg(SI, rng, j, dims))
                cases.append((key, kind, ('locate', ops), 'locate|' + '|'.join(o[1] for o in ops)))
            else:
                n = 2 if kind == 'sample' else rng.choice([3, 3, 4]) if kind == 'interp' else rng.choice([0, 1, 1, 2, 2, 2, 3, 3, 4])
                args = [make_arg(SI, rng, i, dims) for i in range(n)]
                expo = 'none'
                if kind == 'powLike' and n >= 2:
                    if rng.random() < .15: args[1] = (rng.choice([None, object()]), 'p')
                    else:
                        obj, val = gen_exponent(rng); args[1] = (val if isinstance(obj, str) else obj, 'p'); expo = rat(val)
                cases.append((key, kind, ('args', args), 'apply|%s|%s|%s' % (kind, ';'.join(a[1] for a in args), expo)))
    ans = yield [x[3] for x in cases]
    for (key, kind, call, req), m in zip(cases, ans):
        h = handlers[key]
        def stub(*args, **kwargs):
            s = 'f(' + ','.join(show_val(SI, i, a) for i, a in enumerate(args)) + ')'
            return tuple(s + '#%d' % i for i in range(len(args))) if kind == 'evaluate' else s
        try:
            if call[0] == 'stack':
                r = h(stub, [a[0] for a in call[1]], *[a[0] for a in call[2]])
            elif call[0] == 'locate':
                g, co, tol, md = [o[0] for o in call[1]]
                r = h(lambda topo, geom, coords, **kw: 'located', 'topo', g, co, tol=tol, maxdist=md)
                r = 'ok'
            else:
                r = h(stub, *[a[0] for a in call[1]])
            real = 'ok|' + (';'.join(show_val(SI, 0, x) for x in r) if isinstance(r, tuple) else show_val(SI, 0, r)) if r != 'ok' else 'ok'
        except Exception as e:
            real = 'err|' + exc_name(e)
        c.case(('handler', key, req), nontrivial='q:' in req)
        c.count('handler:%s:%s' % (kind, real.split('|')[0] if real.startswith('ok') else real))
        if real != m:
            nbad += 1
            pending.setdefault(kind, dict(stream='handlers', handler=key, request=req, real=real, model=m))
    c.sample(dict(stream='handlers', request=cases[-1][3], model=ans[-1]))
    c.obligation('corr:handlers', nbad == 0, 'correspondence', '%d handler calls over %d handlers' % (len(cases), len(keys)))
    out['handler_kinds'] = dict(zip(keys, kinds)); out['pending'] = pending


# ------------------------------------------------------------------------------------------------ stream: every dispatched function through the public API

HALF_DIMS = [{'L': F(1)}, {'T': F(1)}, {'L': F(1), 'T': F(-1)}, {'M': F(1, 2)}, {'L': F(2)}, {'L': F(-1)}, {'M': F(1), 'L': F(1), 'T': F(-2)},
             {'L': F(1, 2), 'T': F(-3, 2)}, {'θ': F(-1)}, {'I': F(2), 'T': F(1)}]

class NotQuarter(ValueError):
    'the rescaling test needs exponents that are multiples of 1/4 (scale factors must be exact powers of two)'

def scale_of(p):
    """factor by which the numerical value of a quantity of dimension p changes when every reference unit shrinks by 16
    (exponents are multiples of 1/4, so this is an exact power of two)"""
    e = sum(p.values(), F(0)) * 4
    if e.denominator != 1: raise NotQuarter('exponent is not a multiple of 1/4')
    return 2. ** int(e)

class World:
    """nutils objects shared by the function-array recipes"""
    def __init__(self):
        import numpy
        from nutils import mesh, function
        self.topo, self.geom = mesh.rectilinear([2, 2])
        self.basis = self.topo.basis('std', degree=1)
        self.u = function.field('u', self.basis)
        self.args = dict(u=numpy.array([1, 2, .5, 3, -1, 2, .25, 1, 4.]))
        self.smp = self.topo.sample('gauss', 2)
        self.bsmp = self.topo.boundary.sample('gauss', 2)
        self.ismp = self.topo.interfaces.sample('gauss', 1)
        self.topo3, self.geom3 = mesh.rectilinear([1, 1, 1])
        self.smp3 = self.topo3.sample('gauss', 1)

def np_values(rng, shape, positive=False, cplx=False):
    import numpy
    pool = [.25, .5, 1., 1.5, 2., 3., 4., .75] if positive else [.25, .5, 1., 1.5, 2., 3., 4., -.5, -1., -2.5, 0.]
    a = numpy.array([rng.choice(pool) for _ in range(int(numpy.prod(shape, dtype=int)))]).reshape(shape)
    if cplx: a = a + 1j * numpy.array([rng.choice(pool) for _ in range(a.size)]).reshape(shape)
    return a

def recipes(SI, W, rng):
    """fname -> list of (view, makers, call, how to evaluate).  `view` lists the positional arguments as the handler sees
    them ('q<i>' operand i, 'p' something without dimension, ['q0','q1'] a sequence); `makers` build the plain operands."""
    import numpy
    from nutils import function
    A = lambda **kw: (lambda: np_values(rng, (2, 3), **kw))
    V = lambda **kw: (lambda: np_values(rng, (3,), **kw))
    Mx = lambda **kw: (lambda: np_values(rng, (3, 3), **kw))
    S = lambda **kw: (lambda: float(np_values(rng, (), **kw)))
    P = dict(positive=True)
    u, geom = W.u, W.geom
    fs = lambda: u * u + rng.choice([1., 2.]) * geom[0]          # scalar function array
    fv = lambda: geom * rng.choice([1., 2., .5]) + u              # vector function array (also a valid geometry)
    gx = lambda: geom * rng.choice([2., .5, 1.]) + rng.choice([0., 1.]) * geom[::-1] * geom[::-1] * .25   # curved geometry
    g3 = lambda: W.geom3 * rng.choice([2., .5, 1.])
    f3 = lambda: W.geom3 * W.geom3[::-1] * rng.choice([1., 2.])
    R = {}
    def add(name, view, makers, call, ev='np'):
        R.setdefault(name, []).append((view, makers, call, ev))
    # -- degree one in the first operand
    add('operator.pos', ['q0'], [A()], lambda a: +a)
    add('operator.neg', ['q0'], [A()], lambda a: -a)
    add('operator.abs', ['q0'], [A()], lambda a: abs(a))
    add('operator.getitem', ['q0', 'p'], [A()], lambda a: a[1])
    add('operator.getitem', ['q0', 'p'], [A()], lambda a: a[..., ::2])
    for n in ('positive', 'negative', 'absolute'):
        add('numpy.' + n, ['q0'], [A()], (lambda f: lambda a: f(a))(getattr(numpy, n)))
    for n in ('conjugate', 'real', 'imag'):
        add('numpy.' + n, ['q0'], [A(cplx=True)], (lambda f: lambda a: f(a))(getattr(numpy, n)))
    add('numpy.transpose', ['q0'], [A()], lambda a: numpy.transpose(a))
    add('numpy.reshape', ['q0', 'p'], [A()], lambda a: numpy.reshape(a, (3, 2)))
    add('numpy.broadcast_to', ['q0', 'p'], [V()], lambda a: numpy.broadcast_to(a, (2, 3)))
    add('numpy.take', ['q0', 'p'], [A()], lambda a: numpy.take(a, [0, 2], axis=1))
    add('numpy.sum', ['q0'], [A()], lambda a: numpy.sum(a))
    add('numpy.sum', ['q0', 'p'], [A()], lambda a: numpy.sum(a, 1))
    add('numpy.mean', ['q0', 'p'], [A()], lambda a: numpy.mean(a, 0))
    add('numpy.trace', ['q0'], [Mx()], lambda a: numpy.trace(a))
    for n in ('max', 'min', 'amax', 'amin', 'ptp'):
        add('numpy.' + n, ['q0'], [A()], (lambda f: lambda a: f(a))(getattr(numpy, n)))
        add('numpy.' + n, ['q0', 'p'], [A()], (lambda f: lambda a: f(a, 1))(getattr(numpy, n)))
    add('numpy.linalg.norm', ['q0'], [V()], lambda a: numpy.linalg.norm(a))
    add('numpy.linalg.norm', ['q0'], [A()], lambda a: numpy.linalg.norm(a, axis=1))
    add('numpy.linalg.norm', ['q0', 'p'], [V()], lambda a: numpy.linalg.norm(a, 1))
    add('numpy.linalg.norm', ['q0', 'p'], [V()], lambda a: numpy.linalg.norm(a, numpy.inf))
    # -- two operands that must agree
    add('operator.add', ['q0', 'q1'], [A(), A()], lambda a, b: a + b)
    add('operator.sub', ['q0', 'q1'], [A(), A()], lambda a, b: a - b)
    add('operator.mod', ['q0', 'q1'], [A(), A(**P)], lambda a, b: a % b)
    for n in ('add', 'subtract', 'maximum', 'minimum', 'hypot'):
        add('numpy.' + n, ['q0', 'q1'], [A(), A()], (lambda f: lambda a, b: f(a, b))(getattr(numpy, n)), 'np~' if n == 'hypot' else 'np')
    # -- products and quotients
    add('operator.mul', ['q0', 'q1'], [A(), A()], lambda a, b: a * b)
    add('operator.mul', ['q0', 'q1'], [S(), A()], lambda a, b: a * b)
    add('operator.matmul', ['q0', 'q1'], [A(), Mx()], lambda a, b: a @ b)
    add('numpy.multiply', ['q0', 'q1'], [A(), V()], lambda a, b: numpy.multiply(a, b))
    add('numpy.matmul', ['q0', 'q1'], [V(), Mx()], lambda a, b: numpy.matmul(a, b))
    add('operator.truediv', ['q0', 'q1'], [A(), A(**P)], lambda a, b: a / b)
    add('operator.truediv', ['q0', 'q1'], [S(), A(**P)], lambda a, b: a / b)
    add('numpy.divide', ['q0', 'q1'], [A(), A(**P)], lambda a, b: numpy.divide(a, b))
    add('numpy.sqrt', ['q0'], [A(**P)], lambda a: numpy.sqrt(a))
    for e in (2, -1, 0, 3, .5, 1.5, -2.):
        add('operator.pow', ['q0', 'e'], [A(**P), lambda e=e: e], lambda a, e: a ** e, 'np' if float(e).is_integer() and abs(e) <= 3 else 'np~')
        add('numpy.power', ['q0', 'e'], [A(**P), lambda e=e: e], lambda a, e: numpy.power(a, e), 'np' if float(e).is_integer() and abs(e) <= 3 else 'np~')
    # -- plain results
    for n in ('isnan', 'isfinite', 'shape', 'ndim', 'size'):
        add('numpy.' + n, ['q0'], [A()], (lambda f: lambda a: f(a))(getattr(numpy, n)))
    for n, f in dict(eq=operator.eq, ne=operator.ne, lt=operator.lt, le=operator.le, gt=operator.gt, ge=operator.ge).items():
        add('operator.' + n, ['q0', 'q1'], [A(), A()], (lambda f: lambda a, b: f(a, b))(f))
    for n in ('equal', 'not_equal', 'less', 'less_equal', 'greater', 'greater_equal'):
        add('numpy.' + n, ['q0', 'q1'], [A(), A()], (lambda f: lambda a, b: f(a, b))(getattr(numpy, n)))
    # -- sequences, assignment, interpolation
    add('numpy.stack', [['q0', 'q1', 'q2']], [V(), V(), V()], lambda a, b, d: numpy.stack([a, b, d]))
    add('numpy.stack', [['q0', 'q1']], [V(), V()], lambda a, b: numpy.stack([a, b], axis=1))
    add('numpy.concatenate', [['q0', 'q1']], [V(), A()], lambda a, b: numpy.concatenate([a, b[0]]))
    add('numpy.concatenate', [['q0', 'q1', 'q2']], [A(), A(), A()], lambda a, b, d: numpy.concatenate([a, b, d], axis=1))
    def setitem(a, b):
        a[1] = b
        return a
    add('operator.setitem', ['q0', 'p', 'q1'], [A(), V()], setitem)
    add('numpy.interp', ['q0', 'q1', 'q2'], [lambda: numpy.array([rng.choice([-1., .5, 1.25, 2.5, 3.75, 6.]) for _ in range(4)]),
                                             lambda: numpy.array([0., 1., 1.5, 3., 5.]), lambda: np_values(rng, (5,))], lambda x, xp, fp: numpy.interp(x, xp, fp))
    # -- nutils function arrays
    add('nutils.function.derivative', ['q0', 'p'], [fs], lambda a: function.derivative(a, 'u'), 'smp')
    add('nutils.function.factor', ['q0'], [fs], lambda a: function.factor(W.smp.integral(a)), 'eval')
    add('nutils.function.jump', ['q0'], [fs], lambda a: function.jump(a), 'ismp')
    add('nutils.function.opposite', ['q0'], [fs], lambda a: function.opposite(a), 'ismp')
    add('nutils.function.kronecker', ['q0', 'p', 'p', 'p'], [fs], lambda a: function.kronecker(a, 0, 3, 1), 'smp')
    add('nutils.function.scatter', ['q0', 'p', 'p'], [fv], lambda a: function.scatter(a, 4, numpy.array([0, 2])), 'smp')
    add('nutils.function.linearize', ['q0', 'p'], [fs], lambda a: function.linearize(a, 'u:v'), 'smp+v')
    add('nutils.function.swap_spaces', ['q0', 'p', 'p'], [fs], lambda a: function.swap_spaces(a, 'X', 'Y'), 'none')
    add('nutils.function.replace_arguments', ['q0', 'p'], [fs], lambda a: function.replace_arguments(a, dict(u=function.Argument('u', (9,)) * 2.)), 'smp')
    add('nutils.function.grad', ['q0', 'q1'], [fs, gx], lambda a, x: function.grad(a, x), 'smp~')
    add('nutils.function.grad', ['q0', 'q1'], [fv, gx], lambda a, x: function.grad(a, x), 'smp~')
    add('nutils.function.surfgrad', ['q0', 'q1'], [fs, gx], lambda a, x: function.surfgrad(a, x), 'bsmp~')
    add('nutils.function.div', ['q0', 'q1'], [fv, gx], lambda a, x: function.div(a, x), 'smp~')
    add('nutils.function.curl', ['q0', 'q1'], [f3, g3], lambda a, x: function.curl(a, x), 'smp3~')
    add('nutils.function.laplace', ['q0', 'q1'], [fs, gx], lambda a, x: function.laplace(a, x), 'smp~')
    add('nutils.function.jacobian', ['q0', 'e'], [gx, lambda: 2], lambda x, n: function.jacobian(x, n), 'smp~')
    add('nutils.function.jacobian', ['q0', 'e'], [gx, lambda: 1], lambda x, n: function.jacobian(x, n), 'bsmp~')
    add('nutils.function.normal', ['q0'], [gx], lambda x: function.normal(x), 'bsmp~')
    add('nutils.function.normalized', ['q0'], [lambda: fv() + 3.], lambda a: function.normalized(a), 'smp~')
    add('nutils.function.curvature', ['q0'], [gx], lambda x: function.curvature(x), 'bsmp~')
    add('nutils.function.evaluate', ['q0', 'q1', 'q2'], [lambda: function.field('c', shape=(2,)), lambda: function.field('d') * 2., lambda: function.field('c', shape=(2,)).sum()],
        lambda a, b, d: function.evaluate(a, b, d, arguments=dict(c=numpy.array([1., .5]), d=numpy.array(3.))), 'tuple')
    add('nutils.function.field', ['p', 'q0', 'q1'], [lambda: W.basis, lambda: numpy.array([1., .5])], lambda a, b: function.field('w', a, b, shape=(2,)), 'smp+w')
    add('nutils.function.field', ['p', 'q0'], [lambda: W.basis], lambda a: function.field('u', a), 'smp')
    add('nutils.function.arguments_for', ['q0', 'q1'], [fs, gx], lambda a, b: sorted(function.arguments_for(a, b)), 'none')
    add('nutils.sample.Sample.integral', ['p', 'q0'], [fs], lambda a: W.smp.integral(a), 'eval')
    add('nutils.sample.Sample.bind', ['p', 'q0'], [fs], lambda a: W.smp.bind(a), 'eval')
    return R

def evaluate_result(SI, W, r, ev):
    """numerical content of a result (after unwrapping), as a list of numpy arrays / python values"""
    import numpy
    from nutils import function
    ev = ev.rstrip('~')
    if isinstance(r, tuple): return [x for y in r for x in evaluate_result(SI, W, y, ev)]
    r = unwrap(SI, r)
    if ev in ('np', 'tuple', 'none'):
        return [r if isinstance(r, (list, tuple, int, bool, dict, str)) else numpy.asarray(r)] if ev != 'none' else [repr(r) if isinstance(r, list) else getattr(r, 'shape', None)]
    args = dict(W.args)
    if ev.endswith('+v'): args['v'] = numpy.arange(9.) / 2; ev = ev[:-2]
    if ev.endswith('+w'): args['w'] = numpy.arange(36.).reshape(9, 2, 2) / 8; ev = ev[:-2]
    if ev == 'eval':
        return [numpy.asarray(x) for x in function.evaluate(r, arguments=args)]
    if not hasattr(r, 'arguments'): return [numpy.asarray(r)]
    smp = dict(smp=W.smp, bsmp=W.bsmp, ismp=W.ismp, smp3=W.smp3)[ev]
    return [numpy.asarray(smp.eval(r, arguments={k: v for k, v in args.items() if k in r.arguments}))]

def same(a, b, tol, atol=None):
    import numpy
    if len(a) != len(b): return False
    for x, y in zip(a, b):
        if isinstance(x, numpy.ndarray) or isinstance(y, numpy.ndarray):
            x = numpy.asarray(x); y = numpy.asarray(y)
            if x.shape != y.shape: return False
            if x.dtype.kind in 'fc' or y.dtype.kind in 'fc':
                if tol:
                    if not numpy.allclose(x, y, rtol=tol, atol=tol * 1e-3 if atol is None else atol, equal_nan=True): return False
                elif not numpy.array_equal(x, y, equal_nan=True): return False
            elif not numpy.array_equal(x, y): return False
        elif x != y: return False
    return True

def encode_view(view, dims, isq, expo):
    out = []
    for v in view:
        if isinstance(v, list): raise ValueError
        if v == 'p' or v == 'e': out.append('p')
        else:
            i = int(v[1:]); out.append('q:' + pows_str(dims[i]) if isq[i] else 'p')
    return out

def stream_api(c, SI, entries, N, out):
    import numpy
    rng = c.rng
    import treelog
    W = World()
    R = recipes(SI, W, rng)
    names = sorted(set(e['fname'] for e in entries) | set(R))
    laws = dict(zip(names, (yield ['law|' + n for n in names])))
    registered = {e['fname']: e for e in entries}
    plan = []
    for name in names:
        law = laws[name]
        if law == 'none':
            c.count('api:unclassified-function'); c.extra.setdefault('unclassified_dispatch_entries', []).append(name); continue
        if name not in R:
            c.count('api:classified-without-recipe'); c.extra.setdefault('no_recipe', []).append(name); continue
        kind = law.split('|')[1]
        for _ in range(N):
            view, makers, call, ev = rng.choice(R[name])
            nops = len(makers)
            qslots = sorted({int(v[1:]) for vv in view for v in (vv if isinstance(vv, list) else [vv]) if v[0] == 'q'})
            mode = rng.choice(['same', 'same', 'free', 'free', 'mixed-plain'])
            base = rng.choice(HALF_DIMS)
            dims = {}; isq = {}
            for i in qslots:
                dims[i] = base if mode == 'same' else rng.choice(HALF_DIMS)
                isq[i] = True
            if mode == 'mixed-plain' and len(qslots) > 1:
                j = rng.choice(qslots); isq[j] = False; dims[j] = {}
            expo = None
            plan.append((name, kind, view, makers, call, ev, dims, isq, mode))
    # model requests
    req = []
    vals = []
    for name, kind, view, makers, call, ev, dims, isq, mode in plan:
        plain = [m() for m in makers]
        vals.append(plain)
        expo = 'none'
        if 'e' in view:
            expo = rat(F(plain[view.index('e')]))
        if isinstance(view[0], list):
            req.append('stack|%s|' % ';'.join(('q:' + pows_str(dims[int(v[1:])])) if isq[int(v[1:])] else 'p' for v in view[0]))
        else:
            req.append('apply|%s|%s|%s' % (kind, ';'.join(encode_view(view, dims, isq, expo)), expo))
    ans = yield req
    nbad = 0; nfail = 0
    failed_functions = set()
    for (name, kind, view, makers, call, ev, dims, isq, mode), plain, rq, m in zip(plan, vals, req, ans):
        D = SI.Dimension
        def operands(scale):
            ops = []
            for i, v in enumerate(plain):
                if isinstance(v, numpy.ndarray): v = v.copy()
                if i in dims and isq[i]:
                    ops.append(D.from_powers(dict(dims[i])).wrap(v * scale_of(dims[i]) if scale else v))
                else:
                    ops.append(v)
            return ops
        tol = 0 if ev in ('np', 'none', 'tuple') else 1e-11     # function arrays: the rescaled expression may be simplified differently
        replay = dict(stream='api', function=name, request=rq, model=m, mode=mode, operands=[repr(v)[:200] for v in plain],
                      dims={str(i): pows_str(d) for i, d in dims.items()}, quantity={str(i): q for i, q in isq.items()})
        c.case(('api', name, rq), nontrivial=True)
        # what the law demands
        if m.startswith('ok|'):
            body = m[3:]
            parts = body.split(';') if kind == 'evaluate' else [body]
            want_dims = [pows_parse(re.match(r'Q<([^>]*)>', p_).group(1)) if p_.startswith('Q<') else {} for p_ in parts]
        else:
            want_dims = None
        try:
            r = call(*operands(False)); rexc = None
        except Exception as e:
            r = None; rexc = e
        c.count('api:%s:%s' % (kind, 'ok' if rexc is None else exc_name(rexc)))
        if name not in registered:
            c.count('api:not-registered')
        if m == 'err|assertion' or name == 'operator.setitem' and not isq[0]:
            continue                      # no operand is a quantity in a checked position: the call may not even reach the handler
        sig_fn = name.rsplit('.', 1)[-1]
        if want_dims is None:
            # the law says the operands are incompatible: must be rejected (TypeError family), except ==/!= through the operators,
            # where Python falls back to identity and the answer must not depend on the values
            if rexc is None:
                if name in ('operator.eq', 'operator.ne') and isinstance(r, bool) and r == (name == 'operator.ne'):
                    c.count('api:eq-ne-fallback'); continue
                nfail += 1; failed_functions.add(name)
                c.failing_input('mixed-dimensions-accepted:' + sig_fn, '%s accepts operands of different dimension' % name, dict(replay, real=repr(r)[:300]))
            elif not isinstance(rexc, TypeError):
                nbad += 1
                c.broken_no_input('corr:api-error-class', '%s rejects incompatible operands with %s instead of a TypeError' % (name, type(rexc).__name__), dict(replay, exc=repr(rexc)[:300]))
            continue
        if rexc is not None:
            try: call(*[v.copy() if isinstance(v, numpy.ndarray) else v for v in plain]); pexc = None
            except Exception as e: pexc = e
            if type(pexc) is type(rexc):
                c.count('api:plain-computation-raises-too'); continue
            nfail += 1; failed_functions.add(name)
            sig = 'dispatch:curvature-not-unwrapped' if name == 'nutils.function.curvature' and isinstance(rexc, RecursionError) else 'dispatch-raises:%s:%s' % (sig_fn, type(rexc).__name__)
            what = ('function.curvature on a dimensional geometry never returns: handler passes the wrapped Quantity back to the dispatching function (RecursionError)'
                    if sig.startswith('dispatch:curvature') else '%s raises %s on operands its law admits' % (name, type(rexc).__name__))
            c.failing_input(sig, what, dict(replay, exc=repr(rexc)[:300]))
            continue
        results = list(r) if kind == 'evaluate' and isinstance(r, tuple) else [r]
        got_dims = [canon(dim_of(SI, x)) for x in results]
        if got_dims != want_dims:
            nfail += 1; failed_functions.add(name)
            c.failing_input('wrong-dimension:' + sig_fn, '%s returns a dimension that differs from the one its homogeneity law dictates' % name,
                            dict(replay, real=[pows_str(d) for d in got_dims], want=[pows_str(d) for d in want_dims]))
            continue
        # value commutes with unwrapping
        try:
            v_real = evaluate_result(SI, W, r, ev)
            v_plain = evaluate_result(SI, W, call(*[v.copy() if isinstance(v, numpy.ndarray) else v for v in plain]), ev)
        except Exception as e:
            nbad += 1
            c.broken_no_input('corr:api-evaluation', 'result of %s cannot be evaluated: %s' % (name, type(e).__name__), dict(replay, exc=repr(e)[:300])); continue
        if not same(v_real, v_plain, 0):
            nfail += 1; failed_functions.add(name)
            c.failing_input('value-differs:' + sig_fn, 'numerical value of %s on quantities differs from the same computation on the plain numbers' % name,
                            dict(replay, real=repr(v_real)[:300], plain=repr(v_plain)[:300]))
            continue
        c.traces += 1
        # change of reference units
        if not all(numpy.all(numpy.isfinite(x)) for x in v_real if isinstance(x, numpy.ndarray) and x.dtype.kind == 'f'):
            c.count('api:non-finite-value'); continue
        try:
            r2 = call(*operands(True))
            v2 = evaluate_result(SI, W, r2, ev)
            res2 = list(r2) if kind == 'evaluate' and isinstance(r2, tuple) else [r2]
            expect = [x * scale_of(d) if isinstance(x, numpy.ndarray) and x.dtype.kind in 'fc' and len(v_real) == len(res2) else x for x, d in zip(v_real, got_dims * (len(v_real) // max(1, len(got_dims))))]
            okscale = same(v2, expect, tol, atol=(1e-9 * max([scale_of(d) for d in got_dims] + [1.])) if tol else None)
        except NotQuarter:
            c.count('api:unit-invariance-skipped-eighth-exponent'); continue
        except Exception as e:
            okscale = False; v2 = repr(e)
        if not okscale:
            nfail += 1; failed_functions.add(name)
            c.failing_input('unit-dependence:' + sig_fn, 'result of %s changes with the choice of reference units' % name, dict(replay, real=repr(v_real)[:300], rescaled=repr(v2)[:300]))
            continue
        c.count('api:unit-invariance-checked')
    c.sample(dict(stream='api', request=req[-1], model=ans[-1], function=plan[-1][0]))
    c.extra['functions_exercised'] = len(set(p_[0] for p_ in plan))
    c.obligation('corr:api', nbad == 0 and nfail == 0, 'correspondence', '%d public calls over %d functions; %d failing, %d unexplained' % (len(plan), c.extra['functions_exercised'], nfail, nbad))
    out['failed'] = failed_functions; out['laws'] = laws


# ------------------------------------------------------------------------------------------------ streams: unit table, parse, Units.__setattr__, __format__

def close_rel(x, exact, tol=1e-12):
    x = F(x); exact = F(exact)
    return abs(x - exact) <= tol * abs(exact) + F(1, 10 ** 300)

def pow_str(p):
    p = F(p)
    if p == 1: return ''
    return (str(p.numerator) if p.numerator != 1 else '') + ('_%d' % p.denominator if p.denominator != 1 else '')

def frac_pow(v, p):
    """exact v**p for Fractions when it is rational, else None"""
    v = F(v); p = F(p)
    if p.denominator == 1: return v ** p.numerator if (v or p >= 0) else None
    def root(n, k):
        r = round(n ** (1. / k))
        for c_ in (r - 1, r, r + 1):
            if c_ >= 0 and c_ ** k == n: return c_
        return None
    a, b = root(v.numerator, p.denominator), root(v.denominator, p.denominator)
    if v < 0 or a is None or b is None: return None
    return F(a, b) ** p.numerator

def num_str(rng):
    k = rng.randrange(8)
    if k == 0: return str(rng.randint(1, 999))
    if k == 1: return '%d.%s' % (rng.randint(0, 99), rng.choice(['5', '25', '125', '0', '75', '3', '1']))
    if k == 2: return '.' + rng.choice(['5', '25', '1602176634', '1'])
    if k == 3: return rng.choice(['-', '+']) + str(rng.randint(1, 50))
    if k == 4: return '%d.' % rng.randint(1, 20)
    if k == 5: return '0'
    if k == 6: return rng.choice(['149597870700', '1.66053904020', '0.001', '1000000'])
    return str(rng.randint(2, 9))

def gen_unit_string(rng, spec, prefixes, base_names, noprefix, lead=True, maxf=4):
    """a unit string from the documented grammar together with its meaning (dimension, exact value or None)"""
    s = ''; dim = {}; val = F(1); exact = True
    if lead and rng.random() < .6:
        t = num_str(rng); s += t; val *= F(t)
    nf = rng.choice([1, 1, 2, 2, 3, maxf])
    for j in range(nf):
        name = rng.choice(base_names)
        pre = rng.choice(sorted(prefixes)) if name not in noprefix and rng.random() < .45 else ''
        power = rng.choice([F(1)] * 5 + [F(2), F(3), F(2), F(1, 2), F(3, 2), F(1, 3), F(0), F(4)])
        scale = num_str(rng) if rng.random() < .25 else ''
        if scale.startswith(('+', '-')) and False: scale = scale[1:]
        isnumer = rng.random() < .6
        text = scale + pre + name + pow_str(power) if power != 0 else scale + pre + name + '0'
        s += ('*' if isnumer else '/') + text if (s or not isnumer or rng.random() < .1) else text
        d, v = spec[name]
        uv = (prefixes[pre] if pre else 1) * v
        pv = frac_pow(uv, power)
        if pv is None: exact = False; pv = F(1)
        fv = F(scale) * pv if scale else pv
        for b, e in d.items(): dim[b] = dim.get(b, 0) + (e * power if isnumer else -e * power)
        if isnumer: val *= fv
        elif fv == 0: return None
        else: val /= fv
    return s, canon(dim), (val if exact else None)

def corrupt_string(rng, s):
    k = rng.randrange(6)
    i = rng.randrange(len(s) + 1)
    junk = rng.choice(['*', '/', '_', '0', '.', '-', 'x', ' ', 'e', 'μ', '2', '__', '//', 'da', 'K'])
    if k == 0 and s: return s[:i] + s[i + 1:]
    if k == 1: return s[:i] + junk + s[i:]
    if k == 2 and s: return s[:i] + junk + s[i + 1:]
    if k == 3: return s + junk
    if k == 4: return junk + s
    return s[::-1]

def real_parse(SI, s):
    try: q = SI.parse(s)
    except Exception as e: return 'err', exc_name(e), None
    return 'ok', canon(dim_of(SI, q)), unwrap(SI, q)

def stream_units(c, SI, defs, N):
    rng = c.rng
    dreq = defs_request(defs)
    a = yield [dreq, 'table', 'sispec', 'prefixes', 'checktable|' + dreq.split('|', 1)[1]]
    nbad = 0
    c.obligation('generated:si-unit-table', a[0].startswith('ok|') and a[4] == '1', 'generated-table',
                 'model of Units.__setattr__/parse run on the %d extracted definitions: %s; agrees with siSpec: %s' % (len(defs), a[0], a[4]))
    table = {}
    for item in a[1].split(';'):
        n_, d_, v_ = item.split('='); table[n_] = (pows_parse(d_), F(v_))
    spec = {}
    for item in a[2].split(';'):
        n_, d_, v_ = item.split('='); spec[n_] = (pows_parse(d_), F(v_))
    prefixes = {k: F(v) for k, v in (x.split('=') for x in a[3].split(';'))}
    # real prefix table and real unit dict
    realp = dict(SI.Units._Units__prefix)
    if set(realp) != set(prefixes) or any(F(realp[k]) != F(float(prefixes[k])) for k in prefixes if k in realp):
        bad = sorted(k for k in set(realp) | set(prefixes) if k not in realp or k not in prefixes or F(realp[k]) != F(float(prefixes[k])))
        c.failing_input('unit-prefix:' + bad[0], 'metric prefix %r has the wrong value or is missing' % bad[0], dict(stream='units', real={k: repr(v) for k, v in realp.items()}, spec={k: str(v) for k, v in prefixes.items()}))
        nbad += 1
    real = dict(SI.units)
    for name, (d, v) in spec.items():
        q = real.get(name)
        c.case(('unit', name), nontrivial=True)
        if q is None or canon(dim_of(SI, q)) != d or not close_rel(unwrap(SI, q), v):
            nbad += 1
            c.failing_input('unit-table:' + name, 'unit %r is missing or has the wrong dimension/value' % name,
                            dict(stream='units', unit=name, real=None if q is None else [pows_str(dim_of(SI, q)), repr(unwrap(SI, q))], spec=[pows_str(d), str(v)]))
    ndiff = 0
    for name in sorted(set(real) | set(table)):
        q = real.get(name); m = table.get(name)
        if q is None or m is None or canon(dim_of(SI, q)) != m[0] or not close_rel(unwrap(SI, q), m[1]):
            ndiff += 1
            if ndiff == 1:
                c.broken_no_input('corr:unit-table', 'real SI.units and the model table built from the extracted definitions differ at %r' % name,
                                  dict(stream='units', unit=name, real=None if q is None else [pows_str(dim_of(SI, q)), repr(unwrap(SI, q))], model=None if m is None else [pows_str(m[0]), str(m[1])]))
    c.count('units:table-entries', len(real))
    c.obligation('corr:unit-table', ndiff == 0 and nbad == 0, 'correspondence', '%d real entries vs %d model entries, %d spec entries' % (len(real), len(table), len(spec)))
    if unsupported_defs := [d for d in defs if d[0] not in ('wrap', 'str', 'item')]:
        raise Infra('unsupported unit definitions')

    # ---- parse
    base_names = sorted(d[1] for d in defs if d[1] in spec)
    noprefix = {d[1] for d in defs if d[0] == 'item'}
    cases = [('corpus', s_, None, None) for s_ in ['7μN*5h/6g', '-864km/24h', '2m/5cm', '', '5', '.', 'm', 'min', 'mm', 'Pa', 'cd', 'da', 'dam', 'ha', 'hm', 'Gy', 'T', 'mT', 'in', 'kin', 'min2', 'mmin',
                                                  'm/0s', '2*3m', 'm*3', '0m_2', 'm-1', '2m0', 'km_2', 'm_2', 'ha_2', '4ha_2', '/s', '1/s', '*m', 'm*', 'm//s', 'm*/s', 'kg*m/s2', '1.5.2m', '+-1m', 'm_0', 'm__2', 'm2_', 'm1_2_3',
                                                  'aJ', 'yg', 'Ym', 'μm', 'µm', 'Ω', 'kΩ', 'K', 'mK', 'mol', 'mmol', 'L', 'mL', 'dm3', 't', 'kt', 'Da', 'eV', 'keV', 'au', 'day', 'h', 'kh']]
    while len(cases) < N:
        g = gen_unit_string(rng, spec, prefixes, base_names, noprefix)
        if g is None: continue
        cases.append(('grammar',) + g)
        if rng.random() < .4:
            cases.append(('corrupted', corrupt_string(rng, g[0]), None, None))
    cases = [x for x in cases if '|' not in x[1] and x[1] == x[1].strip() and '\n' not in x[1]]
    # ---- Dimension.__call__, q / 'unit', __format__
    fcases = []
    specs = ['', '.0', '.1', '.2', '.3', '.6', '08.3', ',.1', '.10', '3']
    for _ in range(N // 2):
        g = gen_unit_string(rng, spec, prefixes, base_names, noprefix, lead=rng.random() < .3, maxf=3)
        if g is None or g[2] is None or g[2] == 0: continue
        u, d, uv = g
        v = F(rng.choice([1, 2, 3, -5, 10, 1000, 7])) * F(1, rng.choice([1, 2, 4, 8])) * (uv if rng.random() < .7 else 1)
        wrongdim = rng.random() < .15
        qd = dict(d) if not wrongdim else spec_mul(d, {'L': F(1)})
        if rng.random() < .1: u = corrupt_string(rng, u)
        if '|' in u or u != u.strip(): continue
        fcases.append((qd, v, rng.choice(specs), u))
    # ---- Units.__setattr__ on a fresh Units instance
    names = ['m', 'in', 'min', 'a', 'da', 'd', 'cd', 'k', 'kk', 'T', 'mT', 'h', 'hh', 'ol', 'mol', 'μ', 'μm', 'mm', 'x', 'y', 'yx', 'Yx', 'z', '']
    seqs = []
    for _ in range(max(10, N // 10)):
        seq = []
        for _ in range(rng.randint(1, 7)):
            d = rng.choice(SMALL_DIMS); v = F(rng.choice([1, 2, 4, 8])) / rng.choice([1, 2, 4])
            seq.append((rng.choice(names), d, v, rng.random() < .2))
        seqs.append(seq)
    reqs_parse = ['parse|' + x[1] for x in cases]
    reqs_fmt = ['format|%s|%s|%s' % (pows_str(qd), rat(v), sp + u) for qd, v, sp, u in fcases] + ['construct|%s|%s' % (pows_str(qd), u) for qd, v, sp, u in fcases]
    reqs_def = ['defseq|' + ';'.join('%s=%s=%s' % (n_, pows_str(d), rat(v)) for n_, d, v, _ in seq) for seq in seqs]
    allans = yield [dreq] + reqs_parse + reqs_fmt + reqs_def
    ans = allans[1:1 + len(reqs_parse)]
    npar = 0
    for (tag, s_, sd, sv), m in zip(cases, ans):
        kind, rd, rv = real_parse(SI, s_)
        if m == 'err|range' or kind == 'err' and rd == 'OverflowError' or kind == 'err' and rd == 'zeroDiv' and m != 'err|zeroDiv' and re.search(r'[0-9]{2}', s_) or kind == 'ok' and (rv == 0 or abs(rv) == float('inf')) and not m.startswith('ok|') or \
                m.startswith('ok|') and F(m.split('|')[2]) != 0 and not (F(1, 10 ** 250) < abs(F(m.split('|')[2])) < 10 ** 250):
            c.count('parse:skipped-float-range'); continue
        c.case(('parse', s_), nontrivial=len(s_) > 1); c.count('parse:%s:%s' % (tag, kind if kind == 'ok' else rd))
        replay = dict(stream='parse', s=s_, real=[kind, rd if kind == 'err' else pows_str(rd), repr(rv)], model=m, spec=None if sd is None else [pows_str(sd), str(sv)])
        c.sample(replay) if tag == 'grammar' else None
        if tag == 'grammar':
            # meaning known by construction
            bad = kind != 'ok' or rd != sd or (sv is not None and not close_rel(rv, sv, 1e-11))
            if bad and not (kind == 'err' and rd == 'zeroDiv'):
                npar += 1
                c.failing_input('parse:grammar-string', 'SI.parse gives a wrong dimension/value (or rejects) for a string of the documented grammar', replay); continue
        mf = m.split('|')
        if mf[0] == 'ok': okm = kind == 'ok' and rd == pows_parse(mf[1]) and close_rel(rv, F(mf[2]), 1e-11)
        elif mf[0] == 'inexact': okm = kind == 'ok' and rd == pows_parse(mf[1])
        else: okm = kind == 'err' and rd == mf[1]
        if not okm:
            npar += 1
            c.broken_no_input('corr:parse', 'SI.parse and its model disagree', replay)
    c.obligation('corr:parse', npar == 0, 'correspondence', '%d strings' % len(cases))

    ans = allans[1 + len(reqs_parse):1 + len(reqs_parse) + len(reqs_fmt)]
    nf = 0
    for i, (qd, v, sp, u) in enumerate(fcases):
        D = SI.Dimension.from_powers(dict(qd))
        q = D.wrap(float(v))
        # construct
        m = ans[len(fcases) + i].split('|')
        try:
            r = D(u); real = ('ok', canon(dim_of(SI, r)), unwrap(SI, r))
        except Exception as e: real = ('err', exc_name(e), None)
        replay = dict(stream='construct', dim=pows_str(qd), unit=u, real=repr(real), model=ans[len(fcases) + i])
        if real[:2] == ('err', 'OverflowError') or 'err|range' in (ans[len(fcases) + i], ans[i]) or 'err|inexact' in (ans[len(fcases) + i], ans[i]) or (real[:2] == ('err', 'zeroDiv') and m[:2] != ['err', 'zeroDiv'] and re.search(r'[0-9]{2}', u)):
            c.count('construct:skipped-float-range'); continue
        c.count('construct:' + (real[0] if real[0] == 'ok' else real[1]))
        okm = (real[0] == 'ok' and m[0] == 'ok' and real[1] == pows_parse(m[1]) and close_rel(real[2], F(m[2]), 1e-11)) or (real[0] == 'err' and m[0] == 'err' and real[1] == m[1])
        if real[0] == 'ok' and real[1] != canon(qd) and qd:
            nf += 1; c.failing_input('construct:wrong-dimension-accepted', 'Dimension.__call__ returns a quantity of another dimension', replay)
        elif not okm and m[0] != 'inexact':
            nf += 1; c.broken_no_input('corr:construct', 'Dimension.__call__ and its model disagree', replay)
        if not is_q(SI, q): continue
        # format
        m = ans[i].split('|')
        full = sp + u
        lead = full[:len(full) - len(full.lstrip('0123456789.,'))]
        if any(len(t) > 2 for t in re.findall(r'\d+', lead)):
            c.count('format:skipped-huge-width-or-precision'); continue
        try: out_ = format(q, sp + u); real = ('ok', out_)
        except Exception as e: real = ('err', exc_name(e))
        c.case(('format', pows_str(qd), str(v), sp + u), nontrivial=True); c.count('format:' + (real[0] if real[0] == 'ok' else real[1]))
        replay = dict(stream='format', dim=pows_str(qd), value=str(v), spec=sp + u, real=real, model=ans[i])
        if sp + u == '':
            if real != ('ok', repr(q)): nf += 1; c.broken_no_input('corr:format', 'empty format spec does not give repr', replay)
            continue
        if m[0] == 'err':
            if real[0] != 'err' or real[1] != m[1]:
                if real[0] == 'ok' and m[1] == 'dimension':
                    nf += 1; c.failing_input('format:wrong-dimension-accepted', 'formatting with a unit of another dimension is accepted', replay)
                else:
                    nf += 1; c.broken_no_input('corr:format', 'Quantity.__format__ and its model disagree', replay)
            continue
        pre, x, unit = m[1], F(m[2]), m[3] if len(m) > 3 else ''
        try: format(1., pre + 'f'); prevalid = True
        except ValueError: prevalid = False
        if not prevalid:
            c.count('format:invalid-float-spec')
            if real != ('err', 'value'): nf += 1; c.broken_no_input('corr:format', 'invalid float format accepted', replay)
            continue
        if real[0] != 'ok':
            nf += 1; c.broken_no_input('corr:format', 'Quantity.__format__ raises where the model formats', replay); continue
        # same computation on plain numbers
        plain = q.unwrap() / unwrap(SI, SI.parse(unit))
        want = format(plain, pre + 'f') + unit
        if real[1] != want or not close_rel(plain, x, 1e-11):
            nf += 1
            c.failing_input('format:value', 'formatted text differs from formatting the plain quotient value/unit', dict(replay, want=want, plain=repr(plain))); continue
        # round trip
        if ',' not in pre and (pre.split('.')[0] in ('', '0') or pre.startswith('0')) and unit[:1] not in ('+', '-'):
            prec = int(pre.split('.')[1]) if '.' in pre else 6
            kind, rd, rv = real_parse(SI, real[1])
            uval = F(unwrap(SI, SI.parse(unit)))
            okr = kind == 'ok' and rd == canon(qd) and abs(F(rv) - F(q.unwrap())) <= abs(uval) * F(1, 2 * 10 ** prec) * (1 + F(1, 10 ** 9)) + abs(F(q.unwrap())) * F(1, 10 ** 11)
            c.count('format:roundtrip-checked')
            if x * 10 ** prec == int(x * 10 ** prec): c.count('format:roundtrip-exactly-representable')
            if not okr:
                nf += 1
                c.failing_input('format:roundtrip', 'parsing the formatted text does not give the quantity back (within the printed precision)', dict(replay, parsed=[kind, repr(rd), repr(rv)]))
    c.obligation('corr:format-construct', nf == 0, 'correspondence', '%d format and %d construct cases' % (len(fcases), len(fcases)))

    ans = allans[1 + len(reqs_parse) + len(reqs_fmt):]
    nd = 0
    for seq, m in zip(seqs, ans):
        U = SI.Units(); res = []
        for n_, d, v, as_str in seq:
            D = SI.Dimension.from_powers(dict(d))
            val = D.wrap(float(v))
            before = dict(U)
            try:
                if not is_q(SI, val):
                    # a plain float is not accepted; a string that parses to a float is
                    try: setattr(U, n_, val); res.append('accepted-float')
                    except TypeError: pass
                    setattr(U, n_, repr(float(v)))
                else:
                    setattr(U, n_, val)
                res.append('ok')
            except ValueError as e:
                res.append('exists' if 'already defined' in str(e) else 'collision' if 'collides' in str(e) else 'value')
            except Exception as e:
                res.append(exc_name(e))
            # specification: a definition never changes the meaning of a name that was already defined
            changed = [k for k, x in before.items() if k not in U or type(U[k]) is not type(x) or unwrap(SI, U[k]) != unwrap(SI, x)]
            if changed:
                nd += 1
                c.failing_input('units-define:overwrites-existing-unit', 'defining a unit silently changes an already defined (prefixed) name',
                                dict(stream='define', seq=[(n2, pows_str(d2), str(v2)) for n2, d2, v2, _ in seq], defining=n_, changed=changed[:5]))
        realkeys = ';'.join('%s=%s' % (k, rat(F(unwrap(SI, U[k])))) for k in U)
        want = m.split('|')
        mk = ';'.join('%s=%s' % (k, rat(F(float(F(v_))))) for k, v_ in (x.rsplit('=', 1) for x in want[1].split(';'))) if want[1] else ''
        c.case(('defseq', m), nontrivial=len(seq) > 1)
        for r_ in res: c.count('define:' + r_)
        if ','.join(res) != want[0] or sorted(realkeys.split(';')) != sorted(mk.split(';')):
            nd += 1
            c.broken_no_input('corr:Units.__setattr__', 'Units.__setattr__ and its model disagree', dict(stream='define', seq=[(n_, pows_str(d), str(v)) for n_, d, v, _ in seq], real=[res, realkeys[:400]], model=m[:400]))
    c.obligation('corr:Units.__setattr__', nd == 0, 'correspondence', '%d definition sequences' % len(seqs))


# ------------------------------------------------------------------------------------------------ stream: Topology.locate

def stream_locate(c, SI, N):
    import numpy
    from nutils import mesh
    rng = c.rng
    topo, geom = mesh.rectilinear([2, 3])
    cases = []
    for _ in range(N):
        dims = [rng.choice(HALF_DIMS[:3]) for _ in range(2)]
        def pick(optional):
            r = rng.random()
            if optional and r < .25: return None
            if r < .4: return {}
            return rng.choice(dims + [dims[0]] * 3)
        cases.append((pick(False), pick(False), pick(True), pick(True)))
    enc = lambda d: 'none' if d is None else 'p' if not d else 'q:' + pows_str(d)
    ans = yield ['locate|' + '|'.join(enc(d) for d in case) for case in cases]
    nbad = 0
    for case, m in zip(cases, ans):
        g, co, tol, md = case
        W = lambda d, v: v if d is None else SI.Dimension.from_powers(dict(d)).wrap(v)
        pts = numpy.array([[.5, .75], [1.5, 2.25], [1.75, .5]])
        def call(scale):
            f = (lambda d: scale_of(d) if d and scale else 1.)
            return topo.locate(W(g, geom * 2. * f(g)), W(co, pts * 2. * f(co)), tol=None if tol is None else W(tol, 1e-9 * f(tol)), maxdist=None if md is None else W(md, 10. * f(md)))
        replay = dict(stream='locate', geom=enc(g), coords=enc(co), tol=enc(tol), maxdist=enc(md), model=m)
        c.case(('locate', replay['geom'], replay['coords'], replay['tol'], replay['maxdist']), nontrivial=True)
        if not (g or co):
            c.count('locate:not-dispatched'); continue      # nutils_dispatch looks at positional arguments only
        try: smp = call(False); real = 'ok'
        except Exception as e: real = 'err|' + exc_name(e)
        c.count('locate:' + real)
        if m == 'err|dimension' and real == 'ok':
            nbad += 1; c.failing_input('mixed-dimensions-accepted:locate', 'Topology.locate accepts geometry/coordinates/tolerances of different dimension', replay); continue
        if m == 'err|assertion': continue
        if m == 'ok' and real == 'err|type' and tol is None:
            c.count('locate:plain-locate-rejects-tol-None'); continue
        if m != real and not (m == 'ok' and real != 'ok' and not g):
            nbad += 1; c.broken_no_input('corr:locate', 'Topology.locate and its model disagree', dict(replay, real=real)); continue
        if real == 'ok' and g:
            x = smp.eval(geom * 2.)
            smp2 = call(True)
            if not numpy.allclose(x, pts * 2., atol=1e-8) or not numpy.allclose(smp2.eval(geom * 2.), pts * 2., atol=1e-8):
                nbad += 1; c.failing_input('locate:wrong-points', 'located points differ from the requested coordinates (or depend on the reference unit)', replay)
    c.obligation('corr:locate', nbad == 0, 'correspondence', '%d calls' % len(cases))
    return
    yield


# ------------------------------------------------------------------------------------------------ stream: container protocol of Quantity (direct oracle, no model)

def stream_protocol(c, SI, N):
    import numpy
    rng = c.rng
    nbad = 0
    def fail(what, **kw):
        nonlocal nbad
        nbad += 1
        c.failing_input('quantity-protocol:' + what, 'Quantity container protocol: ' + what, dict(stream='protocol', **kw))
    def check(what, f, **kw):
        try: ok = f()
        except Exception as e: ok = False; kw = dict(kw, exc=repr(e))
        if not ok: fail(what, **kw)
    for _ in range(N):
        d = rng.choice(HALF_DIMS); D = SI.Dimension.from_powers(dict(d))
        v = np_values(rng, rng.choice([(), (3,), (2, 3)]))
        v = float(v) if v.shape == () else v
        q = D.wrap(v)
        c.case(('protocol', pows_str(d), repr(v)), nontrivial=True)
        check('wrap/unwrap', lambda: type(q) is D and q.unwrap() is v, dim=pows_str(d))
        check('dimensionless wrap keeps the wrapper', lambda: SI.Dimensionless.wrap(v) is v)
        check('Dimension.__call__ on an instance', lambda: D(q) is q)
        if numpy.ndim(v) == 0:
            check('__bool__', lambda: bool(q) == bool(v))
            check('__hash__', lambda: hash(q) == hash((D, v)))
        else:
            check('__len__', lambda: len(q) == len(v))
            check('__iter__', lambda: all(type(x) is D and numpy.array_equal(x.unwrap(), y) for x, y in zip(list(q), v)) and len(list(q)) == len(v))
        def pick():
            q2 = pickle.loads(pickle.dumps(q))
            return type(q2) is D and numpy.array_equal(q2.unwrap(), v)
        check('pickle', pick, dim=pows_str(d))
        check('repr/str', lambda: repr(q) == repr(v) + D.__name__ and str(q) == str(v) + D.__name__)
        for bad in (5, 5., None, [1]):
            try: D(bad); fail('Dimension.__call__ accepts a non-string', value=repr(bad))
            except ValueError: pass
            except Exception as e: fail('Dimension.__call__ raises %s for a non-string' % type(e).__name__)
        try: SI.Quantity('1m'); fail('Quantity base class can be instantiated')
        except Exception: pass
    # string division and stringly/ags round trips on parsed quantities
    for s_ in ['5kN', '2.5m/s', '-864km/24h', '3mm2', '7μN*5h/6g', '1.5/min']:
        other = rng.choice(['N', 'm/s', 'km/h', 'mm2', 'kg*m/s2', '/s', 'ms'])
        c.case(('strdiv', s_, other), nontrivial=True)
        try:
            q = SI.parse(s_); D = type(q); o = SI.parse(other)
        except Exception as e:
            fail('parse raises', s=s_, exc=repr(e)); continue
        check('stringly dumps', lambda: D.__stringly_dumps__(q) == s_ and q.__into_ags__() == s_, s=s_)
        check('stringly loads', lambda: type(D.__stringly_loads__(s_)) is D and D.__stringly_loads__(s_).unwrap() == q.unwrap() and D.__from_ags__(s_).unwrap() == q.unwrap(), s=s_)
        try:
            r = q / other
            if type(o) is not D or r != q.unwrap() / o.unwrap(): fail('division by a unit string', s=s_, unit=other)
        except SI.DimensionError:
            if type(o) is D: fail('division by a unit string of the same dimension rejected', s=s_, unit=other)
        except Exception as e:
            fail('division by a unit string raises', s=s_, unit=other, exc=repr(e))
    c.obligation('oracle:quantity-protocol', nbad == 0, 'exploration', '%d quantities' % N)
    return
    yield


# ------------------------------------------------------------------------------------------------ stream: keyword operands and the recorded findings

def keyword_cases(SI):
    """(label, signature or None, function of a scale -> Quantity result).  A call is unit independent when the result
    for operands rescaled by s**dim equals the rescaled result."""
    import numpy
    L, Fo = {'L': F(1)}, {'M': F(1)}
    Lw, Fw = SI.Dimension.from_powers(L).wrap, SI.Dimension.from_powers(Fo).wrap
    a = numpy.array([[1., 2., -.5], [4., .25, 3.]]); x = numpy.array([-1., .5, 2.5]); xp = numpy.array([0., 1., 2.]); fp = numpy.array([10., 12., 8.])
    mask = numpy.array([True, False, True])
    K = [
        ('max-initial', 'unit-dependence:reduction-initial', lambda s: numpy.max(Lw(a * s), initial=5.), 'reduction with a plain `initial=` mixes a dimensionless number into a dimensional result'),
        ('min-initial', 'unit-dependence:reduction-initial', lambda s: numpy.min(Lw(a * s), initial=-5.), 'reduction with a plain `initial=` mixes a dimensionless number into a dimensional result'),
        ('sum-initial', 'unit-dependence:reduction-initial', lambda s: numpy.sum(Lw(a * s), initial=5.), 'reduction with a plain `initial=` mixes a dimensionless number into a dimensional result'),
        ('amax-initial', 'unit-dependence:reduction-initial', lambda s: numpy.amax(Lw(a * s), axis=1, initial=1.), 'reduction with a plain `initial=` mixes a dimensionless number into a dimensional result'),
        ('norm-ord0', 'unit-dependence:norm-ord0', lambda s: numpy.linalg.norm(Lw(numpy.array([1., 0., 2.]) * s), 0), 'numpy.linalg.norm(q, 0) labels a count with the dimension of q'),
        ('norm-ord0-kw', 'unit-dependence:norm-ord0', lambda s: numpy.linalg.norm(Lw(numpy.array([1., 0., 2.]) * s), ord=0), 'numpy.linalg.norm(q, 0) labels a count with the dimension of q'),
        ('interp-left', 'unit-dependence:interp-left-right-period', lambda s: numpy.interp(Lw(x * s), Lw(xp * s), Fw(fp * s), left=5.), 'numpy.interp left/right/period keywords bypass the dimension check'),
        ('interp-right', 'unit-dependence:interp-left-right-period', lambda s: numpy.interp(Lw(x * s), Lw(xp * s), Fw(fp * s), right=5.), 'numpy.interp left/right/period keywords bypass the dimension check'),
        ('interp-period', 'unit-dependence:interp-left-right-period', lambda s: numpy.interp(Lw(x * s), Lw(xp * s), Fw(fp * s), period=1.5), 'numpy.interp left/right/period keywords bypass the dimension check'),
        # keyword uses that must be fine
        ('sum-axis-keepdims', None, lambda s: numpy.sum(Lw(a * s), axis=0, keepdims=True), ''),
        ('sum-where', None, lambda s: numpy.sum(Lw(a * s), axis=0, where=mask[None].repeat(2, 0)), ''),
        ('mean-axis', None, lambda s: numpy.mean(Lw(a * s), axis=1), ''),
        ('max-axis-keepdims', None, lambda s: numpy.max(Lw(a * s), axis=1, keepdims=True), ''),
        ('ptp-axis', None, lambda s: numpy.ptp(Lw(a * s), axis=0), ''),
        ('take-axis', None, lambda s: numpy.take(Lw(a * s), [2, 0], axis=1), ''),
        ('trace-offset', None, lambda s: numpy.trace(Lw(a * s), offset=1), ''),
        ('norm-ord2-axis', None, lambda s: numpy.linalg.norm(Lw(a * s), ord=2, axis=1), ''),
        ('norm-inf', None, lambda s: numpy.linalg.norm(Lw(a * s), ord=numpy.inf, axis=0), ''),
        ('norm-fro', None, lambda s: numpy.linalg.norm(Lw(a * s), ord='fro'), ''),
        ('norm-minus1', None, lambda s: numpy.linalg.norm(Lw(a[0] * s), ord=-1), ''),
        ('stack-axis', None, lambda s: numpy.stack([Lw(a * s), Lw(a * s * 2)], axis=-1), ''),
        ('concatenate-axis', None, lambda s: numpy.concatenate([Lw(a * s), Lw(a * s)], axis=1), ''),
        ('reshape-order', None, lambda s: numpy.reshape(Lw(a * s), (3, 2), order='F'), ''),
        ('transpose-axes', None, lambda s: numpy.transpose(Lw(a * s), axes=(1, 0)), ''),
        ('add-where', None, lambda s: numpy.add(Lw(a * s), Lw(a * s), where=True), ''),
        ('interp-plain', None, lambda s: numpy.interp(Lw(x * s), Lw(xp * s), Fw(fp * s)), ''),
    ]
    return K

def stream_keywords(c, SI):
    import numpy
    nbad = 0
    state = {}
    for label, sig, f, what in keyword_cases(SI):
        c.case(('keyword', label), nontrivial=True)
        try:
            r1 = f(1.); r2 = f(16.)
            d = canon(dim_of(SI, r1))
            ok = canon(dim_of(SI, r2)) == d and numpy.allclose(numpy.asarray(unwrap(SI, r2), dtype=float), numpy.asarray(unwrap(SI, r1), dtype=float) * scale_of(d), rtol=1e-12, atol=0, equal_nan=True)
            detail = dict(stream='keywords', case=label, result=repr(r1), rescaled=repr(r2))
        except Exception as e:
            ok = isinstance(e, TypeError); detail = dict(stream='keywords', case=label, exc=repr(e))     # rejecting is sound
            if not ok:
                nbad += 1; c.broken_no_input('corr:keywords', 'keyword call %s raises %s' % (label, type(e).__name__), detail); continue
        c.count('keywords:' + ('unit-independent' if ok else 'unit-dependent'))
        state.setdefault(sig, []).append(not ok)
        if not ok:
            if c.failing_input(sig or 'unit-dependence:' + label, what or 'result of the keyword call %s changes with the choice of reference units' % label, detail):
                nbad += 1
    # recorded findings: one recorded minimal input per open entry
    for e in c.findings:
        if e.get('status') != 'open': continue
        sig = e.get('signature')
        if sig in state: c.report_known_still_failing(e, any(state[sig]))
        elif sig == 'dispatch:curvature-not-unwrapped':
            from nutils import mesh, function
            topo, geom = mesh.rectilinear([2, 3])
            try: function.curvature(geom * SI.Length('2m')); still = False
            except RecursionError: still = True
            c.report_known_still_failing(e, still)
        else:
            c.count('known-finding-without-replay')
    c.obligation('oracle:keyword-operands', nbad == 0, 'exploration', '%d keyword calls' % len(keyword_cases(SI)))
    return
    yield


# ------------------------------------------------------------------------------------------------ stream: compositions of operators

class DimMismatch(Exception):
    pass

def gen_tree(rng, depth, leaves, fn):
    """expression tree over leaf indices; `fn`: function-array flavour (fewer operators)"""
    if depth == 0 or rng.random() < .25:
        return ('leaf', rng.randrange(leaves))
    ops1 = ['neg', 'abs', 'sqrtabs', 'pow2', 'powm1', 'pow3_2'] + ([] if fn else ['sum', 'mean', 'max', 'item', 'powhalf'])
    ops2 = ['add', 'sub', 'mul', 'div', 'mul', 'div', 'add_coerced', 'sub_coerced'] + ([] if fn else ['maximum', 'stack0', 'hypot_coerced', 'mod_coerced'])
    if rng.random() < .4:
        return (rng.choice(ops1), gen_tree(rng, depth - 1, leaves, fn))
    return (rng.choice(ops2), gen_tree(rng, depth - 1, leaves, fn), gen_tree(rng, depth - 1, leaves, fn))

def tree_dims(t, leafdims, reqs):
    """specification: exponent dict of the tree by exact arithmetic (raises DimMismatch); records one model request per node"""
    op = t[0]
    if op == 'leaf': return leafdims[t[1]]
    a = tree_dims(t[1], leafdims, reqs)
    if len(t) == 2:
        if op in ('neg', 'abs', 'sum', 'mean', 'max', 'item'): r = a
        else:
            e = {'sqrtabs': F(1, 2), 'pow2': F(2), 'powm1': F(-1), 'pow3_2': F(3, 2), 'powhalf': F(1, 2)}[op]
            r = spec_pow(a, e); reqs.append(('dimop|pow|%s|%s' % (pows_str(a), rat(e)), r))
        return r
    b = tree_dims(t[2], leafdims, reqs)
    if op == 'mul': r = spec_mul(a, b); reqs.append(('dimop|mul|%s|%s' % (pows_str(a), pows_str(b)), r)); return r
    if op == 'div': r = spec_div(a, b); reqs.append(('dimop|div|%s|%s' % (pows_str(a), pows_str(b)), r)); return r
    if op.endswith('_coerced'):
        # the right operand is first multiplied with a plain-valued unit of dimension a/b
        reqs.append(('dimop|mul|%s|%s' % (pows_str(b), pows_str(spec_div(a, b))), a)); return a
    reqs.append(('apply|addLike|%s;%s|none' % ('q:' + pows_str(a) if a else 'p', 'q:' + pows_str(b) if b else 'p'), a if a == b else None))
    if a != b: raise DimMismatch(op)
    return a

def tree_encode(t, leafdims):
    """prefix tokens for the Lean `Expr`, and the specification dimension (None once a mismatch occurred below)"""
    P = lambda d: pows_str(d) or '-'
    op = t[0]
    if op == 'leaf': return ['L', P(leafdims[t[1]])], leafdims[t[1]]
    ta, a = tree_encode(t[1], leafdims)
    if len(t) == 2:
        if op in ('neg', 'abs', 'sum', 'mean', 'max', 'item'): return ['U'] + ta, a
        if op == 'sqrtabs': return ['S', 'U'] + ta, None if a is None else spec_pow(a, F(1, 2))
        e = {'pow2': F(2), 'powm1': F(-1), 'pow3_2': F(3, 2), 'powhalf': F(1, 2)}[op]
        return ['P', rat(e)] + (['U'] if op in ('pow3_2', 'powhalf') else []) + ta, None if a is None else spec_pow(a, e)
    tb, b = tree_encode(t[2], leafdims)
    bad = a is None or b is None
    if op == 'mul': return ['M'] + ta + tb, None if bad else spec_mul(a, b)
    if op == 'div': return ['D'] + ta + tb, None if bad else spec_div(a, b)
    if op.endswith('_coerced'):
        return ['A'] + ta + ['M'] + tb + ['L', P({} if bad else spec_div(a, b))], None if bad else a
    return ['A'] + ta + tb, None if bad or a != b else a

def tree_eval(SI, t, leaves, leafdims, quantities, scale=False):
    """evaluate with real Quantity objects (quantities=True) or with the plain payloads"""
    import numpy
    op = t[0]
    if op == 'leaf': return leaves[t[1]]
    a = tree_eval(SI, t[1], leaves, leafdims, quantities, scale)
    if len(t) == 2:
        if op == 'neg': return -a
        if op == 'abs': return abs(a)
        if op == 'sqrtabs': return numpy.sqrt(abs(a))
        if op == 'pow2': return a ** 2
        if op == 'powm1': return a ** -1
        if op == 'pow3_2': return abs(a) ** 1.5
        if op == 'powhalf': return numpy.power(abs(a), F(1, 2) if False else .5)
        if op == 'sum': return numpy.sum(a, axis=-1) if numpy.ndim(a) else a
        if op == 'mean': return numpy.mean(a) if numpy.ndim(a) else a
        if op == 'max': return numpy.max(a)
        if op == 'item': return a[0] if numpy.ndim(a) else a
    b = tree_eval(SI, t[2], leaves, leafdims, quantities, scale)
    if op == 'add': return a + b
    if op == 'sub': return a - b
    if op == 'mul': return a * b
    if op == 'div': return a / b
    if op == 'maximum': return numpy.maximum(a, b)
    if op == 'stack0': return numpy.stack([a, b])[0] if numpy.shape(a) == numpy.shape(b) else a + b
    if op.endswith('_coerced'):
        da, db = canon(dim_of(SI, a)), canon(dim_of(SI, b))
        one = lambda d: SI.Dimension.from_powers(d).wrap(scale_of(d) if scale else 1.)      # a dimensional constant
        if quantities: b = b * one(spec_div(da, db))
        f = {'add': operator.add, 'sub': operator.sub, 'hypot': numpy.hypot, 'mod': lambda x, y: x % (abs(y) + 1.)}[op[:-8]]
        if quantities and op == 'mod_coerced':
            return a % (abs(b) + one(da))
        return f(a, b)
    raise ValueError(op)

def stream_compositions(c, SI, N):
    import numpy
    rng = c.rng
    W = World()
    cases = []
    quarter = lambda d: all((v * 4).denominator == 1 for v in d.values())
    for _ in range(N):
        fn = rng.random() < .25
        nl = rng.randint(2, 4)
        leafdims = [rng.choice([{}] + HALF_DIMS[:7]) for _ in range(nl)]
        if fn:
            pool = [W.u, W.geom[0], W.geom[1], W.u * W.geom[0] + 1., 2., .5]
            vals = [rng.choice(pool[:4]) if i == 0 else rng.choice(pool) for i in range(nl)]
            vals = [v + 1.5 if not isinstance(v, float) else v for v in vals]       # keep away from zero
        else:
            shape = rng.choice([(), (3,), (3,)])
            vals = [np_values(rng, shape, positive=True) * rng.choice([1., -1., 1.]) for _ in range(nl)]
            vals = [float(v) if v.shape == () else v for v in vals]
        t = gen_tree(rng, rng.choice([1, 2, 2, 3]), nl, fn)
        reqs = []
        try: d = tree_dims(t, leafdims, reqs); spec = ('ok', d)
        except DimMismatch as e: spec = ('mismatch', str(e))
        cases.append((fn, t, leafdims, vals, reqs, spec))
    flat = [r for case in cases for r, _ in case[4]]
    whole = ['expr|' + ' '.join(tree_encode(case[1], case[2])[0]) for case in cases]
    ans = yield flat + whole
    ans_whole = ans[len(flat):]
    pos = 0; nbad = 0
    for icase, (fn, t, leafdims, vals, reqs, spec) in enumerate(cases):
        a = ans[pos:pos + len(reqs)]; pos += len(reqs)
        mw = ans_whole[icase]
        if (mw == 'err|dimension') != (spec[0] == 'mismatch') or (spec[0] == 'ok' and pows_parse(mw.split('|', 1)[1]) != spec[1]):
            nbad += 1; c.broken_no_input('corr:composition-expr', 'the Lean expression model and exact arithmetic disagree on a whole tree',
                                         dict(stream='compositions', tree=repr(t), leafdims=[pows_str(d) for d in leafdims], model=mw, request=whole[icase], spec=repr(spec)))
        c.case(('tree', repr(t), [pows_str(d) for d in leafdims]), nontrivial=t[0] != 'leaf')
        c.count('compose:' + ('function-arrays' if fn else 'numpy') + ':' + spec[0])
        replay = dict(stream='compositions', tree=repr(t), leafdims=[pows_str(d) for d in leafdims], leaves=[repr(v)[:80] for v in vals], spec=[spec[0], pows_str(spec[1]) if spec[0] == 'ok' else spec[1]])
        # model = specification on every node
        for (rq, want), m in zip(reqs, a):
            got = None if m.startswith('err|dimension') else pows_parse(m.split('|')[0]) if rq.startswith('dimop') else (pows_parse(re.match(r'ok\|Q<([^>]*)>', m).group(1)) if m.startswith('ok|Q<') else {})
            if got != want:
                nbad += 1; c.broken_no_input('corr:composition-node', 'model and exact arithmetic disagree on a node', dict(replay, request=rq, model=m, want=None if want is None else pows_str(want)))
        D = SI.Dimension
        def leaves(scale):
            return [D.from_powers(dict(d)).wrap(v * (scale_of(d) if scale else 1.)) for d, v in zip(leafdims, vals)]
        with numpy.errstate(all='ignore'):
            try: r = tree_eval(SI, t, leaves(False), leafdims, True); rexc = None
            except Exception as e: r = None; rexc = e
            if spec[0] == 'mismatch':
                if rexc is None:
                    nbad += 1; c.failing_input('composition:mixed-dimensions-accepted', 'an expression that adds/compares different dimensions is evaluated without error', dict(replay, real=repr(r)[:200]))
                elif not isinstance(rexc, TypeError):
                    nbad += 1; c.broken_no_input('corr:composition-error', 'mixed dimensions rejected with %s' % type(rexc).__name__, dict(replay, exc=repr(rexc)[:200]))
                continue
            if rexc is not None:
                # the same computation on the plain numbers may raise as well (0.0 ** -1): then raising the same exception is the correct outcome
                try: tree_eval(SI, t, list(vals), leafdims, False); pexc = None
                except Exception as e: pexc = e
                if type(pexc) is type(rexc):
                    c.count('compose:plain-computation-raises-too'); continue
                nbad += 1; c.failing_input('composition:raises:' + type(rexc).__name__, 'a dimensionally consistent expression raises', dict(replay, exc=repr(rexc)[:300])); continue
            if canon(dim_of(SI, r)) != spec[1]:
                nbad += 1; c.failing_input('composition:wrong-dimension', 'dimension of a composed expression differs from exact arithmetic on the exponents', dict(replay, real=pows_str(dim_of(SI, r)))); continue
            plain = tree_eval(SI, t, list(vals), leafdims, False)
            ev = 'smp' if fn else 'np'
            try:
                v_real = evaluate_result(SI, W, r, ev); v_plain = evaluate_result(SI, W, plain, ev)
            except Exception as e:
                nbad += 1; c.broken_no_input('corr:composition-evaluation', 'cannot evaluate: %s' % type(e).__name__, dict(replay, exc=repr(e)[:300])); continue
            if not same(v_real, v_plain, 1e-12 if fn else 0, atol=1e-11 if fn else None):
                nbad += 1; c.failing_input('composition:value-differs', 'value of a composed expression differs from the same computation on plain numbers', dict(replay, real=repr(v_real)[:200], plain=repr(v_plain)[:200])); continue
            c.traces += 1
            finite = all(numpy.all(numpy.isfinite(x)) for x in v_real if isinstance(x, numpy.ndarray) and x.dtype.kind == 'f')
            if not finite: c.count('compose:non-finite-value')
            if finite and all(quarter(d) for d in leafdims) and quarter(spec[1]):
                try:
                    r2 = tree_eval(SI, t, leaves(True), leafdims, True, True)
                    v2 = evaluate_result(SI, W, r2, ev)
                    ok = same(v2, [x * scale_of(spec[1]) if isinstance(x, numpy.ndarray) and x.dtype.kind == 'f' else x for x in v_real], 1e-10, atol=1e-9 * scale_of(spec[1]) if fn else None)
                except NotQuarter:
                    c.count('compose:unit-invariance-skipped-eighth-exponent'); continue
                except Exception as e:
                    ok = False; v2 = repr(e)
                c.count('compose:unit-invariance-checked')
                if not ok:
                    nbad += 1; c.failing_input('composition:unit-dependence', 'value of a composed expression changes with the choice of reference units', dict(replay, real=repr(v_real)[:200], rescaled=repr(v2)[:200]))
    c.sample(dict(stream='compositions', tree=repr(cases[-1][1]), leafdims=[pows_str(d) for d in cases[-1][2]], spec=repr(cases[-1][5])))
    c.obligation('corr:compositions', nbad == 0, 'correspondence', '%d expression trees' % len(cases))


# ------------------------------------------------------------------------------------------------ stream: nutils/unit.py

UNIT_BASE = {'m': F(1), 's': F(1), 'g': F(1, 1000), 'A': F(1), 'ol': F(2), 'in': F(1, 2), 'd': F(8), 'a': F(4), 'K': F(1), 'P': F(3)}
UNIT_DERIVED = {'N': 'kg*m/s2', 'Pa': 'N/m2', 'J': 'N*m', 'W': 'J/s', 'min': '60s', 'h': '60min', 'Hz': '/s', 'mol': '3ol', 'cd': '5A', 'da': '10a',
                'ha': 'hm2', 'L': 'dm3', 'kat': 'mol/s', 'mph': 'in/h', 'ft': '12in', 'bar': '100000Pa', 'x': '2y', 'y': '3x', 'z': '2q', 'kk': 'k*m', 'Ω': 'W/A2'}
UNIT_PREFIX = dict(Y=24, Z=21, E=18, P=15, T=12, G=9, M=6, k=3, h=2, d=-1, c=-2, m=-3, μ=-6, n=-9, p=-12, f=-15, a=-18, z=-21, y=-24)

def unit_spec_table(defs):
    """resolve a unit system by the documented rules: name -> (powers over base names, exact value), or an error tag"""
    table = {}; state = {}
    def lookup(word):
        if word in defs: return resolve(word)
        if word and word[0] in UNIT_PREFIX and word[1:] in defs:
            p, v = resolve(word[1:]); return p, v * F(10) ** UNIT_PREFIX[word[0]]
        raise ValueError(word)
    def resolve(name):
        if name in table: return table[name]
        if state.get(name) == 'busy': raise RecursionError(name)
        state[name] = 'busy'
        v = defs[name]
        table[name] = ({name: 1}, F(v)) if not isinstance(v, str) else meaning(v, lookup)
        state[name] = 'done'
        return table[name]
    for n_ in defs: resolve(n_)
    return table, lookup

def meaning(s, lookup):
    """<number> (<op> <prefix><name><power>)* by the BNF of unit.py"""
    m = re.fullmatch(r'([0-9.]*)((?:[*/]?[a-zA-Zα-ωΑ-Ω]+[0-9]*)*)', s)
    if not m: raise ValueError(s)
    val = F(m.group(1)) if m.group(1) else F(1)
    pows = {}
    for op, w, pw in re.findall(r'([*/]?)([a-zA-Zα-ωΑ-Ω]+)([0-9]*)', m.group(2)):
        p, v = lookup(w)
        e = int(pw) if pw else 1
        if op == '/': e = -e
        val *= v ** e
        for k, x in p.items(): pows[k] = pows.get(k, 0) + x * e
    return {k: x for k, x in pows.items() if x}, val

def gen_unitpy_string(rng, names):
    s = ''
    if rng.random() < .6: s += rng.choice(['2', '2.5', '60', '.5', '100', '1.25', '7'])
    for j in range(rng.choice([1, 1, 2, 3])):
        op = rng.choice(['*', '/']) if (s or rng.random() < .3) else ''
        if op == '*' and not s: op = ''
        w = (rng.choice(sorted(UNIT_PREFIX)) if rng.random() < .4 else '') + rng.choice(names)
        s += op + w + rng.choice(['', '', '', '2', '3', '1', '0'])
    return s

def stream_unitpy(c, N):
    from nutils import unit
    from decimal import Decimal
    rng = c.rng
    systems = []
    for _ in range(max(6, N // 10)):
        base = {k: UNIT_BASE[k] for k in rng.sample(sorted(UNIT_BASE), rng.randint(2, 6))}
        if rng.random() < .8: base.setdefault('m', F(1)); base.setdefault('s', F(1)); base.setdefault('g', F(1, 1000))
        der = {}
        for k in rng.sample(sorted(UNIT_DERIVED), rng.randint(0, 9)):
            known = set(base) | set(der)
            resolvable = all(w in known or (w[0] in UNIT_PREFIX and w[1:] in known) for w in re.findall(r'[a-zA-Zα-ωΑ-Ω]+', UNIT_DERIVED[k]))
            if resolvable or rng.random() < .08: der[k] = UNIT_DERIVED[k]      # mostly resolvable systems, a few with unknown / cyclic references
        items = list(base.items()) + list(der.items()); rng.shuffle(items)
        defs = dict(items)
        names = sorted(defs) + ['q']
        reqs = []
        for _ in range(14):
            s_ = gen_unitpy_string(rng, names)
            if rng.random() < .2: s_ = corrupt_string(rng, s_)
            if not re.fullmatch(r'[0-9a-zA-Zα-ωΑ-Ω.+\-*/]*', s_): continue
            k = rng.random()
            if k < .5: reqs.append(('p', s_))
            elif k < .75: reqs.append(('c', s_))
            else:
                un = gen_unitpy_string(rng, names).lstrip('0123456789.*')
                reqs.append(('l', un, rng.choice(['2', '2.5', '.5', '100', '']) + un if rng.random() < .6 else s_))
        systems.append((defs, reqs))
    enc = lambda defs: ';'.join('%s=%s' % (k, '~' + v if isinstance(v, str) else rat(v)) for k, v in defs.items())
    ans = yield ['usys|%s|%s' % (enc(defs), ';'.join('~'.join(r) for r in reqs)) for defs, reqs in systems]
    nbad = 0
    def quantity(q): return '%s' % ','.join('%s:%d' % kv for kv in sorted(q.powers.items()))
    for (defs, reqs), m in zip(systems, ans):
        replay0 = dict(stream='unit.py', defs={k: str(v) for k, v in defs.items()})
        try: U = unit.create(**{k: (v if isinstance(v, str) else float(v)) for k, v in defs.items()}); built = 'built'
        except BaseException as e: built = 'builderr|' + exc_name(e)
        try: table, lookup = unit_spec_table(defs); spec_built = True
        except (ValueError, RecursionError, ZeroDivisionError): spec_built = False
        c.case(('usys', enc(defs)), nontrivial=True); c.count('unitpy:' + built)
        if spec_built and built != 'built':
            nbad += 1; c.failing_input('unit-py:create-rejects-valid-system', 'unit.create rejects a resolvable unit system', dict(replay0, real=built)); continue
        if not m.startswith(built):
            nbad += 1; c.broken_no_input('corr:unit.create', 'unit.create and its model disagree', dict(replay0, real=built, model=m[:200])); continue
        if built != 'built': continue
        parts = m.split('#')
        # the resolved quantities
        mt = dict(x.split('=', 1) for x in parts[0][6:].split(';'))
        for k in defs:
            rq = U._parse(k)
            mv, mp = mt[k].split('|')
            if quantity(rq) != mp or not close_rel(rq.value, F(mv)) or (spec_built and (table[k][0] != rq.powers or not close_rel(rq.value, table[k][1]))):
                nbad += 1
                (c.failing_input if spec_built else c.broken_no_input)('unit-py:resolved-unit' if spec_built else 'corr:unit.create', 'resolved unit %r differs' % k,
                                                                      dict(replay0, unit=k, real=[rq.value, rq.powers], model=mt[k], spec=str(table.get(k)) if spec_built else None))
        for r, a in zip(reqs, parts[1:]):
            s_ = r[-1]
            try:
                if r[0] == 'p': q = U._parse(s_); real = 'ok', q.value, quantity(q)
                elif r[0] == 'c': real = 'ok', float(U(s_)), None
                else: real = 'ok', float(U[r[1]].__stringly_loads__(s_)), None
            except BaseException as e: real = 'err', exc_name(e), None
            replay = dict(replay0, request=r, real=repr(real), model=a)
            c.case(('unitpy', enc(defs), r), nontrivial=True); c.count('unitpy:%s:%s' % (r[0], real[0] if real[0] == 'ok' else real[1]))
            if real[1] == 'OverflowError' or a == 'err|range': continue
            # meaning by the grammar
            try:
                sp, sv = meaning(s_, lookup); ingrammar = True
                if r[0] == 'l': up, _ = meaning(r[1], lookup); ingrammar = up == sp
                if r[0] == 'c': up, _ = meaning(s_.lstrip('1234567890.*'), lookup); ingrammar = up == sp
            except (ValueError, ZeroDivisionError, RecursionError): ingrammar = False
            if ingrammar and spec_built:
                good = real[0] == 'ok' and close_rel(real[1], sv, 1e-11) and (r[0] != 'p' or real[2] == ','.join('%s:%d' % kv for kv in sorted(sp.items())))
                if not good and not (real[0] == 'err' and real[1] == 'zeroDiv'):
                    nbad += 1; c.failing_input('unit-py:grammar-string', 'nutils.unit gives a wrong value/powers for a string of its documented grammar', dict(replay, spec=[str(sv), sp])); continue
            af = a.split('|')
            okm = (real[0] == 'ok' and af[0] == 'ok' and close_rel(real[1], F(af[1]), 1e-11) and (r[0] != 'p' or real[2] == af[2])) or (real[0] == 'err' and af[0] == 'err' and real[1] == af[1])
            if not okm:
                nbad += 1; c.broken_no_input('corr:unit.parse', 'nutils.unit and its model disagree', replay)
    # dumps / _f2s / round trip
    U = unit.create(m=1, s=1, g=.5, N='kg*m/s2')
    nr = 0
    vals = [-2.5e-5, 4.0, 0.0, 1e-7, 1.5e10, 123.456, 1e22, -3.0, -1.5e20, -0.001, 2.5e-5, 7e-4, -7e-5, 1., -1e-9, 5e-324 * 1e300]
    vals += [rng.choice([1, -1]) * rng.choice([1, 2.5, 7, 1.25, 3]) * 10. ** rng.randint(-9, 12) for _ in range(N // 4)]
    for v in vals:
        for un in ['m', 'km', 'N', 's2', '/s', '2m']:
            c.case(('dumps', v, un), nontrivial=True)
            txt = back = err = None
            try: B = U[un]
            except ValueError:
                if un[0].isdigit(): c.count('unitpy:numeral-unit-rejected'); continue
                raise
            try:
                txt = B.__stringly_dumps__(v)
                back = B.__stringly_loads__(txt)
            except Exception as e:
                err = e
            uval = U._parse(un).value
            num = txt[:len(txt) - len(un)] if txt else None
            okfmt = num is not None and re.fullmatch(r'-?[0-9]+(\.[0-9]+)?', num) is not None and Decimal(num) == Decimal(repr(v / uval))
            okrt = err is None and back is not None and abs(back - v) <= 1e-12 * abs(v)
            c.count('unitpy:dumps-' + ('ok' if okfmt and okrt else 'bad'))
            if not (okfmt and okrt):
                nr += 1
                if un[0].isdigit():
                    c.failing_input('unit-py:bound-unit-numeral-accepted', 'bound unit type accepts a unit that starts with a numeral; dumps/loads round trip changes the value', dict(stream='unit.py', value=v, unit=un, text=txt, back=back))
                elif num is not None and '-' in num[1:]:
                    c.failing_input('unit-py:f2s-negative-exponent', 'unit._f2s misplaces the minus sign of small negative numbers, so dumps() output cannot be loaded', dict(stream='unit.py', value=v, unit=un, text=txt, exc=repr(err)))
                else:
                    c.failing_input('unit-py:dumps-roundtrip', 'dumps/loads of nutils.unit does not round-trip the value', dict(stream='unit.py', value=v, unit=un, text=txt, back=back, exc=repr(err)))
    c.obligation('corr:unit.py', nbad == 0 and nr == 0, 'correspondence', '%d unit systems, %d dumps round trips (%d bad)' % (len(systems), len(vals) * 6, nr))


# ------------------------------------------------------------------------------------------------ stream: _util.nutils_dispatch

def stream_dispatch_decorator(c, N):
    """the decorator against a direct reading of its contract: the first positional argument (after binding and defaults)
    whose type has `__nutils_dispatch__` and does not decline gets (wrapper, args, kwargs); every type is asked once"""
    from nutils import _util
    rng = c.rng
    log = []
    def mk(name, answers):
        class T:
            @classmethod
            def __nutils_dispatch__(cls, func, args, kwargs):
                log.append((name, func, args, dict(kwargs)))
                return answers[name]()
        T.__name__ = name
        return T
    answers = {}
    A, B, C = mk('A', answers), mk('B', answers), mk('C', answers)
    class P: pass
    def f(x, y=7, /, z=None, *rest, k=3, **kw):
        return ('plain', x, y, z, rest, k, tuple(sorted(kw)))
    g = _util.nutils_dispatch(f)
    nbad = 0
    for _ in range(N):
        decline = {n_: rng.random() < .4 for n_ in 'ABC'}
        for n_ in 'ABC': answers[n_] = (lambda n_=n_: NotImplemented if decline[n_] else ('handled', n_))
        objs = [rng.choice([A, B, C, P])() if rng.random() < .7 else rng.randint(0, 5) for _ in range(rng.randint(1, 5))]
        kwargs = {}
        if rng.random() < .3: kwargs['k'] = rng.choice([A(), 1])
        if rng.random() < .3 and len(objs) < 3: kwargs['z'] = rng.choice([B(), 2])
        if rng.random() < .2: kwargs['extra'] = C()
        del log[:]
        try: r = g(*objs, **kwargs)
        except TypeError as e: r = ('typeerror',)
        # reference
        pos = list(objs)
        if len(pos) < 2: pos.append(7)
        if len(pos) < 3: pos.append(kwargs.get('z'))
        kws = {k: v for k, v in kwargs.items() if k != 'z' or len(objs) >= 3}
        if 'z' in kwargs and len(objs) >= 3: want = ('typeerror',); wantlog = []
        else:
            kws.setdefault('k', 3)
            kwb = {'k': kws['k'], 'kw': {k: v for k, v in kws.items() if k != 'k'}}
            want = None; wantlog = []; seen = []
            for a in pos:
                T = type(a)
                if hasattr(T, '__nutils_dispatch__') and T not in seen:
                    wantlog.append(T.__name__)
                    if not decline[T.__name__]: want = ('handled', T.__name__); break
                    seen.append(T)
            if want is None:
                want = f(*objs, **kwargs)
        c.case(('nutils_dispatch', [type(o).__name__ for o in objs], sorted(kwargs), sorted(decline.items())), nontrivial=True)
        c.count('dispatch-decorator:' + want[0])
        good = r == want and [l[0] for l in log] == wantlog and all(l[1] is g and l[2] == tuple(pos) for l in log)
        if not good:
            nbad += 1
            c.failing_input('nutils_dispatch:contract', 'nutils_dispatch does not follow its dispatch contract (order, once per type, fallback, arguments handed over)',
                            dict(stream='nutils_dispatch', args=[type(o).__name__ for o in objs], kwargs=sorted(kwargs), decline=decline, real=repr(r), want=repr(want), asked=[l[0] for l in log], want_asked=wantlog))
    c.obligation('oracle:nutils_dispatch', nbad == 0, 'exploration', '%d calls' % N)
    return
    yield


def run_streams(c, gens):
    """drive generator streams in lockstep so that each round needs one start of the Lean driver"""
    import traceback
    def crashed(name, e):
        # an exception escaping from a stream comes from the real code under test (every stream runs clean on the pinned tree):
        # it is an outcome, reported as a broken correspondence of that stream, not an infrastructure failure
        if isinstance(e, Infra): raise e
        tb = traceback.format_exc()
        c.log('stream %s stopped by %s' % (name, type(e).__name__))
        c.obligation('stream:' + name, False, 'correspondence', 'stopped by %r' % e)
        c.broken_no_input('stream:' + name, 'real code raised %s where the stream expects none' % type(e).__name__, dict(stream=name, traceback=tb[-1500:]))
    pending = []
    for name, g in gens:
        try: pending.append((name, g, next(g)))
        except StopIteration: c.log('stream %s done' % name)
        except Exception as e: crashed(name, e)
    rounds = 0
    while pending:
        allreq = []
        for name, g, reqs in pending: allreq += reqs
        ans = c.model(allreq); rounds += 1
        nxt = []; pos = 0
        for name, g, reqs in pending:
            a = ans[pos:pos + len(reqs)]; pos += len(reqs)
            bad = [r for r, x in zip(reqs, a) if x == 'bad-request']
            if bad: raise Infra('driver does not understand request %r of stream %s' % (bad[0], name))
            try: nxt.append((name, g, g.send(a)))
            except StopIteration: c.log('stream %s done' % name)
            except Exception as e: crashed(name, e)
        pending = nxt
    c.extra['driver_rounds'] = rounds


def run(c):
    import warnings, treelog
    warnings.simplefilter('ignore')
    with treelog.set(treelog.NullLog()):
        _run(c)

def _run(c):
    import os
    from nutils import SI
    quick = c.tier == 'quick'
    c.rule = ('exponent vectors: sparse dicts over 17 base symbols (SI symbols and admissible exotic ones: digits/underscore inside, Greek) with exponents from 20 rationals '
              '(integers, halves, thirds, 5/7, 11/13, 100/3, …), operands correlated so that cancellations occur; names: random strings over a 16-symbol alphabet of '
              'letters, digits, _ * /; handlers: every handler function called with 0-4 arguments that are quantities of 3 dimensions or plain (agreement frequent), '
              'recording stub as wrapped function; public API: every classified function called with same / free / partly plain operand dimensions on dyadic data, '
              'result dimension vs law, value vs plain recomputation, and again after rescaling all reference units by 16; compositions: expression trees of depth ≤ 3 over '
              'numpy arrays and nutils function arrays; unit strings: generated from the documented grammar (number, prefix, unit, integer and fractional powers, * and /) with '
              'their meaning known by construction, plus single-character corruptions; format specs: precision/width/grouping × generated units; Units.__setattr__: definition '
              'sequences over 24 colliding names; unit.py: random unit systems from 10 base and 21 derived definitions (ambiguous prefix/unit names, cycles, unknown units). '
              'A case is non-trivial when it involves at least one dimensional operand / non-empty string; distinct by its full data')
    c.assumptions += [
        'trusted specification: the law table `lawOf` (which homogeneity law each dispatched NumPy/nutils function obeys) and the SI table `siSpec` in Model/C20.lean',
        'values are exact rationals in the model; Python floats are compared exactly where the computation is the same sequence of float operations '
        '(value commutes with unwrapping; rescaling by powers of two) and with relative tolerance 1e-11/1e-12 where decimal prefixes (1e-3, …) or nutils simplification reorder float operations',
        'float formatting of Quantity.__format__ is not modelled (token level round trip); the harness checks the real text against Python formatting of the plain quotient and the round trip within the printed precision',
        'keyword arguments of dispatched functions are outside the model (handlers forward them unchecked); three unit-dependence findings about them are recorded as known findings',
        'irrational values (fractional power of a value that is not a perfect power) and exponents beyond ±4096 are not given a value by the model: dimension only / skipped (counted)',
        'Dimension.from_powers with base symbols that Dimension.create rejects (empty, containing * or /, ending in a digit or underscore) is outside the property: the name cache collides for them (noted in notes/C20.md)',
        'operator == / != between quantities of different dimension fall back to Python identity (False / True) instead of raising; accepted as sound (no number is compared)']
    c.trusted += ['trusted spec tables lawOf / siSpec / prefixes (Model/C20.lean), hand-written']
    entries = extract_dispatch(SI)
    defs, unsupported = extract_unit_defs(SI)
    c.write_generated('C20.lean', generated_text(entries, defs))
    if unsupported:
        c.extra['unsupported_unit_definitions'] = unsupported
    broken = [] if os.environ.get('NVH_DEV_SKIP_BUILD') else c.build_and_audit()      # the switch is for harness development only
    c.log('lean build + audit done')
    out = {}
    n = (lambda q, t: q if quick else t)
    # disagreements between model and code are held back until all streams ran: the specification oracles of the same
    # stream may find a real failing input that explains them (then only that is reported)
    deferred = []
    emit_broken = c.broken_no_input
    c.broken_no_input = lambda name, what, replay: deferred.append((name, what, replay))
    emit_failing = c.failing_input
    failing_streams = set()
    def failing_input(signature, what, replay):
        r = emit_failing(signature, what, replay)
        if r: failing_streams.add(replay.get('stream'))
        return r
    c.failing_input = failing_input
    run_streams(c, [
        ('handlers', stream_handlers(c, SI, entries, n(40, 1500), out)),
        ('api', stream_api(c, SI, entries, n(6, 150), out)),
        ('dim-algebra', stream_dim_algebra(c, SI, n(300, 6000))),
        ('names', stream_names(c, SI, n(300, 6000))),
        ('units', stream_units(c, SI, defs, n(300, 8000))),
        ('compositions', stream_compositions(c, SI, n(150, 5000))),
        ('unit.py', stream_unitpy(c, n(150, 4000))),
        ('nutils_dispatch', stream_dispatch_decorator(c, n(200, 5000))),
        ('locate', stream_locate(c, SI, n(25, 400))),
        ('protocol', stream_protocol(c, SI, n(40, 1500))),
        ('keywords', stream_keywords(c, SI)),
    ])
    # a handler that differs from its model: explained if a function routed to this kind has a failing input, else unexplained
    failed, laws = out['failed'], out['laws']
    failed_kinds = {laws[f].split('|')[1] for f in failed if laws.get(f, 'none') != 'none'}
    for kind, replay in out['pending'].items():
        if kind in failed_kinds: c.count('handlers:mismatch-explained-by-failing-input')
        else: emit_broken('corr:handler:' + kind, 'handler and its model disagree, no failing input through the public API', replay)
    related = {'handlers': {'api', 'protocol'}, 'units': {'parse', 'format', 'construct', 'define'}, 'parse': {'units'}, 'format': {'parse', 'construct'}, 'construct': {'parse'},
               'names': {'dim-algebra', 'dim-laws'}, 'dim-algebra': {'dim-laws', 'names'}, 'compositions': {'api', 'dim-algebra'}}
    for name, what, replay in deferred:
        st = replay.get('stream')
        if st in failing_streams or related.get(st, set()) & failing_streams: c.count('disagreement-explained-by-failing-input')
        else: emit_broken(name, what, replay)
    c.broken_no_input = emit_broken
    for b in broken:
        # the Lean build over the regenerated tables broke: a failing input found by the streams above (they are driven by the
        # specification `lawOf` / `siSpec`, not by the extracted table) explains it; otherwise report the broken obligation
        if any(v[2] and not v[2].startswith('broken:') for v in c.violations): c.count('proof-break-explained-by-failing-input')
        else: c.broken_no_input('proof', b, dict(detail=b))
