"""C20 — physical dimensions are tracked soundly (nutils.SI, nutils.unit, nutils._util.nutils_dispatch).

Ties:
 (X) `Quantity.__DISPATCH_TABLE` (function, handler) and the unit definitions at the bottom of SI.py are
     extracted on every run into `lean/NutilsVerif/Generated/C20.lean`; `Props/C20.lean` proves
     `dispatch_table_sound` and `si_units_sound` over every generated entry.
 (M) real `Dimension`/`Quantity`/`parse`/`Units`/`__format__`/`unit.create` against the Lean model
     (`Model/C20.lean`, `Model/C20Unit.lean`) on generated exponent vectors, unit strings and handler calls.
Specification oracles used for failing inputs (never "model != code" alone):
 * exact `fractions.Fraction` arithmetic on exponent dicts (the dimension group),
 * the law table `lawOf` of the Lean model (which dimension rule a dispatched function must obey),
 * the same NumPy/nutils computation on the unwrapped numbers (value commutes),
 * invariance under a change of reference units (rescaling by powers of two / four is exact in floats),
 * the meaning of a unit string known by construction from the SI specification table `siSpec`.
"""
import ast, inspect, itertools, operator, pickle, math, re, sys, functools
from fractions import Fraction
from .common import Infra

F = Fraction

# ------------------------------------------------------------------------------------------------ encoding

def rat(x):
    x = F(x)
    return str(x.numerator) if x.denominator == 1 else '%d/%d' % (x.numerator, x.denominator)

def unrat(s):
    return F(s)

def pows_str(p):
    return ','.join('%s:%s' % (b, rat(e)) for b, e in sorted(p.items()))

def pows_parse(s):
    return {} if s == '' else {b: F(e) for b, e in (item.rsplit(':', 1) for item in s.split(','))}

def canon(p):
    return {b: F(e) for b, e in p.items() if e}

def lean_str(s):
    return '"' + s.replace('\\', '\\\\').replace('"', '\\"') + '"'

def lean_rat(x):
    x = F(x)
    return '(%d : Rat)' % x.numerator if x.denominator == 1 else '((%d : Rat) / %d)' % (x.numerator, x.denominator)

def lean_chars(s):
    return '[' + ', '.join("'%s'" % ("\\'" if ch == "'" else '\\\\' if ch == '\\' else ch) for ch in s) + ']'

def lean_pows(p):
    return '[' + ', '.join('(%s, %s)' % (lean_str(b), lean_rat(e)) for b, e in sorted(p.items())) + ']'


# ------------------------------------------------------------------------------------------------ (X) extraction

def fname_of(f):
    mod = getattr(f, '__module__', None) or '?'
    if mod == '_operator': mod = 'operator'
    qn = getattr(f, '__qualname__', None) or getattr(f, '__name__', None) or repr(f)
    return mod + '.' + qn

def extract_dispatch(SI):
    table = SI.Quantity._Quantity__DISPATCH_TABLE
    lines = {}
    for f, p in table.items():
        lines.setdefault(p.func.__name__, set()).add(p.func.__code__.co_firstlineno)
    rank = {(n, l): i for n, ls in lines.items() for i, l in enumerate(sorted(ls))}
    entries = []
    for f, p in table.items():
        h = p.func
        entries.append(dict(fname=fname_of(f), handler=h.__name__, rank=rank[h.__name__, h.__code__.co_firstlineno], func=f, partial=p))
    entries.sort(key=lambda e: e['fname'])
    return entries

def extract_unit_defs(SI):
    """The statements `units.X = ...` / `units['X'] = ...` of SI.py, in source order."""
    src = inspect.getsource(SI)
    defs, unsupported = [], []
    for node in ast.parse(src).body:
        if not (isinstance(node, ast.Assign) and len(node.targets) == 1): continue
        t = node.targets[0]
        if isinstance(t, ast.Attribute) and isinstance(t.value, ast.Name) and t.value.id == 'units':
            v = node.value
            if isinstance(v, ast.Constant) and isinstance(v.value, str):
                defs.append(('str', t.attr, v.value)); continue
            if (isinstance(v, ast.Call) and isinstance(v.func, ast.Attribute) and v.func.attr == 'wrap' and isinstance(v.func.value, ast.Name)
                    and len(v.args) == 1 and isinstance(v.args[0], ast.Constant) and isinstance(v.args[0].value, (int, float))):
                dim = getattr(SI, v.func.value.id, None)
                if isinstance(dim, SI.Dimension):
                    from decimal import Decimal
                    txt = ast.get_source_segment(src, v.args[0])
                    defs.append(('wrap', t.attr, dict(dim._Dimension__powers), F(Decimal(txt)))); continue
            unsupported.append(ast.get_source_segment(src, node))
        elif isinstance(t, ast.Subscript) and isinstance(t.value, ast.Name) and t.value.id == 'units':
            v = node.value
            if (isinstance(t.slice, ast.Constant) and isinstance(t.slice.value, str) and isinstance(v, ast.BinOp) and isinstance(v.op, ast.Mult)
                    and isinstance(v.left, ast.Constant) and isinstance(v.right, ast.Attribute) and isinstance(v.right.value, ast.Name) and v.right.value.id == 'units'):
                defs.append(('item', t.slice.value, ast.get_source_segment(src, v.left) + v.right.attr)); continue
            unsupported.append(ast.get_source_segment(src, node))
    return defs, unsupported

def generated_text(entries, defs):
    L = ['import NutilsVerif.Model.C20', '/-! GENERATED on every run by harness/nvh/c20.py from /repo/src/nutils/SI.py — do not edit. -/',
         'namespace NutilsVerif.C20.Generated', '',
         '/-- `Quantity.__DISPATCH_TABLE`: (function, name of the handler it is registered with, rank among handlers of that name) -/',
         'def dispatchTable : List Entry := [']
    L += ['  ⟨%s, %s, %d⟩%s' % (lean_str(e['fname']), lean_str(e['handler']), e['rank'], ',' if i + 1 < len(entries) else '') for i, e in enumerate(entries)]
    L += [']', '', '/-- the unit definitions of SI.py in source order -/', 'def unitDefs : List UDef := [']
    items = []
    for d in defs:
        if d[0] == 'str': items.append('  .str %s %s' % (lean_chars(d[1]), lean_chars(d[2])))
        elif d[0] == 'item': items.append('  .item %s %s' % (lean_chars(d[1]), lean_chars(d[2])))
        else: items.append('  .wrap %s ⟨%s, %s⟩' % (lean_chars(d[1]), lean_pows(d[2]), lean_rat(d[3])))
    L += [',\n'.join(items), ']', '', 'end NutilsVerif.C20.Generated', '']
    return '\n'.join(L)

def defs_request(defs):
    out = []
    for d in defs:
        if d[0] == 'wrap': out.append('wrap=%s=%s=%s' % (d[1], pows_str(d[2]), rat(d[3])))
        else: out.append('%s=%s=%s' % (d[0], d[1], d[2]))
    return 'units|' + ';'.join(out)



# ------------------------------------------------------------------------------------------------ helpers on real objects

def powers_of(cls):
    return dict(cls._Dimension__powers)

def is_q(SI, x):
    return isinstance(x, SI.Quantity)

def dim_of(SI, x):
    """exponent dict of any value (plain values are dimensionless)"""
    return powers_of(type(x)) if isinstance(x, SI.Quantity) else {}

def unwrap(SI, x):
    return x.unwrap() if isinstance(x, SI.Quantity) else x

EXC = {'DimensionError': 'dimension', 'AssertionError': 'assertion', 'IndexError': 'index', 'TypeError': 'type',
       'ValueError': 'value', 'ZeroDivisionError': 'zeroDiv', 'RecursionError': 'recursion', 'StopIteration': 'stop',
       'AttributeError': 'attribute', 'KeyError': 'key', 'NotImplementedError': 'notimplemented'}

def exc_name(e):
    return EXC.get(type(e).__name__, type(e).__name__)

class Timer:
    pass

# spec oracle for the dimension group: exact Fraction arithmetic on dicts
def spec_mul(a, b): return canon({k: a.get(k, 0) + b.get(k, 0) for k in set(a) | set(b)})
def spec_div(a, b): return canon({k: a.get(k, 0) - b.get(k, 0) for k in set(a) | set(b)})
def spec_pow(a, q): return canon({k: v * F(q) for k, v in a.items()})

BASES = ['L', 'T', 'M', 'I', 'θ', 'N', 'J', 'X', 'Yy', 'a1b', 'x_y', 'Ω', 'q', 'LL', 'l', 'T2x', 'ab']
EXPS = [F(1), F(-1), F(2), F(-2), F(3), F(-3), F(4), F(1, 2), F(-1, 2), F(3, 2), F(1, 3), F(-2, 3), F(5, 7), F(10), F(12), F(-11), F(1, 10), F(11, 13), F(-21, 2), F(100, 3)]

def gen_pows(rng, maxn=4, bases=BASES, exps=EXPS):
    n = rng.choice([0, 1, 1, 2, 2, 3, maxn])
    return {b: rng.choice(exps) for b in rng.sample(bases, n)}

def gen_exponent(rng):
    """(python object passed to Dimension.__pow__, exact value)"""
    k = rng.randrange(7)
    import numpy
    if k == 0: v = rng.randint(-4, 4); return v, F(v)
    if k == 1: v = rng.choice(EXPS + [F(0)]); return v, v
    if k == 2: v = rng.choice([.5, -.5, 1.5, .25, 2., -3., 0., .125]); return v, F(v)
    if k == 3: v = rng.randint(-3, 3); return numpy.int64(v), F(v)
    if k == 4: v = rng.choice([.5, 2.5, -1.]); return numpy.float64(v), F(v)
    if k == 5: v = rng.choice(['1/2', '3', '-2/3']); return v, F(v)
    v = rng.randint(0, 3); return numpy.array(v), F(v)


# ------------------------------------------------------------------------------------------------ stream: dimension algebra

def stream_dim_algebra(c, SI, N):
    rng = c.rng
    D = SI.Dimension
    cases = []
    for _ in range(N):
        a, b = gen_pows(rng), gen_pows(rng)
        if rng.random() < .3: b = {k: rng.choice([v, -v, v]) for k, v in a.items()}   # cancellations
        op = rng.choice(['mul', 'div', 'pow', 'pow'])
        e = gen_exponent(rng) if op == 'pow' else None
        cases.append((op, a, b, e))
    req = []
    for op, a, b, e in cases:
        if op == 'pow': req.append('dimop|pow|%s|%s' % (pows_str(a), rat(e[1])))
        else: req.append('dimop|%s|%s|%s' % (op, pows_str(a), pows_str(b)))
    ans = c.model(req)
    nbad = 0
    for (op, a, b, e), r in zip(cases, ans):
        A = D.from_powers(dict(a)); B = D.from_powers(dict(b))
        spec = spec_mul(a, b) if op == 'mul' else spec_div(a, b) if op == 'div' else spec_pow(a, e[1])
        replay = dict(stream='dim-algebra', op=op, a=pows_str(a), b=pows_str(b), exponent=repr(e[0]) if e else None, model=r)
        try:
            R = A * B if op == 'mul' else A / B if op == 'div' else A ** e[0]
        except Exception as ex:
            c.failing_input('dimension-algebra:%s-raises' % op, 'Dimension %s raises %s on valid operands' % (op, type(ex).__name__), dict(replay, exc=repr(ex)))
            nbad += 1; continue
        got = powers_of(R)
        mp, mname = r.split('|')[:2]
        c.case(('dim', op, pows_str(a), pows_str(b), rat(e[1]) if e else ''), nontrivial=bool(a))
        c.count('dim:' + op); c.count('dim:result-' + ('dimensionless' if not spec else 'fractional' if any(v.denominator != 1 for v in spec.values()) else 'integral'))
        c.sample(dict(replay, real=pows_str(got), name=R.__name__))
        # specification oracle
        if canon(got) != spec or any(not v for v in got.values()):
            c.failing_input('dimension-algebra:' + op, 'Dimension.%s gives exponents that differ from exact arithmetic on the operands\' exponents' % op, dict(replay, real=pows_str(got), spec=pows_str(spec)))
            nbad += 1; continue
        if R is not D.from_powers(dict(spec)) or bool(R) != bool(spec):
            c.failing_input('dimension-cache:identity', 'equal exponent vectors give different classes (cache keyed by name is not sound)', dict(replay, real=R.__name__))
            nbad += 1; continue
        try:
            back = getattr(SI.Quantity, R.__name__); back2 = pickle.loads(pickle.dumps(R))
        except Exception as ex:
            back = back2 = ex
        if back is not R or back2 is not R:
            c.failing_input('dimension-name:roundtrip', 'class name does not resolve back to the class (pickle round trip)', dict(replay, name=R.__name__, back=repr(back)))
            nbad += 1; continue
        # correspondence with the model
        if pows_parse(mp) != spec or R.__name__ != '[' + mname + ']':
            nbad += 1
            c.broken_no_input('corr:dimension-algebra', 'model and implementation disagree on exponents or class name', dict(replay, real=pows_str(got), name=R.__name__))
    # group laws directly on the real classes
    nlaw = 0
    for _ in range(N // 4):
        a, b, d = (D.from_powers(gen_pows(rng, exps=EXPS[:12])) for _ in range(3))
        p, q = rng.choice(EXPS[:12]), rng.choice(EXPS[:12] + [F(0)])
        laws = {'assoc': lambda: (a * b) * d is a * (b * d), 'comm': lambda: a * b is b * a, 'one': lambda: a * SI.Dimensionless is a and a / SI.Dimensionless is a,
                'inv': lambda: a / a is SI.Dimensionless and a * a ** -1 is SI.Dimensionless, 'div': lambda: a / b is a * b ** -1,
                'pow_add': lambda: a ** (p + q) is a ** p * a ** q, 'pow_mul': lambda: (a ** p) ** q is a ** (p * q), 'mul_pow': lambda: (a * b) ** q is a ** q * b ** q,
                'pow_one': lambda: a ** 1 is a and a ** 0 is SI.Dimensionless}
        for name, f in laws.items():
            nlaw += 1
            try: ok = f()
            except Exception as ex: ok = False
            if not ok:
                nbad += 1
                c.failing_input('dimension-group:' + name, 'group law %s fails on real Dimension classes' % name, dict(stream='dim-laws', law=name, a=a.__name__, b=b.__name__, d=d.__name__, p=str(p), q=str(q)))
        c.case(('laws', a.__name__, b.__name__, d.__name__, str(p), str(q)), nontrivial=bool(a))
    c.count('dim:laws-checked', nlaw)
    c.obligation('corr:dimension-algebra', nbad == 0, 'correspondence', '%d operations, %d law instances' % (len(cases), nlaw))


# ------------------------------------------------------------------------------------------------ stream: names, _split_factors, create, __getattr__

def gen_factor_string(rng):
    alpha = ['L', 'T', 'a', 'b', 'θ', '1', '2', '0', '3', '_', '*', '/', 'x', '12', '_2', 'M']
    return ''.join(rng.choice(alpha) for _ in range(rng.randint(0, 8)))

def stream_names(c, SI, N):
    rng = c.rng
    strings = ['', '*', '/', 'a', 'M*L/T2', 'M_2*L_2/T', 'M3_2*L3_2/T3', '/T', '/T/L', 'a//b', 'a*/b', 'a1_2_3', 'a__2', 'a2_', 'a_0', 'a0', '1', 'a1b2', 'x_y3', 'a_1_', 'a1__2', 'a_', 'a2_0']
    strings += [gen_factor_string(rng) for _ in range(N)]
    ans = c.model(['split|' + s for s in strings] + ['dimofname|' + s for s in strings] + ['create|' + s for s in strings])
    n = len(strings); nbad = 0
    for i, s in enumerate(strings):
        # _split_factors
        try: real = 'ok|' + ';'.join('%s:%s:%d' % (b, rat(p), n_) for b, p, n_ in SI._split_factors(s))
        except Exception as e: real = 'err|' + exc_name(e)
        c.case(('split', s), nontrivial=len(s) > 1); c.count('split:' + real.split('|')[0])
        if real != ans[i]:
            nbad += 1; c.broken_no_input('corr:_split_factors', 'model and implementation disagree', dict(stream='names', op='split', s=s, real=real, model=ans[i]))
        # Quantity.__getattr__('[s]')
        try: real = 'ok|' + pows_str(powers_of(getattr(SI.Quantity, '[' + s + ']')))
        except Exception as e: real = 'err|' + exc_name(e)
        c.count('getattr:' + real.split('|')[0])
        if ans[n + i].startswith('ok|') and ans[n + i].endswith('|0'):
            c.count('getattr:skipped-ambiguous-base')     # a base symbol that Dimension.create rejects: the name cache is history dependent
        elif real != ans[n + i].rsplit('|', 1)[0] if ans[n + i].startswith('ok|') else real != ans[n + i]:
            nbad += 1; c.broken_no_input('corr:Dimension.__getattr__', 'model and implementation disagree', dict(stream='names', op='getattr', s=s, real=real, model=ans[n + i]))
        # Dimension.create
        m = ans[2 * n + i].split('|')
        if s in SI.Dimension._Dimension__cache:
            continue
        try:
            cls = SI.Dimension.create(s)
            real = 'ok' if powers_of(cls) == {s: F(1)} else 'ok-wrong-powers'
        except Exception as e: real = exc_name(e)
        c.count('create:' + real)
        m = ['ok' if m[0] == 'ok' else 'value' if m[0] == 'invalid' else 'stop' if m[0] == 'stop' else m[1], m[-1]]
        if real == 'ok' and m[-1] != '1':
            # the specification (ValidBase) says the name of this base is ambiguous
            c.failing_input('dimension-create:accepts-ambiguous', 'Dimension.create accepts a symbol whose class name cannot be parsed back', dict(stream='names', op='create', s=s, model=ans[2 * n + i]))
            nbad += 1
        elif real != m[0]:
            nbad += 1; c.broken_no_input('corr:Dimension.create', 'model and implementation disagree', dict(stream='names', op='create', s=s, real=real, model=ans[2 * n + i]))
    c.obligation('corr:names', nbad == 0, 'correspondence', '%d strings x (split, getattr, create)' % n)


# ------------------------------------------------------------------------------------------------ stream: the handler functions, probed with a recording stub

SMALL_DIMS = [{}, {'L': F(1)}, {'T': F(1)}, {'L': F(1), 'T': F(-1)}, {'M': F(1, 2)}, {'L': F(2)}, {'L': F(-1)}]

class Plain:
    'a positional argument that is not a Quantity'
    def __init__(self, i): self.i = i

def show_val(SI, i, a):
    if isinstance(a, str): return a
    if isinstance(a, SI.Quantity): return 'Q<%s>[%s]' % (pows_str(powers_of(type(a))), show_val(SI, i, a.unwrap()))
    if isinstance(a, (list, tuple)): return '[' + ','.join(show_val(SI, j, x) for j, x in enumerate(a)) + ']'
    if isinstance(a, Plain): return 'a%d' % a.i
    return 'a%d' % i

def make_arg(SI, rng, i, dims):
    """(real argument, protocol encoding)"""
    d = rng.choice(dims)
    if rng.random() < .3 or not d:
        if d or rng.random() < .7:
            return Plain(i), 'p'
        # a Quantity class can be dimensionless only through direct instantiation; wrap() never produces one
        return Plain(i), 'p'
    return SI.Dimension.from_powers(dict(d)).wrap('a%d' % i), 'q:' + pows_str(d)

def stream_handlers(c, SI, entries, N):
    rng = c.rng
    handlers = {}
    for e in entries:
        handlers.setdefault((e['handler'], e['rank']), e['partial'].func)
    keys = sorted(handlers)
    kinds = c.model(['handler|%s|%d' % k for k in keys])
    nbad = 0
    cases = []
    for key, kind in zip(keys, kinds):
        if kind in ('none', 'bad-request'):
            c.count('handlers:unknown-handler')
            nbad += 1
            c.broken_no_input('corr:handler-name', 'dispatch handler %r is unknown to the model' % (key,), dict(stream='handlers', handler=key))
            continue
        for _ in range(N):
            dims = [rng.choice(SMALL_DIMS[1:]) for _ in range(2)] + [{}]      # few distinct dimensions so that agreement is frequent
            if kind == 'stackLike':
                seq = [make_arg(SI, rng, i, dims) for i in range(rng.choice([0, 1, 2, 2, 3]))]
                rest = [(Plain(len(seq) + j), 'p') for j in range(rng.choice([0, 0, 1]))]
                cases.append((key, kind, ('stack', seq, rest), 'stack|%s|%s' % (';'.join(a[1] for a in seq), ';'.join(a[1] for a in rest))))
            elif kind == 'locate':
                ops = []
                for j, optional in enumerate([False, False, True, True]):
                    if optional and rng.random() < .4: ops.append((None, 'none'))
                    else: ops.append(make_arg(SI, rng, j, dims))
                cases.append((key, kind, ('locate', ops), 'locate|' + '|'.join(o[1] for o in ops)))
            else:
                n = 2 if kind == 'sample' else rng.choice([3, 3, 4]) if kind == 'interp' else rng.choice([0, 1, 1, 2, 2, 2, 3, 3, 4])
                args = [make_arg(SI, rng, i, dims) for i in range(n)]
                expo = 'none'
                if kind == 'powLike' and n >= 2:
                    if rng.random() < .15: args[1] = (rng.choice([None, object()]), 'p')
                    else:
                        obj, val = gen_exponent(rng); args[1] = (obj, 'p'); expo = rat(val)
                cases.append((key, kind, ('args', args), 'apply|%s|%s|%s' % (kind, ';'.join(a[1] for a in args), expo)))
    ans = c.model([x[3] for x in cases])
    for (key, kind, call, req), m in zip(cases, ans):
        h = handlers[key]
        def stub(*args, **kwargs):
            s = 'f(' + ','.join(show_val(SI, i, a) for i, a in enumerate(args)) + ')'
            return tuple(s + '#%d' % i for i in range(len(args))) if kind == 'evaluate' else s
        try:
            if call[0] == 'stack':
                r = h(stub, [a[0] for a in call[1]], *[a[0] for a in call[2]])
            elif call[0] == 'locate':
                g, co, tol, md = [o[0] for o in call[1]]
                r = h(lambda topo, geom, coords, **kw: 'located', 'topo', g, co, tol=tol, maxdist=md)
                r = 'ok'
            else:
                r = h(stub, *[a[0] for a in call[1]])
            real = 'ok|' + (';'.join(show_val(SI, 0, x) for x in r) if isinstance(r, tuple) else show_val(SI, 0, r)) if r != 'ok' else 'ok'
        except Exception as e:
            real = 'err|' + exc_name(e)
        c.case(('handler', key, req), nontrivial='q:' in req)
        c.count('handler:%s:%s' % (kind, real.split('|')[0] if real.startswith('ok') else real))
        if real != m:
            nbad += 1
            c.broken_no_input('corr:handler:' + kind, 'handler %s and its model disagree' % key[0], dict(stream='handlers', handler=key, request=req, real=real, model=m))
    c.sample(dict(stream='handlers', request=cases[-1][3], model=ans[-1]))
    c.obligation('corr:handlers', nbad == 0, 'correspondence', '%d handler calls over %d handlers' % (len(cases), len(keys)))
    return dict(zip(keys, kinds))


def run(c):
    import warnings
    warnings.simplefilter('ignore')
    from nutils import SI
    quick = c.tier == 'quick'
    c.rule = 'TODO'
    entries = extract_dispatch(SI)
    defs, unsupported = extract_unit_defs(SI)
    c.write_generated('C20.lean', generated_text(entries, defs))
    import os
    broken = [] if os.environ.get('NVH_DEV_SKIP_BUILD') else c.build_and_audit()
    c.log('lean build + audit done')
    stream_handlers(c, SI, entries, 40 if quick else 1500)
    c.log('handlers done')
    stream_dim_algebra(c, SI, 300 if quick else 6000)
    c.log('dimension algebra done')
    stream_names(c, SI, 300 if quick else 6000)
    c.log('names done')
    for b in broken:
        c.broken_no_input('proof', b, dict(detail=b))
