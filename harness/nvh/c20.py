"""C20 — physical dimensions are tracked soundly (nutils.SI, nutils.unit, nutils._util.nutils_dispatch).

Ties:
 (X) `Quantity.__DISPATCH_TABLE` (function, handler) and the unit definitions at the bottom of SI.py are
     extracted on every run into `lean/NutilsVerif/Generated/C20.lean`; `Props/C20.lean` proves
     `dispatch_table_sound` and `si_units_sound` over every generated entry.
 (M) real `Dimension`/`Quantity`/`parse`/`Units`/`__format__`/`unit.create` against the Lean model
     (`Model/C20.lean`, `Model/C20Unit.lean`) on generated exponent vectors, unit strings and handler calls.
Specification oracles used for failing inputs (never "model != code" alone):
 * exact `fractions.Fraction` arithmetic on exponent dicts (the dimension group),
 * the law table `lawOf` of the Lean model (which dimension rule a dispatched function must obey),
 * the same NumPy/nutils computation on the unwrapped numbers (value commutes),
 * invariance under a change of reference units (rescaling by powers of two / four is exact in floats),
 * the meaning of a unit string known by construction from the SI specification table `siSpec`.
"""
import ast, inspect, itertools, operator, pickle, math, re, sys, functools
from fractions import Fraction
from .common import Infra

F = Fraction

# ------------------------------------------------------------------------------------------------ encoding

def rat(x):
    x = F(x)
    return str(x.numerator) if x.denominator == 1 else '%d/%d' % (x.numerator, x.denominator)

def unrat(s):
    return F(s)

def pows_str(p):
    return ','.join('%s:%s' % (b, rat(e)) for b, e in sorted(p.items()))

def pows_parse(s):
    return {} if s == '' else {b: F(e) for b, e in (item.rsplit(':', 1) for item in s.split(','))}

def canon(p):
    return {b: F(e) for b, e in p.items() if e}

def lean_str(s):
    return '"' + s.replace('\\', '\\\\').replace('"', '\\"') + '"'

def lean_rat(x):
    x = F(x)
    return '(%d : Rat)' % x.numerator if x.denominator == 1 else '((%d : Rat) / %d)' % (x.numerator, x.denominator)

def lean_chars(s):
    return '[' + ', '.join("'%s'" % ("\\'" if ch == "'" else '\\\\' if ch == '\\' else ch) for ch in s) + ']'

def lean_pows(p):
    return '[' + ', '.join('(%s, %s)' % (lean_str(b), lean_rat(e)) for b, e in sorted(p.items())) + ']'


# ------------------------------------------------------------------------------------------------ (X) extraction

def fname_of(f):
    mod = getattr(f, '__module__', None) or '?'
    if mod == '_operator': mod = 'operator'
    qn = getattr(f, '__qualname__', None) or getattr(f, '__name__', None) or repr(f)
    return mod + '.' + qn

def extract_dispatch(SI):
    table = SI.Quantity._Quantity__DISPATCH_TABLE
    lines = {}
    for f, p in table.items():
        lines.setdefault(p.func.__name__, set()).add(p.func.__code__.co_firstlineno)
    rank = {(n, l): i for n, ls in lines.items() for i, l in enumerate(sorted(ls))}
    entries = []
    for f, p in table.items():
        h = p.func
        entries.append(dict(fname=fname_of(f), handler=h.__name__, rank=rank[h.__name__, h.__code__.co_firstlineno], func=f, partial=p))
    entries.sort(key=lambda e: e['fname'])
    return entries

def extract_unit_defs(SI):
    """The statements `units.X = ...` / `units['X'] = ...` of SI.py, in source order."""
    src = inspect.getsource(SI)
    defs, unsupported = [], []
    for node in ast.parse(src).body:
        if not (isinstance(node, ast.Assign) and len(node.targets) == 1): continue
        t = node.targets[0]
        if isinstance(t, ast.Attribute) and isinstance(t.value, ast.Name) and t.value.id == 'units':
            v = node.value
            if isinstance(v, ast.Constant) and isinstance(v.value, str):
                defs.append(('str', t.attr, v.value)); continue
            if (isinstance(v, ast.Call) and isinstance(v.func, ast.Attribute) and v.func.attr == 'wrap' and isinstance(v.func.value, ast.Name)
                    and len(v.args) == 1 and isinstance(v.args[0], ast.Constant) and isinstance(v.args[0].value, (int, float))):
                dim = getattr(SI, v.func.value.id, None)
                if isinstance(dim, SI.Dimension):
                    from decimal import Decimal
                    txt = ast.get_source_segment(src, v.args[0])
                    defs.append(('wrap', t.attr, dict(dim._Dimension__powers), F(Decimal(txt)))); continue
            unsupported.append(ast.get_source_segment(src, node))
        elif isinstance(t, ast.Subscript) and isinstance(t.value, ast.Name) and t.value.id == 'units':
            v = node.value
            if (isinstance(t.slice, ast.Constant) and isinstance(t.slice.value, str) and isinstance(v, ast.BinOp) and isinstance(v.op, ast.Mult)
                    and isinstance(v.left, ast.Constant) and isinstance(v.right, ast.Attribute) and isinstance(v.right.value, ast.Name) and v.right.value.id == 'units'):
                defs.append(('item', t.slice.value, ast.get_source_segment(src, v.left) + v.right.attr)); continue
            unsupported.append(ast.get_source_segment(src, node))
    return defs, unsupported

def generated_text(entries, defs):
    L = ['import NutilsVerif.Model.C20', '/-! GENERATED on every run by harness/nvh/c20.py from /repo/src/nutils/SI.py — do not edit. -/',
         'namespace NutilsVerif.C20.Generated', '',
         '/-- `Quantity.__DISPATCH_TABLE`: (function, name of the handler it is registered with, rank among handlers of that name) -/',
         'def dispatchTable : List Entry := [']
    L += ['  ⟨%s, %s, %d⟩%s' % (lean_str(e['fname']), lean_str(e['handler']), e['rank'], ',' if i + 1 < len(entries) else '') for i, e in enumerate(entries)]
    L += [']', '', '/-- the unit definitions of SI.py in source order -/', 'def unitDefs : List UDef := [']
    items = []
    for d in defs:
        if d[0] == 'str': items.append('  .str %s %s' % (lean_chars(d[1]), lean_chars(d[2])))
        elif d[0] == 'item': items.append('  .item %s %s' % (lean_chars(d[1]), lean_chars(d[2])))
        else: items.append('  .wrap %s ⟨%s, %s⟩' % (lean_chars(d[1]), lean_pows(d[2]), lean_rat(d[3])))
    L += [',\n'.join(items), ']', '', 'end NutilsVerif.C20.Generated', '']
    return '\n'.join(L)

def defs_request(defs):
    out = []
    for d in defs:
        if d[0] == 'wrap': out.append('wrap=%s=%s=%s' % (d[1], pows_str(d[2]), rat(d[3])))
        else: out.append('%s=%s=%s' % (d[0], d[1], d[2]))
    return 'units|' + ';'.join(out)


def run(c):
    import warnings
    warnings.simplefilter('ignore')
    from nutils import SI
    entries = extract_dispatch(SI)
    defs, unsupported = extract_unit_defs(SI)
    c.write_generated('C20.lean', generated_text(entries, defs))
    broken = c.build_and_audit()
    for b in broken:
        c.broken_no_input('proof', b, dict(detail=b))
