"""C19 — expression strings mean their index-notation reading.

Ties
 (M) structural, exact: the real `expression_v2._Parser` is run with a *recording* `_ArrayOps` backend on
     printed random source ASTs and on single-character edits of them (plus raw random strings and the other
     parser entry points); its operation tree / `ExpressionSyntaxError` text (message and caret line) is
     compared with the Lean port `Model/C19.lean` (`parseAt`) on every string.
 (S) semantic, on the real namespaces: `'s' @ ns` and `ns.x_ij = 's'` are evaluated on small integer data and
     compared with the index-notation *reading* of the generating AST (`c19gen.Reader`, exact Fractions) —
     the specification oracle — and, for every string (also corrupted ones), with the exact evaluation of the
     operation tree the Lean model predicts; where the model rejects, the real code must raise the module's
     `ExpressionSyntaxError`.
 v1 (`expression_v1`) is tied at the semantic level only (kind 'exploration').
"""
import re, math, itertools
from fractions import Fraction
import numpy
from .common import Infra
from . import c19gen as G

ALPHABET = list('abcsABTfgij012 _+-/^()[]{}<>.e,$∇')
ENTRIES = ['expr', 'frac', 'term', 'pow1', 'pow0', 'item1', 'item0']


# ------------------------------------------------------------------------------------------ recording backend

def make_recorder(v2, variables, functions):
    class Rec:
        def from_int(self, v): return 'i(%d)' % v
        def from_float(self, v): return 'f(%r)' % v
        def get_variable(self, name, ndim):
            sh = variables.get(name)
            if sh is None: return None
            if len(sh) != ndim: return v2._InvalidDimension(len(sh))
            return 'v(%s)' % name, tuple(sh)
        def call(self, name, ngen, arg):
            sh = functions.get(name)
            if sh is None: return None
            if len(sh) != ngen: return v2._InvalidDimension(len(sh))
            return 'c(%s,%d,%s)' % (name, ngen, arg), tuple(sh)
        def get_element(self, a, axis, index): return 'g(%s,%d,%d)' % (a, axis, index)
        def transpose(self, a, axes): return 't(%s;%s)' % (a, ' '.join(map(str, axes)))
        def trace(self, a, i, j): return 'tr(%s,%d,%d)' % (a, i, j)
        def scope(self, a): return 's(%s)' % a
        def mean(self, a): return 'm(%s)' % a
        def jump(self, a): return 'j(%s)' % a
        def add(self, *args): return 'add(%s)' % ','.join(('-' if n else '+') + a for n, a in args)
        def multiply(self, *args): return 'mul(%s)' % ','.join(args)
        def divide(self, a, b): return 'div(%s,%s)' % (a, b)
        def power(self, a, b): return 'pow(%s,%s)' % (a, b)
    return Rec()


def real_parse(v2, rec, entry, s):
    p = v2._Parser(rec)
    sub = v2._Substring(s)
    try:
        if entry == 'expr': r = p.parse_expression(sub)
        elif entry == 'frac': r = p.parse_fraction(sub)
        elif entry == 'term': r = p.parse_term(sub)
        elif entry in ('pow1', 'pow0'): r = p.parse_power(sub, allow_number=entry == 'pow1')
        else: r = p.parse_item(sub, allow_number=entry == 'item1')
    except v2.ExpressionSyntaxError as e:
        parts = str(e).split('\n')
        if len(parts) != 3: return 'exc|ExpressionSyntaxError-format|' + repr(str(e))
        return 'err|%s|%s' % (parts[0], parts[2].replace(' ', '.'))
    except Exception as e:
        return 'exc|%s|%s' % (type(e).__name__, str(e)[:60])
    arr, shape, indices, summed = r
    return 'ok|%s|%s|%s|%s' % (arr, ' '.join(map(str, shape)), indices, ''.join(sorted(summed)))


_FLOAT = re.compile(r'f\((\d+),(-?\d+)\)')


def canon_model(ans):
    """model floats are (mantissa, decimal exponent); the recorder prints repr(float)"""
    def f(m):
        e = int(m.group(2))
        if abs(e) > 400: e = 400 if e > 0 else -400 - len(m.group(1))
        return 'f(%r)' % float('%se%d' % (m.group(1), e))
    return _FLOAT.sub(f, ans)


def ctx_field(d):
    return ' '.join('%s:%s' % (k, ','.join(map(str, v))) for k, v in d.items())


def request(entry, vars_f, fns_f, s):
    return 'parse|%s|%s|%s|%s' % (entry, vars_f, fns_f, ' '.join(str(ord(ch)) for ch in s))


# ------------------------------------------------------------------------------------------ exact evaluation of op trees

def parse_ops(text):
    """parse the op-tree text format of the driver / recorder into nested tuples"""
    pos = 0
    def name_until(stops):
        nonlocal pos
        st = pos
        while text[pos] not in stops: pos += 1
        return text[st:pos]
    def expect(c):
        nonlocal pos
        if text[pos] != c: raise ValueError('expected %r at %d in %r' % (c, pos, text))
        pos += 1
    def node():
        nonlocal pos
        head = name_until('(')
        expect('(')
        if head == 'i':
            v = int(name_until(')')); expect(')'); return ('i', v)
        if head == 'f':
            v = name_until(')'); expect(')'); return ('f', v)
        if head == 'v':
            v = name_until(')'); expect(')'); return ('v', v)
        if head == 'c':
            n = name_until(','); expect(','); k = int(name_until(',')); expect(','); a = node(); expect(')'); return ('c', n, k, a)
        if head == 'g':
            a = node(); expect(','); ax = int(name_until(',')); expect(','); ix = int(name_until(')')); expect(')'); return ('g', a, ax, ix)
        if head == 't':
            a = node(); expect(';'); axes = name_until(')'); expect(')'); return ('t', a, tuple(map(int, axes.split())))
        if head == 'tr':
            a = node(); expect(','); i = int(name_until(',')); expect(','); j = int(name_until(')')); expect(')'); return ('tr', a, i, j)
        if head in ('s', 'm', 'j'):
            a = node(); expect(')'); return (head, a)
        if head == 'add':
            args = []
            while True:
                sign = text[pos]; pos += 1
                args.append((sign == '-', node()))
                if text[pos] == ',': pos += 1
                else: break
            expect(')'); return ('add', args)
        if head == 'mul':
            args = [node()]
            while text[pos] == ',':
                pos += 1; args.append(node())
            expect(')'); return ('mul', args)
        if head in ('div', 'pow'):
            a = node(); expect(','); b = node(); expect(')'); return (head, a, b)
        raise ValueError('unknown op %r in %r' % (head, text))
    r = node()
    if pos != len(text): raise ValueError('trailing text in ' + text)
    return r


def scalar(v):
    a = numpy.empty((), dtype=object); a[()] = v; return a


def oarray(a):
    if isinstance(a, numpy.ndarray) and a.dtype == object: return a
    out = numpy.empty(numpy.shape(a), dtype=object)
    for i in itertools.product(*map(range, numpy.shape(a))): out[i] = a[i] if numpy.ndim(a) else a
    return out


def eval_ops(t, reader, sided=None):
    """the numpy meaning of the backend operations (what `_FunctionArrayOps` promises), exact"""
    k = t[0]
    ev = lambda x: eval_ops(x, reader, sided)
    if k == 'i': return scalar(Fraction(t[1]))
    if k == 'f':
        if 'e' in t[1] or '.' in t[1] or 'inf' in t[1]: return scalar(Fraction(float(t[1])))
        m, e = t[1].split(','); return scalar(Fraction(int(m)) * Fraction(10) ** int(e))
    if k == 'v': return reader.leaf(t[1])
    if k == 'c': return reader.call(t[1], ev(t[3]))[1]
    if k == 'g': return oarray(numpy.take(ev(t[1]), t[3], t[2]))
    if k == 't': return ev(t[1]).transpose(t[2])
    if k == 'tr':
        a = ev(t[1]); d = numpy.diagonal(a, axis1=t[2], axis2=t[3])
        out = numpy.empty(d.shape[:-1], dtype=object)
        for i in itertools.product(*map(range, d.shape[:-1])): out[i] = sum(d[i], Fraction(0))
        return out
    if k == 's': return ev(t[1])
    if k in ('m', 'j'): return sided(k, t[1])
    if k == 'add':
        tot = None
        for neg, a in t[1]:
            a = ev(a); a = -a if neg else a
            tot = a if tot is None else tot + a
        return oarray(tot)
    if k == 'mul':
        tot = ev(t[1][0])
        for a in t[1][1:]:
            tot = oarray(numpy.multiply.outer(tot, ev(a)))
        return tot
    if k == 'div':
        a, b = ev(t[1]), ev(t[2])
        if b[()] == 0: raise G.Degenerate('division by zero')
        out = numpy.empty(a.shape, dtype=object)
        for i in itertools.product(*map(range, a.shape)): out[i] = Fraction(a[i]) / b[()]
        return out
    if k == 'pow':
        a, b = ev(t[1]), ev(t[2])
        out = numpy.empty(a.shape, dtype=object)
        for i in itertools.product(*map(range, a.shape)): out[i] = G._pow(a[i], b[()])
        return out
    raise AssertionError(k)


def close(real, want):
    """real float array vs exact object array"""
    real = numpy.asarray(real)
    if real.shape != numpy.shape(want): return False
    for i in itertools.product(*map(range, real.shape)):
        w = want[i]; r = real[i]
        if isinstance(r, complex) or numpy.iscomplexobj(r):
            if abs(r.imag) > 1e-12: return False
            r = r.real
        if not math.isfinite(r): return False
        wf = float(w)
        if abs(float(r) - wf) > 1e-9 * max(1.0, abs(wf)): return False
    return True


def magnitude_ok(arr):
    return all(abs(x) < 10**12 for x in arr.flat)


# ------------------------------------------------------------------------------------------ real namespaces

def make_ns_v2(v2, ctx):
    ns = v2.Namespace()
    for name, arr in ctx.vars.items():
        setattr(ns, name, numpy.array(arr, dtype=float))
    ns.f = lambda u: 2 * u + 1
    ns.h = lambda u: u * u
    ns.g = lambda u: u[..., numpy.newaxis] * numpy.array([1., 10.]) + numpy.array([0., 1.])
    ns.w = lambda u: u[..., numpy.newaxis] * numpy.array([2., 3., 4.]) - 1
    ns.G = lambda u: u[..., numpy.newaxis, numpy.newaxis] * numpy.array([1., 2.])[:, numpy.newaxis] + numpy.array([0., 1., 2.])
    return ns


V2_BUILTIN_FNS = ['opposite', 'sin', 'cos', 'tan', 'sinh', 'cosh', 'tanh', 'arcsin', 'arccos', 'arctan', 'arctanh', 'exp', 'abs', 'ln', 'log',
                  'log2', 'log10', 'sqrt', 'sign', 'conj', 'real', 'imag']


def real_eval_v2(v2, ns, s, how):
    """('value', array, indices) | ('syntax', msg) | ('attr', msg) | ('exc', type, msg)"""
    try:
        if how == '@':
            arr = s @ ns
        else:
            setattr(ns, 'zz_' + how if how else 'zz', s)
            arr = ns.zz
        val = arr.eval()
    except v2.ExpressionSyntaxError as e:
        return ('syntax', str(e).split('\n')[0])
    except AttributeError as e:
        if how != '@' and ('of the namespace attribute' in str(e) or 'of the expression is missing' in str(e)):
            return ('attr', str(e))
        return ('exc', 'AttributeError', str(e)[:80])
    except Exception as e:
        return ('exc', type(e).__name__, str(e)[:80])
    return ('value', numpy.asarray(val))


# ------------------------------------------------------------------------------------------ the check

def make_sem_cases(c, rng, ctx, corpus, fn_shapes, quick):
    gen2 = G.Gen(rng, ctx, sides=False, gradient=False)
    n_sem = 100 if quick else 3000
    n_sem_edit = 8 if quick else 25
    sem_cases = []   # (tag, ast or None, string)
    for s in corpus:
        sem_cases.append(('corpus', None, s))
    for k in range(n_sem):
        depth = rng.choice([0, 1, 2, 2, 3, 3, 4, 5, 6])
        nfree = rng.choice([0, 0, 1, 1, 2, 3])
        free = [(l, rng.choice([2, 2, 3])) for l in rng.sample(G.LETTERS, nfree)]
        ast, _ = gen2.expr(free, depth, set())
        s = G.pr(ast, G.Style(rng if k % 2 else None))
        sem_cases.append(('ast', ast, s))
        for _ in range(n_sem_edit):
            kind, e = G.random_edit(s, ALPHABET, rng)
            sem_cases.append(('edit-' + kind, None, e))
    sem_fns = dict(fn_shapes); del sem_fns['∇']
    for b in V2_BUILTIN_FNS: sem_fns[b] = ()
    return sem_cases, ctx_field(sem_fns)


def run(c):
    import warnings
    warnings.filterwarnings('ignore', category=RuntimeWarning)
    numpy.seterr(all='ignore')
    import nutils.expression_v2 as v2
    quick = c.tier == 'quick'
    c.rule = ('strings: random source ASTs of the documented v2 grammar (depth <= 6; variables with letter / numeral indices, traces, '
              'numbers incl. decimals, juxtaposition products, fractions, powers with int / scoped exponents, parentheses, jump, mean, '
              'function calls with 0-2 generated axes, leading minus, add / subtract) printed with random legal whitespace, plus single-'
              'character edits (delete / insert / replace over a %d-symbol alphabet / swap) of them, plus raw random strings; every parser '
              'entry point.  A case is non-trivial when the string is non-empty; distinct by (entry, string).' % len(ALPHABET))
    c.assumptions += [
        'strings are over a fixed alphabet (ASCII letters/digits/operators/brackets, blanks, "∇", "μ"); python int()/float() literal syntax is '
        'modelled for these characters only (no unicode digits, no other whitespace than blanks)',
        'the backend context of the structural stream is a fixed table of variables and functions (names, shapes); `_FunctionArrayOps` is '
        'tied separately by the semantic streams on integer data',
        'semantic comparisons use a relative tolerance of 1e-9 on float64 results against exact rational recomputation',
        'expression_v1 is not ported to Lean: it is tied by evaluation against the AST reading only (kind exploration)']
    broken = c.build_and_audit()
    c.log('lean build + audit done')
    rng = c.rng
    ctx = G.Context(rng)
    var_shapes = {k: v.shape for k, v in ctx.vars.items()}
    fn_shapes = {k: v[0] for k, v in ctx.fns.items()}
    fn_shapes['∇'] = (2,)
    var_shapes['n'] = (2,); var_shapes['x'] = (2,)
    vars_f, fns_f = ctx_field(var_shapes), ctx_field(fn_shapes)
    rec = make_recorder(v2, var_shapes, fn_shapes)
    gen = G.Gen(rng, ctx, sides=True, gradient=True)

    # ---------------------------------------------------------------- stream 1: structural correspondence of the parser
    n_ast = 300 if quick else 6000
    n_edit = 50 if quick else 70
    n_full = 3 if quick else 40
    n_raw = 2000 if quick else 40000
    asts = []
    for k in range(n_ast):
        depth = rng.choice([0, 1, 2, 2, 3, 3, 4, 5, 6])
        nfree = rng.choice([0, 0, 1, 1, 2, 3])
        free = [(l, rng.choice([2, 2, 3])) for l in rng.sample(G.LETTERS, nfree)]
        ast, _ = gen.expr(free, depth, set())
        asts.append(ast)
    cases = []   # (tag, entry, string)
    corpus = ['', ' ', '-', '- a_i', '-  - s', 'a_i ^2', 's^ 2', 's^-2', 's^1_0', '1_0 s', '1e1 s', 's^(1 / 2)', 'a) + (b', 'A_ij + A_ji', 'B_ij + B_ji',
              '(a_i b_i) a_i', '(a_i b_i) (a_i b_i)', 'a_i / A_ii', 'g_i(a_i)', 'G_ij(a_i)', 'g_2(s)', 'v223_i1j', 'T_iji', 'T_iii', 'a_i + s', 's + a_i',
              'a(s)', 'f_i(s)', '<s>', 'f<s>', '(s]', '(s', 's)', '(s)s', '2 2 s', 's 2', '.', '1.', '.5e', '1e+2 s', '0x1 s', 's^^2', 's^2^2', 's / s / s']
    for s in corpus:
        cases.append(('corpus', 'expr', s))
    base_strings = []
    for k, ast in enumerate(asts):
        s = G.pr(ast, G.Style(rng if k % 3 else None))
        base_strings.append(s)
        cases.append(('ast', 'expr', s))
        for tag in G.constructs(ast): c.count('construct:' + tag)
        c.count('ast-depth:%d' % G.depth_of(ast))
        if len(s) <= 60 or not quick:
            for _ in range(n_edit):
                kind, e = G.random_edit(s, ALPHABET, rng)
                cases.append(('edit-' + kind, 'expr', e))
    short = sorted(set(s for s in base_strings if 8 <= len(s) <= 28), key=len)
    for s in rng.sample(short, min(n_full, len(short))):
        for kind, e in G.all_edits(s, ALPHABET):
            cases.append(('alledit-' + kind, 'expr', e))
    pieces = [p for s in base_strings for p in re.split(r' [+/-] ', s)]
    for _ in range(n_raw):
        r = rng.random()
        if r < .4:
            s = ''.join(rng.choice(ALPHABET) for _ in range(rng.randint(0, 12)))
            cases.append(('raw', rng.choice(ENTRIES), s))
        elif r < .8 and pieces:
            s = rng.choice(pieces)
            if rng.random() < .5: s = G.random_edit(s, ALPHABET, rng)[1]
            cases.append(('piece', rng.choice(ENTRIES), s))
        else:
            a, b = rng.choice(base_strings), rng.choice(base_strings)
            s = a[:rng.randint(0, len(a))] + rng.choice([' + ', ' - ', ' / ', '^', ' ', '', '(', ')']) + b[rng.randint(0, len(b)):]
            cases.append(('splice', rng.choice(ENTRIES), s[:80]))
    seen = set(); uniq = []
    for tag, entry, s in cases:
        if (entry, s) in seen: continue
        seen.add((entry, s)); uniq.append((tag, entry, s))
    cases = uniq
    c.log('stream 1: %d strings (%d ASTs)' % (len(cases), len(asts)))
    sem_cases, sem_fns_f = make_sem_cases(c, rng, ctx, corpus, fn_shapes, quick)
    allans = c.model([request(entry, vars_f, fns_f, s) for _, entry, s in cases] + [request('expr', vars_f, sem_fns_f, s) for _, _, s in sem_cases])
    ans, ans2 = allans[:len(cases)], allans[len(cases):]
    c.log('model answered (%d requests)' % len(allans))
    model_of = {}
    nbad = 0; mismatches = []
    for (tag, entry, s), a in zip(cases, ans):
        a = canon_model(a)
        model_of[entry, s] = a
        r = real_parse(v2, rec, entry, s)
        c.case((entry, s), nontrivial=bool(s))
        c.count('s1:' + tag.split('-')[0]); c.count('s1-outcome:' + (r.split('|')[1] if r.startswith('err') else r.split('|')[0]))
        if len(c.samples) < 4 and tag == 'ast' and len(s) < 50: c.sample(dict(stream='parser', string=s, real=r, model=a))
        if r != a:
            nbad += 1
            if len(mismatches) < 20: mismatches.append(dict(tag=tag, entry=entry, string=s, real=r, model=a))
        else:
            c.traces += 1
    c.obligation('corr:v2-parser-optree-and-errors', nbad == 0, 'correspondence', '%d strings, %d mismatches' % (len(cases), nbad))

    c.log('stream 1: real parser done, %d mismatches' % nbad)
    # ---------------------------------------------------------------- stream 2: semantics of the real v2 namespace
    reader = G.Reader(ctx)
    ns = make_ns_v2(v2, ctx)
    c.log('stream 2: %d strings, model answered' % len(sem_cases))
    sem_bad = 0; sem_findings = 0
    for (tag, ast, s), a in zip(sem_cases, ans2):
        a = canon_model(a)
        how = '@' if rng.random() < .6 else 'set'
        f = a.split('|')
        c.case(('sem', s), nontrivial=bool(s.strip()))
        # --- what the specification says
        spec = None
        if ast is not None:
            try:
                v = reader.read(ast)
                spec = ('value', v) if magnitude_ok(v.arr) else ('degenerate',)
            except G.Reject as e:
                spec = ('reject', str(e))
            except (G.Degenerate, ZeroDivisionError, OverflowError):
                spec = ('degenerate',)
        model_val = None
        if f[0] == 'ok':
            indices = f[3]
            try:
                tree = parse_ops(f[1])
                if any(b + '(' in f[1] or 'c(%s,' % b in f[1] for b in V2_BUILTIN_FNS) or 'inf' in f[1] or 'm(' in f[1] or 'j(' in f[1]:
                    model_val = ('skip',)
                else:
                    arr = eval_ops(tree, reader)
                    model_val = ('value', arr, indices) if magnitude_ok(arr) else ('skip',)
            except (G.Degenerate, ZeroDivisionError, OverflowError):
                model_val = ('skip',)
        # --- the real code
        if how == 'set':
            target = ''.join(sorted(f[3], key=lambda ch: rng.random())) if f[0] == 'ok' else rng.choice(['', 'i', 'ij'])
            if f[0] == 'ok' and rng.random() < .1: target = target[:-1] if target else 'i'
            r = real_eval_v2(v2, ns, s, target)
            if hasattr(ns, 'zz'): object.__delattr__(ns, 'zz')
        else:
            target = ''.join(sorted(f[3])) if f[0] == 'ok' else ''
            r = real_eval_v2(v2, ns, s, '@')
        c.count('s2:' + tag.split('-')[0] + ':' + how); c.count('s2-real:' + r[0])
        replay = dict(stream='v2-namespace', string=s, how=how, target=target, real=[str(x)[:200] for x in r], model=a, ast=repr(ast) if ast else None)
        # property oracle 1: the AST reading
        if spec is not None and spec[0] == 'value':
            v = spec[1]
            if how == 'set' and set(target) != set(v.labels):
                pass
            elif r[0] == 'value':
                want = G.aligned(v, target)
                if not close(r[1], want):
                    sem_findings += 1
                    c.failing_input('v2-eval-differs-from-reading', 'the v2 namespace evaluates a grammar-conforming string to something else than its index-notation reading', dict(replay, want=repr(want.tolist())))
                    continue
                c.traces += 1; c.count('s2-ast-value-ok')
            elif r[0] in ('syntax', 'attr'):
                sem_findings += 1
                c.failing_input('v2-valid-string-rejected', 'the v2 namespace rejects a string that follows the documented grammar', replay)
                continue
        if spec is not None and spec[0] == 'reject' and r[0] == 'value':
            sem_findings += 1
            c.failing_input('v2-rule-violation-evaluated', 'a string violating a documented rule (%s) is evaluated silently' % spec[1], replay)
            continue
        # property oracle 2: rejection must be the module's ExpressionSyntaxError
        if r[0] == 'exc' and r[1] not in ('ZeroDivisionError', 'FloatingPointError'):
            sem_findings += 1
            what = 'call-of-variable' if r[1] == 'TypeError' and 'not callable' in r[2] else r[1]
            c.failing_input('v2-wrong-exception:' + what, 'a string is rejected with %s instead of ExpressionSyntaxError' % r[1], replay)
            continue
        # correspondence with the model (accept / reject and value of the predicted op tree)
        if f[0] == 'err':
            if r[0] != 'syntax' or r[1] != f[1]:
                sem_bad += 1
                c.broken_no_input('corr:v2-namespace', 'model predicts ExpressionSyntaxError %r, real outcome %r' % (f[1], r[:2]), replay)
        else:
            if how == 'set' and set(target) != set(f[3]):
                if r[0] != 'attr':
                    sem_bad += 1
                    c.broken_no_input('corr:v2-namespace', 'attribute indices differ from expression indices but no AttributeError', replay)
            elif r[0] != 'value':
                if r[0] == 'exc': continue
                sem_bad += 1
                c.broken_no_input('corr:v2-namespace', 'model accepts, real code rejects', replay)
            elif model_val is not None and model_val[0] == 'value':
                want = model_val[1].transpose([f[3].index(l) for l in target])
                if not close(r[1], want):
                    sem_bad += 1
                    c.broken_no_input('corr:v2-namespace', 'real value differs from the exact value of the predicted op tree', dict(replay, want=repr(want.tolist())))
                else:
                    c.count('s2-optree-value-ok')
    c.obligation('sem:v2-namespace-vs-reading', sem_findings == 0, 'correspondence', '%d strings' % len(sem_cases))
    c.obligation('corr:v2-namespace-vs-model', sem_bad == 0, 'correspondence', '%d strings' % len(sem_cases))

    # ---------------------------------------------------------------- verdicts for structural mismatches
    if nbad:
        c.extra['parser_mismatches'] = mismatches
        if sem_findings == 0:
            c.broken_no_input('corr:v2-parser', 'real parser and Lean port disagree on %d strings, e.g. %r' % (nbad, mismatches[0]), dict(mismatches=mismatches))
    for b in broken:
        c.broken_no_input('proof', b, dict(detail=b))
