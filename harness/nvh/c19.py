"""C19 — expression strings mean their index-notation reading.

Ties
 (M) structural, exact: the real `expression_v2._Parser` is run with a *recording* `_ArrayOps` backend on
     printed random source ASTs and on single-character edits of them (plus raw random strings and the other
     parser entry points); its operation tree / `ExpressionSyntaxError` text (message and caret line) is
     compared with the Lean port `Model/C19.lean` (`parseAt`) on every string.
 (S) semantic, on the real namespaces: `'s' @ ns` and `ns.x_ij = 's'` are evaluated on small integer data and
     compared with the index-notation *reading* of the generating AST (`c19gen.Reader`, exact Fractions) —
     the specification oracle — and, for every string (also corrupted ones), with the exact evaluation of the
     operation tree the Lean model predicts; where the model rejects, the real code must raise the module's
     `ExpressionSyntaxError`.
 v1 (`expression_v1`) is tied at the semantic level only (kind 'exploration').
"""
import re, math, itertools
from fractions import Fraction
import numpy
from .common import Infra
from . import c19gen as G

ALPHABET = list('abcsABTfgij012 _+-/^()[]{}<>.e,$∇')
ENTRIES = ['expr', 'frac', 'term', 'pow1', 'pow0', 'item1', 'item0']


# ------------------------------------------------------------------------------------------ recording backend

def make_recorder(v2, variables, functions):
    class Rec:
        def from_int(self, v): return 'i(%d)' % v
        def from_float(self, v): return 'f(%r)' % v
        def get_variable(self, name, ndim):
            sh = variables.get(name)
            if sh is None: return None
            if len(sh) != ndim: return v2._InvalidDimension(len(sh))
            return 'v(%s)' % name, tuple(sh)
        def call(self, name, ngen, arg):
            sh = functions.get(name)
            if sh is None: return None
            if len(sh) != ngen: return v2._InvalidDimension(len(sh))
            return 'c(%s,%d,%s)' % (name, ngen, arg), tuple(sh)
        def get_element(self, a, axis, index): return 'g(%s,%d,%d)' % (a, axis, index)
        def transpose(self, a, axes): return 't(%s;%s)' % (a, ' '.join(map(str, axes)))
        def trace(self, a, i, j): return 'tr(%s,%d,%d)' % (a, i, j)
        def scope(self, a): return 's(%s)' % a
        def mean(self, a): return 'm(%s)' % a
        def jump(self, a): return 'j(%s)' % a
        def add(self, *args): return 'add(%s)' % ','.join(('-' if n else '+') + a for n, a in args)
        def multiply(self, *args): return 'mul(%s)' % ','.join(args)
        def divide(self, a, b): return 'div(%s,%s)' % (a, b)
        def power(self, a, b): return 'pow(%s,%s)' % (a, b)
    return Rec()


def real_parse(v2, rec, entry, s):
    p = v2._Parser(rec)
    sub = v2._Substring(s)
    try:
        if entry == 'expr': r = p.parse_expression(sub)
        elif entry == 'frac': r = p.parse_fraction(sub)
        elif entry == 'term': r = p.parse_term(sub)
        elif entry in ('pow1', 'pow0'): r = p.parse_power(sub, allow_number=entry == 'pow1')
        else: r = p.parse_item(sub, allow_number=entry == 'item1')
    except v2.ExpressionSyntaxError as e:
        parts = str(e).split('\n')
        if len(parts) != 3: return 'exc|ExpressionSyntaxError-format|' + repr(str(e))
        return 'err|%s|%s' % (parts[0], parts[2].replace(' ', '.'))
    except Exception as e:
        return 'exc|%s|%s' % (type(e).__name__, str(e)[:60])
    arr, shape, indices, summed = r
    return 'ok|%s|%s|%s|%s' % (arr, ' '.join(map(str, shape)), indices, ''.join(sorted(summed)))


_FLOAT = re.compile(r'f\((\d+),(-?\d+)\)')


def canon_model(ans):
    """model floats are (mantissa, decimal exponent); the recorder prints repr(float)"""
    def f(m):
        e = int(m.group(2))
        if abs(e) > 400: e = 400 if e > 0 else -400 - len(m.group(1))
        return 'f(%r)' % float('%se%d' % (m.group(1), e))
    return _FLOAT.sub(f, ans)


def ctx_field(d):
    return ' '.join('%s:%s' % (k, ','.join(map(str, v))) for k, v in d.items())


def request(entry, vars_f, fns_f, s):
    return 'parse|%s|%s|%s|%s' % (entry, vars_f, fns_f, ' '.join(str(ord(ch)) for ch in s))


# ------------------------------------------------------------------------------------------ exact evaluation of op trees

def parse_ops(text):
    """parse the op-tree text format of the driver / recorder into nested tuples"""
    pos = 0
    def name_until(stops):
        nonlocal pos
        st = pos
        while text[pos] not in stops: pos += 1
        return text[st:pos]
    def expect(c):
        nonlocal pos
        if text[pos] != c: raise ValueError('expected %r at %d in %r' % (c, pos, text))
        pos += 1
    def node():
        nonlocal pos
        head = name_until('(')
        expect('(')
        if head == 'i':
            v = int(name_until(')')); expect(')'); return ('i', v)
        if head == 'f':
            v = name_until(')'); expect(')'); return ('f', v)
        if head == 'v':
            v = name_until(')'); expect(')'); return ('v', v)
        if head == 'c':
            n = name_until(','); expect(','); k = int(name_until(',')); expect(','); a = node(); expect(')'); return ('c', n, k, a)
        if head == 'g':
            a = node(); expect(','); ax = int(name_until(',')); expect(','); ix = int(name_until(')')); expect(')'); return ('g', a, ax, ix)
        if head == 't':
            a = node(); expect(';'); axes = name_until(')'); expect(')'); return ('t', a, tuple(map(int, axes.split())))
        if head == 'tr':
            a = node(); expect(','); i = int(name_until(',')); expect(','); j = int(name_until(')')); expect(')'); return ('tr', a, i, j)
        if head in ('s', 'm', 'j'):
            a = node(); expect(')'); return (head, a)
        if head == 'add':
            args = []
            while True:
                sign = text[pos]; pos += 1
                args.append((sign == '-', node()))
                if text[pos] == ',': pos += 1
                else: break
            expect(')'); return ('add', args)
        if head == 'mul':
            args = [node()]
            while text[pos] == ',':
                pos += 1; args.append(node())
            expect(')'); return ('mul', args)
        if head in ('div', 'pow'):
            a = node(); expect(','); b = node(); expect(')'); return (head, a, b)
        raise ValueError('unknown op %r in %r' % (head, text))
    r = node()
    if pos != len(text): raise ValueError('trailing text in ' + text)
    return r


def scalar(v):
    a = numpy.empty((), dtype=object); a[()] = v; return a


def oarray(a):
    if isinstance(a, numpy.ndarray) and a.dtype == object: return a
    out = numpy.empty(numpy.shape(a), dtype=object)
    for i in itertools.product(*map(range, numpy.shape(a))): out[i] = a[i] if numpy.ndim(a) else a
    return out


def eval_ops(t, reader):
    """the numpy meaning of the backend operations (what `_FunctionArrayOps` promises), exact"""
    k = t[0]
    ev = lambda x: eval_ops(x, reader)
    if k == 'i': return scalar(Fraction(t[1]))
    if k == 'f':
        if 'e' in t[1] or '.' in t[1] or 'inf' in t[1]: return scalar(Fraction(float(t[1])))
        m, e = t[1].split(','); return scalar(Fraction(int(m)) * Fraction(10) ** int(e))
    if k == 'v': return reader.leaf(t[1])
    if k == 'c': return reader.call(t[1], ev(t[3]))[1]
    if k == 'g': return oarray(numpy.take(ev(t[1]), t[3], t[2]))
    if k == 't': return ev(t[1]).transpose(t[2])
    if k == 'tr':
        a = ev(t[1]); d = numpy.diagonal(a, axis1=t[2], axis2=t[3])
        out = numpy.empty(d.shape[:-1], dtype=object)
        for i in itertools.product(*map(range, d.shape[:-1])): out[i] = sum(d[i], Fraction(0))
        return out
    if k == 's': return ev(t[1])
    if k == 'j': return oarray(eval_ops(t[1], reader.flipped()) - ev(t[1]))
    if k == 'm': return oarray((ev(t[1]) + eval_ops(t[1], reader.flipped())) * Fraction(1, 2))
    if k == 'add':
        tot = None
        for neg, a in t[1]:
            a = ev(a); a = -a if neg else a
            tot = a if tot is None else tot + a
        return oarray(tot)
    if k == 'mul':
        tot = ev(t[1][0])
        for a in t[1][1:]:
            tot = oarray(numpy.multiply.outer(tot, ev(a)))
        return tot
    if k == 'div':
        a, b = ev(t[1]), ev(t[2])
        out = numpy.empty(a.shape, dtype=object)
        for i in itertools.product(*map(range, a.shape)): out[i] = G._div(a[i], b[()])
        return out
    if k == 'pow':
        a, b = ev(t[1]), ev(t[2])
        out = numpy.empty(a.shape, dtype=object)
        for i in itertools.product(*map(range, a.shape)): out[i] = G._pow(a[i], b[()])
        return out
    raise AssertionError(k)


def lean_pow_safe(text):
    """every power in the op tree has a non-negative integer literal as exponent (the Int-valued Lean evaluation is exact then)"""
    def ok(t):
        if t[0] == 'pow':
            return t[2][0] == 'i' and t[2][1] >= 0 and ok(t[1])
        if t[0] in ('add',): return all(ok(a) for _, a in t[1])
        if t[0] in ('mul',): return all(ok(a) for a in t[1])
        return all(ok(x) for x in t[1:] if isinstance(x, tuple))
    try:
        return ok(parse_ops(text))
    except ValueError:
        return False


def close(real, want, scale=1):
    """real float array vs exact object array; `scale` is the largest intermediate magnitude (cancellation)"""
    real = numpy.asarray(real)
    if real.shape != numpy.shape(want): return False
    for i in itertools.product(*map(range, real.shape)):
        w = want[i]; r = real[i]
        if isinstance(r, complex) or numpy.iscomplexobj(r):
            if abs(r.imag) > 1e-12: return False
            r = r.real
        if not math.isfinite(r): return False
        wf = float(w)
        if abs(float(r) - wf) > 1e-9 * max(1.0, abs(wf)) + 1e-12 * float(scale): return False
    return True


def magnitude_ok(arr):
    return all(abs(x) < 10**12 for x in arr.flat)


# ------------------------------------------------------------------------------------------ real namespaces

REAL_FNS = dict(
    f=lambda u: 2 * u + 1,
    h=lambda u: u * u,
    g=lambda u: u[..., numpy.newaxis] * numpy.array([1., 10.]) + numpy.array([0., 1.]),
    w=lambda u: u[..., numpy.newaxis] * numpy.array([2., 3., 4.]) - 1,
    G=lambda u: u[..., numpy.newaxis, numpy.newaxis] * numpy.array([1., 2.])[:, numpy.newaxis] + numpy.array([0., 1., 2.]))

V2_BUILTIN_FNS = ['opposite', 'sin', 'cos', 'tan', 'sinh', 'cosh', 'tanh', 'arcsin', 'arccos', 'arctan', 'arctanh', 'exp', 'abs', 'ln', 'log',
                  'log2', 'log10', 'sqrt', 'sign', 'conj', 'real', 'imag']


class ConstWorld:
    """plain constant arrays in a v2 namespace, evaluated with `.eval()`"""
    label = 'const'

    def __init__(self, v2, ctx):
        self.v2, self.ctx = v2, ctx
        self.reader = G.Reader(ctx)
        self.ns = v2.Namespace()
        for name, arr in ctx.vars.items():
            setattr(self.ns, name, numpy.array(arr, dtype=float))
        for k, f in REAL_FNS.items(): setattr(self.ns, k, f)
        self.ns_copy = self.ns.copy_()      # `Namespace.copy_` must preserve variables and functions
        self.var_shapes = {k: v.shape for k, v in ctx.vars.items()}
        self.fn_shapes = {k: v[0] for k, v in ctx.fns.items()}
        for b in V2_BUILTIN_FNS: self.fn_shapes[b] = ()

    def value(self, arr):
        return numpy.asarray(arr.eval())


class SidedWorld:
    """fields on the two-element mesh, evaluated at the interface point from side 0 (jump, mean, gradient, normal)"""
    label = 'mesh'

    def __init__(self, v2, sctx):
        from nutils import mesh, function
        self.v2, self.ctx = v2, sctx
        topo, geom = mesh.rectilinear([2, 1])
        ns = v2.Namespace(); ns.x = geom
        ns.define_for('x', gradient='∇', normal='n')
        disc = topo.basis('discont', degree=0)
        x0, x1 = geom
        F = lambda a: numpy.array(a, dtype=float)
        for name, (c0, c1, c2, c3, j0, j1) in sctx.coef.items():
            val = F(c0) + F(c1) * x0 + F(c2) * x1 + F(j0) * disc[0] + F(j1) * disc[1]
            if any(c3.flat): val = val + F(c3) * (x0 * x1)
            setattr(ns, name, val)
        for k, f in REAL_FNS.items(): setattr(ns, k, f)
        self.ns = ns
        self.smpl = topo.interfaces.sample('gauss', 1)
        eid = disc @ numpy.arange(2.)
        e0, e1 = self.smpl.eval([eid, function.opposite(eid)])
        sctx.elem_of_side = (int(round(float(e0[0]))), int(round(float(e1[0]))))
        sctx.normal = [Fraction(int(round(float(v)))) for v in self.smpl.eval(ns.n)[0]]
        self.reader = G.SidedReader(sctx, 0)
        self.var_shapes = {k: v.shape for k, v in sctx.vars.items()}
        self.var_shapes['x'] = (2,); self.var_shapes['n'] = (2,)
        self.fn_shapes = {k: v[0] for k, v in sctx.fns.items()}
        self.fn_shapes['∇'] = (2,)
        for b in V2_BUILTIN_FNS: self.fn_shapes[b] = ()

    def value(self, arr):
        return numpy.asarray(self.smpl.eval(arr))[0]


def origin(e):
    """file in which the exception was raised (innermost traceback frame)"""
    tb = e.__traceback__; name = ''
    while tb is not None:
        name = tb.tb_frame.f_code.co_filename; tb = tb.tb_next
    return name.replace('\\', '/').rsplit('/', 1)[-1]


def origin_function(e):
    tb = e.__traceback__; name = ''
    while tb is not None:
        name = tb.tb_frame.f_code.co_name; tb = tb.tb_next
    return name


EXPRESSION_FILES = ('expression_v1.py', 'expression_v2.py')


def real_eval_v2(world, s, how, target):
    """('value', array) | ('syntax', msg) | ('attr', msg) | ('exc', type, msg)"""
    v2, ns = world.v2, world.ns
    if getattr(world, 'ns_copy', None) is not None and sum(map(ord, s)) % 3 == 0:
        ns = world.ns_copy
    try:
        if how == '@':
            arr = s @ ns
        else:
            try:
                setattr(ns, 'zz_' + target if target else 'zz', s)
                arr = ns.zz
            finally:
                if 'zz' in vars(ns): object.__delattr__(ns, 'zz')
        val = world.value(arr)
    except v2.ExpressionSyntaxError as e:
        return ('syntax', str(e).split('\n')[0])
    except AttributeError as e:
        if how != '@' and ('of the namespace attribute' in str(e) or 'of the expression is missing' in str(e)):
            return ('attr', str(e))
        return ('exc', 'AttributeError', str(e)[:80])
    except Exception as e:
        if origin(e) not in EXPRESSION_FILES:
            # raised by a called function or by the evaluation (e.g. integer to a negative integer power), not by the expression code
            return ('exc', 'ZeroDivisionError', 'outside the expression modules: %s %s' % (type(e).__name__, str(e)[:60]))
        return ('exc', type(e).__name__, str(e)[:80])
    return ('value', val)


def gen_sem_cases(rng, gen, ctx, corpus, n_ast, n_edit, n_viol):
    cases = [('corpus', None, s) for s in corpus]
    for k in range(n_ast):
        depth = rng.choice([0, 1, 2, 2, 3, 3, 4, 5, 6])
        nfree = rng.choice([0, 0, 1, 1, 2, 3])
        free = [(l, rng.choice([2, 2, 3])) for l in rng.sample(G.LETTERS, nfree)]
        ast, _ = gen.top(free, depth)
        s = G.pr(ast, G.Style(rng if k % 2 else None))
        cases.append(('ast', ast, s))
        for _ in range(n_viol):
            kind, bad = G.violate(ast, rng, ctx)
            if kind != 'none': cases.append(('violate-' + kind, bad, G.pr(bad)))
        sb = G.bad_operator_spacing(ast, rng)
        if sb is not None: cases.append(('violate-opspacing', ('reject', 'an operator is not surrounded by whitespace'), sb))
        for _ in range(n_edit):
            kind, e = G.random_edit(s, ALPHABET, rng)
            cases.append(('edit-' + kind, None, e))
    return cases


UNSAFE_OPS = tuple('c(%s,' % b for b in V2_BUILTIN_FNS if b not in ('abs', 'sign'))


def semantic_stream(c, world, cases, answers, rng, lean_eval=None):
    """returns (findings, pending) — failing inputs decided by the reading, and model/code disagreements"""
    findings = 0; pending = []
    reader = world.reader; label = world.label
    for (tag, ast, s), a in zip(cases, answers):
        a = canon_model(a)
        f = a.split('|')
        how = '@' if rng.random() < .6 else 'set'
        c.case((label, s), nontrivial=bool(s.strip()))
        # --- the specification: the reading of the generating AST
        spec = None
        if ast is not None and ast[0] == 'reject':
            spec = ('reject', ast[1]); ast = None
            c.count('%s-spec:%s' % (label, spec[0]))
        scale = 1
        if ast is not None:
            G.TRACK['max'] = 1
            try:
                v = reader.read(ast)
                spec = ('value', v) if magnitude_ok(v.arr) and G.TRACK['max'] < 10**12 else ('degenerate',)
            except G.Reject as e:
                spec = ('reject', str(e))
            except (G.Degenerate, ZeroDivisionError, OverflowError):
                spec = ('degenerate',)
            scale = G.TRACK['max']
            c.count('%s-spec:%s' % (label, spec[0]))
        # --- the exact value of the operation tree predicted by the Lean model
        model_val = None
        if f[0] == 'ok':
            try:
                if any(u in f[1] for u in UNSAFE_OPS) or 'inf' in f[1] or 'nan' in f[1]:
                    model_val = ('skip',)
                else:
                    arr = eval_ops(parse_ops(f[1]), reader)
                    model_val = ('value', arr) if magnitude_ok(arr) else ('skip',)
            except (G.Degenerate, G.Reject, ZeroDivisionError, OverflowError):
                model_val = ('skip',)
            # the Lean tensor semantics `evalOps` (object of trace_sem / term_reading) on the same integer data
            if lean_eval is not None and model_val[0] == 'value' and not any(u in f[1] for u in ('div(', 'f(', 'i(-', 'c(opposite', 'c(real', 'c(conj')) and lean_pow_safe(f[1]):
                le = lean_eval.get(s)
                if le is not None and le.startswith('ok|'):
                    _, lshape, lind, lvals = le.split('|')
                    want = [x for x in model_val[1].flat]
                    if all(Fraction(x).denominator == 1 and abs(x) < 2**62 for x in want):
                        c.count('lean-evalOps-compared')
                        if lshape.split() != [str(n) for n in model_val[1].shape] or lind != f[3] or [int(v) for v in lvals.split()] != [int(x) for x in want]:
                            pending.append(('corr:lean-evalOps', 'Lean evalOps on integer data differs from the exact evaluation of the op tree', dict(string=s, lean=le, want=[str(x) for x in want], model=a)))
        # --- the real code
        if how == 'set':
            letters = f[3] if f[0] == 'ok' else (''.join(spec[1].labels) if spec and spec[0] == 'value' else rng.choice(['', 'i', 'ij']))
            target = ''.join(sorted(letters, key=lambda ch: rng.random()))
            if rng.random() < .08: target = target[:-1] if target else 'i'
        else:
            target = ''.join(sorted(f[3])) if f[0] == 'ok' else (''.join(sorted(spec[1].labels)) if spec and spec[0] == 'value' else '')
        r = real_eval_v2(world, s, how, target)
        c.count('%s:%s:%s' % (label, tag.split('-')[0], how)); c.count('%s-real:%s' % (label, r[0]))
        replay = dict(stream='v2-namespace-' + label, string=s, how=how, target=target, real=[str(x)[:300] for x in r], model=a, tag=tag, ast=repr(ast) if ast else None)
        # property oracle 1: the reading of the AST
        if spec is not None and spec[0] == 'value':
            v = spec[1]
            if how == 'set' and (set(target) != set(v.labels) or len(target) != len(v.labels)):
                if r[0] == 'value':
                    findings += 1
                    c.failing_input('v2-setattr-index-mismatch-accepted', 'ns.x_<indices> = expr accepts indices that differ from those of the expression', replay)
                    continue
            elif r[0] == 'value':
                want = G.aligned(v, target)
                if not close(r[1], want, scale):
                    findings += 1
                    c.failing_input('v2-eval-differs-from-reading', 'the v2 namespace evaluates a grammar-conforming string to something else than its index-notation reading', dict(replay, want=repr(want.tolist())))
                    continue
                c.traces += 1; c.count(label + '-reading-value-ok')
            elif r[0] in ('syntax', 'attr'):
                findings += 1
                c.failing_input('v2-valid-string-rejected', 'the v2 namespace rejects a string that follows the documented grammar (%s)' % r[1][:60], replay)
                continue
        if spec is not None and spec[0] == 'reject':
            if r[0] == 'value':
                findings += 1
                c.failing_input('v2-rule-violation-evaluated', 'a string violating a documented rule (%s) is evaluated silently' % spec[1], replay)
                continue
            if r[0] in ('syntax',): c.count(label + '-violation-rejected')
        # property oracle 2: rejection must be the module's ExpressionSyntaxError
        if r[0] == 'exc' and r[1] not in ('ZeroDivisionError', 'FloatingPointError'):
            findings += 1
            what = 'call-of-variable' if r[1] == 'TypeError' and 'not callable' in r[2] else r[1]
            c.failing_input('v2-wrong-exception:' + what, 'a string is rejected with %s instead of ExpressionSyntaxError' % r[1], replay)
            continue
        # correspondence with the model (accept / reject, message, value of the predicted op tree)
        if f[0] == 'err':
            if r[0] != 'syntax' or r[1] != f[1]:
                pending.append(('corr:v2-namespace-' + label, 'model predicts ExpressionSyntaxError %r, real outcome %r' % (f[1], r[:2]), replay))
        elif f[0] == 'ok':
            if how == 'set' and (set(target) != set(f[3]) or len(target) != len(f[3])):
                if r[0] != 'attr':
                    pending.append(('corr:v2-namespace-' + label, 'attribute indices differ from expression indices but no AttributeError', replay))
            elif r[0] != 'value':
                if r[0] != 'exc':
                    pending.append(('corr:v2-namespace-' + label, 'model accepts, real code rejects', replay))
            elif model_val is not None and model_val[0] == 'value':
                want = model_val[1].transpose([f[3].index(l) for l in target])
                if not close(r[1], want, max(scale, 10**6)):
                    pending.append(('corr:v2-namespace-' + label, 'real value differs from the exact value of the predicted op tree', dict(replay, want=repr(want.tolist()))))
                else:
                    c.count(label + '-optree-value-ok')
        else:
            raise Infra('unexpected model answer ' + a)
    return findings, pending


# ------------------------------------------------------------------------------------------ the check

CORPUS = ['', ' ', '-', '- a_i', '-  - s', 'a_i ^2', 's^ 2', 's^-2', 's^1_0', '1_0 s', '1e1 s', 's^(1 / 2)', 'a) + (b', 'A_ij + A_ji', 'B_ij + B_ji',
          '(a_i b_i) a_i', '(a_i b_i) (a_i b_i)', 'a_i / A_ii', 'g_i(a_i)', 'G_ij(a_i)', 'g_2(s)', 'v223_i1j', 'T_iji', 'T_iii', 'a_i + s', 's + a_i',
          'a(s)', 'f_i(s)', '<s>', 'f<s>', '(s]', '(s', 's)', '(s)s', '2 2 s', 's 2', '.', '1.', '.5e', '1e+2 s', '0x1 s', 's^^2', 's^2^2', 's / s / s',
          '-2^2', '-s^2 + s', 'a_i b_j / s r', 'B_ij c_j a_i', 'v232_iji', 'A_ij + a_j a_i', 'a_i - b_i + a_i', 'v322_kji + v223_ijk', 'f(a_i + b_i)',
          'g_j(a_i) + A_ij', 'G_0j(s)', '2 a_0 / 4', 's^(s - r)', '(-s)', '((s))', '[s]', '{s}', 'abs(-s)', '∇_i(s)', 'n_i n_i', '∇_i(x_i)']


def run(c):
    import warnings
    warnings.filterwarnings('ignore', category=RuntimeWarning)
    numpy.seterr(all='ignore')
    import nutils.expression_v2 as v2
    quick = c.tier == 'quick'
    c.rule = ('strings: random source ASTs of the documented v2 grammar (depth <= 6; variables with letter / numeral indices, traces, '
              'numbers incl. decimals, juxtaposition products, fractions, powers with int / scoped exponents, parentheses, jump, mean, '
              'function calls with 0-2 generated axes, gradient, normal, leading minus, add / subtract) printed with random legal whitespace; '
              'single-character edits (delete / insert / replace over a %d-symbol alphabet / swap) of them; AST-level rule violations '
              '(index renamed / dropped / added, variable swapped, factor duplicated, number inside a term, vector denominator / exponent, '
              'unknown names); raw random strings; every parser entry point.  v1 length inference: ASTs with dirac, indexed constants, new / declared '
              'arguments, stacks and substitutions in every item position (numerators, denominators, exponents, call arguments, stack entries, '
              'right-hand sides of substitutions) plus AST-level changes of the length structure; lengths decided by unification in the oracle.  '
              'A case is non-trivial when the string is non-empty; '
              'distinct by (stream, entry, string).' % len(ALPHABET))
    c.assumptions += [
        'strings are over a fixed alphabet (ASCII letters/digits/operators/brackets, blanks, a few non-ASCII letters); python int()/float() '
        'literal syntax is modelled for these characters only (no unicode digits, no whitespace other than blanks)',
        'the backend context of the structural stream is a fixed table of variables and functions (names, shapes); `_FunctionArrayOps` and '
        'the Namespace glue are tied separately by the semantic streams',
        'semantic comparisons use a relative tolerance of 1e-9 on float64 results against exact rational recomputation',
        'leaf data of the mesh world (values of fields on either side of the interface, the normal) is evaluated by nutils itself; jump, mean '
        'and the gradient of compound expressions are recomputed exactly (first-order jets)',
        'expression_v1 is not ported to Lean: it is tied by evaluation against the AST reading only (kind exploration)',
        'v1 inferred lengths: the reading takes "deduced from the expression" as unification over shared indices, additions, stacks, substitutions, the two axes of a dirac '
        'and all occurrences of one argument; a length fixed nowhere or fixed to two numbers is a violation of the length rule (no fallback_length); '
        'functions with generated axes, multi-argument calls and numerals on deduced axes are outside this stream',
        'expression_v1 rejects removed legacy syntax (`n:x_i`, `u_,x_i`, `[f]_i`, `dx_i:u`, `<a_i, b_i>_i`) with the builtin SyntaxError and a "no longer supported" message: counted as a rejection']
    broken = c.build_and_audit()
    c.log('lean build + audit done')
    rng = c.rng
    sctx = G.SidedContext(rng)
    ctx = sctx
    const = ConstWorld(v2, ctx)
    sided = SidedWorld(v2, sctx)
    var_shapes = dict(sided.var_shapes)
    fn_shapes = {k: v for k, v in sided.fn_shapes.items() if k not in V2_BUILTIN_FNS}
    vars_f, fns_f = ctx_field(var_shapes), ctx_field(fn_shapes)
    rec = make_recorder(v2, var_shapes, fn_shapes)
    gen = G.Gen(rng, ctx, sides=True, gradient=True)

    # ---------------------------------------------------------------- stream 1: structural correspondence of the parser
    n_ast = 250 if quick else 3500
    n_edit = 40 if quick else 50
    n_full = 3 if quick else 25
    n_raw = 1500 if quick else 30000
    asts = []
    for k in range(n_ast):
        depth = rng.choice([0, 1, 2, 2, 3, 3, 4, 5, 6])
        nfree = rng.choice([0, 0, 1, 1, 2, 3])
        free = [(l, rng.choice([2, 2, 3])) for l in rng.sample(G.LETTERS, nfree)]
        ast, _ = gen.top(free, depth)
        asts.append(ast)
    cases = [('corpus', 'expr', s) for s in CORPUS]
    base_strings = []
    for k, ast in enumerate(asts):
        s = G.pr(ast, G.Style(rng if k % 3 else None))
        base_strings.append(s)
        cases.append(('ast', 'expr', s))
        for tag in G.constructs(ast): c.count('construct:' + tag)
        c.count('ast-depth:%d' % G.depth_of(ast))
        kind, bad = G.violate(ast, rng, ctx)
        if kind != 'none': cases.append(('violate', 'expr', G.pr(bad)))
        if len(s) <= 70 or not quick:
            for _ in range(n_edit):
                kind, e = G.random_edit(s, ALPHABET, rng)
                cases.append(('edit-' + kind, 'expr', e))
    short = sorted(set(s for s in base_strings if 8 <= len(s) <= 28), key=len)
    for s in rng.sample(short, min(n_full, len(short))):
        for kind, e in G.all_edits(s, ALPHABET):
            cases.append(('alledit-' + kind, 'expr', e))
    pieces = [p for s in base_strings for p in re.split(r' [+/-] ', s)]
    for _ in range(n_raw):
        r = rng.random()
        if r < .4:
            s = ''.join(rng.choice(ALPHABET) for _ in range(rng.randint(0, 12)))
            cases.append(('raw', rng.choice(ENTRIES), s))
        elif r < .8 and pieces:
            s = rng.choice(pieces)
            if rng.random() < .5: s = G.random_edit(s, ALPHABET, rng)[1]
            cases.append(('piece', rng.choice(ENTRIES), s))
        else:
            a, b = rng.choice(base_strings), rng.choice(base_strings)
            s = a[:rng.randint(0, len(a))] + rng.choice([' + ', ' - ', ' / ', '^', ' ', '', '(', ')']) + b[rng.randint(0, len(b)):]
            cases.append(('splice', rng.choice(ENTRIES), s[:80]))
    seen = set(); uniq = []
    for tag, entry, s in cases:
        if (entry, s) in seen: continue
        seen.add((entry, s)); uniq.append((tag, entry, s))
    cases = uniq
    # ---------------------------------------------------------------- streams 2, 3: cases
    gen_const = G.Gen(rng, ctx, sides=False, gradient=False)
    gen_sided = G.Gen(rng, ctx, sides=True, gradient=True)
    sem_const = gen_sem_cases(rng, gen_const, ctx, CORPUS, 60 if quick else 1500, 5 if quick else 12, 2 if quick else 3)
    sem_sided = gen_sem_cases(rng, gen_sided, ctx, CORPUS[-12:], 25 if quick else 300, 2 if quick else 6, 1 if quick else 2)
    reqs = [request(entry, vars_f, fns_f, s) for _, entry, s in cases]
    reqs += [request('expr', ctx_field(const.var_shapes), ctx_field(const.fn_shapes), s) for _, _, s in sem_const]
    reqs += [request('expr', ctx_field(sided.var_shapes), ctx_field(sided.fn_shapes), s) for _, _, s in sem_sided]
    data_f = ' '.join('%s:%s:%s' % (k, ','.join(map(str, v.shape)), ','.join(str(int(x)) for x in v.flat)) for k, v in ctx.vars.items())
    eval_strings = sorted(set(s for _, _, s in sem_const))
    reqs += ['eval|%s|%s|%s' % (data_f, ctx_field(const.fn_shapes), ' '.join(str(ord(ch)) for ch in s)) for s in eval_strings]
    src_trees, src_reqs = lean_src_cases(rng, ctx, var_shapes, fn_shapes, quick)
    c.log('requests: %d parser strings (%d ASTs), %d + %d namespace strings, %d source trees' % (len(cases), len(asts), len(sem_const), len(sem_sided), len(src_trees)))
    allans = c.model(reqs + src_reqs)
    src_ans = allans[len(reqs):]; allans = allans[:len(reqs)]
    ans = allans[:len(cases)]; ans_const = allans[len(cases):len(cases) + len(sem_const)]
    ans_sided = allans[len(cases) + len(sem_const):len(cases) + len(sem_const) + len(sem_sided)]
    lean_eval = dict(zip(eval_strings, allans[len(cases) + len(sem_const) + len(sem_sided):]))
    c.log('model answered')
    bad = [a for a in allans if a.startswith('bad-request')]      # (the src answers are checked in lean_src_stream)
    if bad: raise Infra('driver rejected a request')

    nbad = 0; mismatches = []
    for (tag, entry, s), a in zip(cases, ans):
        a = canon_model(a)
        r = real_parse(v2, rec, entry, s)
        c.case(('parser', entry, s), nontrivial=bool(s))
        c.count('s1:' + tag.split('-')[0]); c.count('s1-outcome:' + (r.split('|')[1] if r.startswith('err') else r.split('|')[0]))
        if len(c.samples) < 4 and tag == 'ast' and len(s) < 50: c.sample(dict(stream='parser', string=s, real=r, model=a))
        if r != a:
            nbad += 1
            if len(mismatches) < 20: mismatches.append(dict(tag=tag, entry=entry, string=s, real=r, model=a))
        else:
            c.traces += 1
    c.obligation('corr:v2-parser-optree-and-errors', nbad == 0, 'correspondence', '%d strings, %d mismatches' % (len(cases), nbad))
    c.log('stream 1 (parser vs Lean port): %d strings, %d mismatches' % (len(cases), nbad))

    f2, p2 = semantic_stream(c, const, sem_const, ans_const, rng, lean_eval)
    c.log('stream 2 (v2 namespace, constants): %d strings, %d failing inputs, %d model disagreements' % (len(sem_const), f2, len(p2)))
    f3, p3 = semantic_stream(c, sided, sem_sided, ans_sided, rng)
    c.log('stream 3 (v2 namespace, mesh): %d strings, %d failing inputs, %d model disagreements' % (len(sem_sided), f3, len(p3)))
    c.obligation('sem:v2-namespace-vs-reading', f2 + f3 == 0, 'correspondence', '%d strings' % (len(sem_const) + len(sem_sided)))
    c.obligation('corr:v2-namespace-vs-model', not (p2 or p3), 'correspondence', '%d strings, %d disagreements' % (len(sem_const) + len(sem_sided), len(p2) + len(p3)))

    lean_src_stream(c, v2, rec, src_trees, src_ans, f2 + f3)
    f4 = v1_stream(c, rng, sctx, quick)
    from . import c19v1
    f6 = c19v1.stream(c, rng, sctx, quick, close, magnitude_ok)

    # ---------------------------------------------------------------- verdicts for model / code disagreements
    found = f2 + f3      # failing inputs of the v2 code explain v2 model / code disagreements (v1 is tied separately)
    if nbad:
        c.extra['parser_mismatches'] = mismatches
    if not found:
        if nbad:
            c.broken_no_input('corr:v2-parser', 'real parser and Lean port disagree on %d strings, e.g. %r' % (nbad, mismatches[0]), dict(mismatches=mismatches))
        for name, what, replay in (p2 + p3)[:3]:
            c.broken_no_input(name, what, replay)
    for b in broken:
        c.broken_no_input('proof', b, dict(detail=b))


def lean_src_cases(rng, ctx, var_shapes, fn_shapes, quick):
    """trees + driver requests of the `Src` stream (answered in the same driver run as the parser strings)"""
    gen = G.Gen(rng, ctx, sides=True, gradient=True)
    n_ast = 150 if quick else 4000
    trees = []
    for k in range(n_ast):
        depth = rng.choice([0, 1, 2, 2, 3, 3, 4, 5, 6])
        nfree = rng.choice([0, 0, 1, 1, 2, 3])
        free = [(l, rng.choice([2, 2, 3])) for l in rng.sample(G.LETTERS, nfree)]
        ast, _ = gen.top(free, depth)
        todo = [ast]
        for _ in range(2):
            kind, bad = G.violate(ast, rng, ctx)
            if kind != 'none': todo.append(bad)
        for t in todo:
            toks = G.src_tokens(t)
            if toks is not None: trees.append((t, toks))
    vars_f, fns_f = ctx_field(var_shapes), ctx_field(fn_shapes)
    return trees, ['src|%s|%s|%s' % (vars_f, fns_f, ' '.join(toks)) for _, toks in trees]


def lean_src_stream(c, v2, rec, trees, ans, found=0):
    """ties `Src.print` / `elabExpr` of Model/C19Src.lean (the objects of theorem parse_print_partial) to the strings
    and the real parser: the Lean printer must produce the harness' canonical printing, and the real parser's result
    on that string must be the direct elaboration of the tree"""
    nbad = 0; first = None
    for (t, toks), a in zip(trees, ans):
        f = a.split('|')
        s = G.pr(t)
        c.case(('src', s), nontrivial=True)
        if f[0] == 'bad-request': raise Infra('driver rejected a src request: ' + ' '.join(toks))
        lean_s = ''.join(chr(int(x)) for x in f[1].split())
        r = real_parse(v2, rec, 'expr', s)
        want = 'ok|' + '|'.join(f[3:]) if f[2] == 'some' else None
        c.count('src-wellformed:' + f[0]); c.count('src-elab:' + f[2])
        ok = lean_s == s and (f[0] == '0' or (want is not None and r == canon_model(want)) or (want is None and not r.startswith('ok')))   # outside `Src.ok` only the printer is compared
        if not ok:
            nbad += 1
            first = first or dict(stream='lean-src', tokens=' '.join(toks), harness_print=s, lean_print=lean_s, wellformed=f[0], elab=a, real=r)
        else:
            c.traces += 1
    c.obligation('corr:lean-print-elab-vs-real-parser', nbad == 0, 'correspondence', '%d trees, %d mismatches' % (len(trees), nbad))
    c.log('stream 5 (Lean Src.print / elabExpr vs real parser): %d trees, %d mismatches' % (len(trees), nbad))
    if nbad and not found:      # a failing input of the v2 code found by the reading explains the disagreement
        c.broken_no_input('corr:lean-print-elab', 'Lean printer / elaboration of source ASTs disagrees with the harness printer or the real parser', first)


V1_FNS = dict(      # tolerant signatures: v1 passes extra positional arguments / generates= / consumes= for some call syntaxes
    f=lambda u, *more, **kw: 2 * u + 1,
    h=lambda u, *more, **kw: u * u,
    g=lambda u, *more, generates=1, **kw: u[..., numpy.newaxis] * numpy.array([1., 10.]) + numpy.array([0., 1.]))

V1_ALPHABET = list('abcsABTfgnij012 _+-/^()[]{}<>.e,;:?=$δ')


class V1World:
    """expression_v1.Namespace on the same two-element mesh; default geometry x, builtin normal n and gradient _,i"""

    def __init__(self, v1, sctx):
        from nutils import mesh
        self.v1, self.ctx = v1, sctx
        topo, geom = mesh.rectilinear([2, 1])
        ns = v1.Namespace(functions=V1_FNS)
        ns.x = geom
        disc = topo.basis('discont', degree=0)
        x0, x1 = geom
        F = lambda a: numpy.array(a, dtype=float)
        for name, (c0, c1, c2, c3, j0, j1) in sctx.coef.items():
            if name in ('n', 'x'): continue
            val = F(c0) + F(c1) * x0 + F(c2) * x1 + F(j0) * disc[0] + F(j1) * disc[1]
            if any(c3.flat): val = val + F(c3) * (x0 * x1)
            setattr(ns, name, val)
        self.ns = ns
        self.smpl = topo.interfaces.sample('gauss', 1)
        self.reader = G.SidedReader(sctx, 0)

    def evaluate(self, s, target, how):
        v1 = self.v1
        try:
            if how == 'set':
                try:
                    setattr(self.ns, 'zz_' + target if target else 'zz', s)
                    arr = self.ns.zz
                finally:
                    if 'zz' in self.ns._attributes: delattr(self.ns, 'zz')
            else:
                arr = getattr(self.ns, 'eval_' + target)(s)
            if getattr(arr, 'arguments', None):
                return ('degenerate', 'the expression has free arguments (`?name`): nothing to evaluate')
            val = numpy.asarray(self.smpl.eval(arr))[0]
        except v1.ExpressionSyntaxError as e:
            return ('syntax', str(e).split('\n')[0])
        except SyntaxError as e:
            if 'no longer supported' in str(e): return ('syntax', 'legacy syntax: ' + str(e)[:60])   # deliberate rejection of removed v1 syntax
            return ('exc', 'SyntaxError', str(e)[:80])
        except Exception as e:
            msg = str(e)
            if origin(e) not in EXPRESSION_FILES:
                return ('degenerate', 'raised by a called function or by the evaluation, outside the expression modules: %s' % type(e).__name__)
            if (isinstance(e, TypeError) and 'unexpected keyword argument' in msg) or (isinstance(e, ValueError) and 'expected an array with shape' in msg):
                return ('degenerate', 'the harness-defined v1 function is called with generates/consumes it does not implement')
            return ('exc', type(e).__name__, msg[:80], origin_function(e))
        return ('value', val)


def v1_signature(r):
    """root cause = exception type + function that raised it (the two first-found causes keep their short names)"""
    if (r[1], r[3]) in (('KeyError', '_eval_ast'), ('IndexError', '_apply_indices')):
        return 'v1-wrong-exception:' + r[1]
    return 'v1-wrong-exception:%s:%s' % (r[1], r[3])


def v1_stream(c, rng, sctx, quick):
    """exploration: the same ASTs printed in v1 syntax, real v1 evaluation against the reading; corruptions must raise
    expression_v1.ExpressionSyntaxError or evaluate"""
    import nutils.expression_v1 as v1
    world = V1World(v1, sctx)
    gen = G.Gen(rng, sctx, sides=True, gradient=True, v1=True)
    n_ast = 30 if quick else 250
    n_edit = 6 if quick else 12
    findings = 0; n = 0
    for k in range(n_ast):
        depth = rng.choice([0, 1, 2, 2, 3, 3, 4, 5, 6])
        nfree = rng.choice([0, 0, 1, 1, 2, 3])
        free = [(l, rng.choice([2, 2, 3])) for l in rng.sample(G.LETTERS, nfree)]
        ast, _ = gen.top(free, depth)
        todo = [('ast', ast)]
        for _ in range(2):
            kind, bad = G.violate(ast, rng, sctx)
            if kind != 'none': todo.append(('violate-' + kind, bad))
        for tag, t in todo:
            s = G.pr(t, G.Style(rng if k % 2 else None), v1=True)
            G.TRACK['max'] = 1
            try:
                v = world.reader.read(t)
                spec = ('value', v) if magnitude_ok(v.arr) and G.TRACK['max'] < 10**12 else ('degenerate',)
            except G.Reject as e:
                spec = ('reject', str(e))
            except (G.Degenerate, ZeroDivisionError, OverflowError):
                spec = ('degenerate',)
            letters = ''.join(spec[1].labels) if spec[0] == 'value' else ''.join(l for l, _ in free)
            target = ''.join(sorted(letters, key=lambda ch: rng.random()))
            how = rng.choice(['eval', 'eval', 'set']) if target else 'eval'   # `ns.attr = expr` without indices switches v1 to its omitted-indices mode
            r = world.evaluate(s, target, how)
            n += 1
            c.case(('v1', s), nontrivial=True); c.count('v1:' + tag.split('-')[0]); c.count('v1-spec:' + spec[0]); c.count('v1-real:' + r[0])
            replay = dict(stream='v1-namespace', string=s, target=target, how=how, real=[str(x)[:300] for x in r], tag=tag, ast=repr(t))
            if r[0] == 'exc' and r[1] not in ('ZeroDivisionError', 'FloatingPointError'):
                findings += 1
                c.failing_input(v1_signature(r), 'v1: a string is rejected with %s (raised in %s) instead of ExpressionSyntaxError' % (r[1], r[3]), replay)
            elif spec[0] == 'value' and r[0] == 'value':
                want = G.aligned(spec[1], target)
                if not close(r[1], want, G.TRACK['max']):
                    findings += 1
                    c.failing_input('v1-eval-differs-from-reading', 'the v1 namespace evaluates a grammar-conforming string to something else than its index-notation reading', dict(replay, want=repr(want.tolist())))
                else:
                    c.traces += 1; c.count('v1-reading-value-ok')
            elif spec[0] == 'value' and r[0] == 'syntax':
                findings += 1
                c.failing_input('v1-valid-string-rejected', 'the v1 namespace rejects a string that follows the documented grammar (%s)' % r[1][:60], replay)
            elif spec[0] == 'reject' and r[0] == 'value':
                findings += 1
                c.failing_input('v1-rule-violation-evaluated', 'v1: a string violating a documented rule (%s) is evaluated silently' % spec[1], replay)
            if tag == 'ast':
                for _ in range(n_edit):
                    kind, e = G.random_edit(s, V1_ALPHABET, rng)
                    r = world.evaluate(e, target, 'eval')
                    n += 1
                    c.case(('v1', e), nontrivial=bool(e.strip())); c.count('v1:edit'); c.count('v1-real:' + r[0])
                    if r[0] == 'exc' and r[1] not in ('ZeroDivisionError', 'FloatingPointError'):
                        findings += 1
                        c.failing_input(v1_signature(r), 'v1: a string is rejected with %s (raised in %s) instead of ExpressionSyntaxError' % (r[1], r[3]),
                                        dict(stream='v1-namespace', string=e, target=target, how='eval', real=[str(x)[:300] for x in r], tag='edit-' + kind))
    c.obligation('sem:v1-namespace-vs-reading', findings == 0, 'exploration', '%d strings' % n)
    c.log('stream 4 (v1 namespace, exploration): %d strings, %d failing inputs' % (n, findings))
    return findings
