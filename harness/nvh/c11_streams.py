"""C11 correspondence streams (see c11.py)."""
import itertools, numpy
from fractions import Fraction
from . import c11_extract as X
from .c11 import (fr, item_aff, compose, chain_aff, chain_flip, chain_dims_ok, ser_item, ser_chain, ser_seq, seq_shape, Unsupported,
                  ref_walk, dyadic_point, real_apply, sfr, saff)


def real_apply_exact(chain, x):
    """exact image of a rational point under a chain (Fractions)"""
    A = chain_aff(chain, len(x))
    return [sum(A[0][i][j] * x[j] for j in range(A[3])) + A[1][i] for i in range(A[2])]


def random_from(x):
    import random
    return random.Random(int(x * 2**40))


def outcome(f, *a):
    """run real code; exceptions are outcomes"""
    try:
        return ('ok', f(*a))
    except ValueError:
        return ('err', 'value')
    except IndexError:
        return ('err', 'index')
    except Exception as e:
        return ('exc', type(e).__name__ + ': ' + str(e)[:100])


class Streams:

    def __init__(self, c, b):
        self.c = c; self.b = b; self.rng = c.rng
        self.quick = c.tier == 'quick'
        self.bad = {}      # obligation name -> count of disagreements
        self.n = {}        # obligation name -> number of comparisons
        self.refs = X.reference_kinds()

    # -------------------------------------------------------------- bookkeeping
    def tick(self, ob):
        self.n[ob] = self.n.get(ob, 0) + 1

    def disagree(self, ob, what, replay):
        """model and code differ, the specification oracle had no objection"""
        self.bad[ob] = self.bad.get(ob, 0) + 1
        self.c.broken_no_input(ob, what, replay)

    def fail(self, ob, sig, what, replay):
        """the real code violates the specification"""
        self.bad[ob] = self.bad.get(ob, 0) + 1
        self.c.failing_input(sig, what, replay)

    def finish(self):
        kinds = {'explore': 'exploration'}
        for ob in sorted(self.n):
            self.c.obligation(ob, self.bad.get(ob, 0) == 0, 'exploration' if ob.startswith('explore:') else 'correspondence', '%d comparisons' % self.n[ob])

    # -------------------------------------------------------------- stream A: items
    def all_items(self):
        seen = {}
        for name, ref in self.refs:
            for t in ref.child_transforms: seen.setdefault(t, name)
            if ref.ndims:
                for t in ref.edge_transforms: seen.setdefault(t, name)
        return seen

    def items(self):
        from nutils import transform as T
        items = dict(self.all_items())
        # add what swaps produce and flipped / inverted variants
        for t in list(items):
            if isinstance(t, T.Updim) and hasattr(t, 'flipped'):
                try: items.setdefault(t.flipped, 'flipped')
                except Exception: pass
        for name, ref in self.refs:
            for c_, cref in zip(ref.child_transforms, ref.child_refs):
                if not cref.ndims: continue
                for e in cref.edge_transforms:
                    sw = e.swapdown(c_)
                    if sw:
                        for t in sw: items.setdefault(t, 'swapdown:' + name)
        items.setdefault(T.Identity(2), 'identity'); items.setdefault(T.Index(3, -2), 'index')
        from nutils import types
        ad = lambda a: types.arraydata(numpy.array(a, dtype=float))
        items.setdefault(T.Square(ad([[2., 1.], [0., -.5]]), ad([.5, 0.])), 'generic')
        items.setdefault(T.Updim(ad([[2.], [-.5]]), ad([.5, 0.]), True), 'generic')
        items.setdefault(T.Point(ad([.5, .25])), 'point')
        for t, origin in items.items():
            def h(a, line, t=t, origin=origin):
                self.tick('corr:item-affine')
                lin, off, td, fd = item_aff(t)
                flip = bool(getattr(t, 'isflipped', False))
                want = '%d %d %d|%s' % (td, fd, flip, saff((lin, off, td, fd)))
                self.c.case(('item', line), nontrivial=True); self.c.count('item:' + type(t).__name__)
                if a != want:
                    self.disagree('corr:item-affine', 'model item %s has different dims/flip/matrix than the real %r' % (line, t), dict(op='item', request=line, model=a, real=want, origin=origin))
            self.b.add('item|' + ser_item(t), h)

    # -------------------------------------------------------------- stream B: swaps
    def check_swap_spec(self, direction, a, b, res, replay):
        """oracle: a swapped pair is the same affine map with the same orientation; returns True if fine"""
        if res is None or a.fromdims != b.todims: return True   # ill-matched pairs never occur in a chain: model-vs-code only
        x, y = res
        ok = True
        try:
            A = chain_aff((a, b)); B = chain_aff((x, y))
        except AssertionError:
            A, B = 0, 1
        if A != B:
            self.fail('corr:swap', 'swap-changes-affine-map:' + direction, '%s of (%r, %r) gives (%r, %r): different affine map' % (direction, a, b, x, y), replay); ok = False
        elif chain_flip((a, b)) != chain_flip((x, y)):
            self.fail('corr:swap', 'swap-changes-orientation:' + direction, '%s of (%r, %r) gives (%r, %r): orientation flipped' % (direction, a, b, x, y), replay); ok = False
        return ok

    def swaps(self):
        from nutils import transform as T
        pairs = []   # (direction, a, b) in chain order
        for name, ref in self.refs:
            if ref.ndims:
                for e, eref in zip(ref.edge_transforms, ref.edge_refs):
                    for c_ in eref.child_transforms:
                        pairs.append(('swapup', e, c_, name))
            for c_, cref in zip(ref.child_transforms, ref.child_refs):
                if cref.ndims:
                    for e in cref.edge_transforms:
                        pairs.append(('swapdown', c_, e, name))
        # second generation: results of the first swaps swapped back, and ill-matched pairs
        extra = []
        for d, a, b, name in pairs:
            res = a.swapup(b) if d == 'swapup' else b.swapdown(a)
            if res:
                extra.append(('swapdown' if d == 'swapup' else 'swapup', res[0], res[1], name + ':back'))
        allitems = list(self.all_items())
        for _ in range(60 if self.quick else 600):
            a, b = self.rng.choice(allitems), self.rng.choice(allitems)
            extra.append((self.rng.choice(['swapup', 'swapdown']), a, b, 'random-pair'))
        for d, a, b, name in pairs + extra:
            def h(ans, line, d=d, a=a, b=b, name=name):
                self.tick('corr:swap')
                out = outcome(lambda: a.swapup(b) if d == 'swapup' else b.swapdown(a))
                replay = dict(op=d, a=repr(a), b=repr(b), request=line, model=ans, real=repr(out), origin=name)
                self.c.case((d, line), nontrivial=out[0] == 'ok' and out[1] is not None)
                self.c.count('%s:%s' % (d, 'exc' if out[0] != 'ok' else 'none' if out[1] is None else 'swapped'))
                if out[0] != 'ok':
                    return  # ill-typed random pair (e.g. IndexError in the swap table): outside the model
                res = out[1]
                if not self.check_swap_spec(d, a, b, res, replay): return
                if res is not None and name != 'random-pair':
                    # the two swaps invert each other (needed for lookups through boundaries of refinements)
                    back = outcome(lambda: res[1].swapdown(res[0]) if d == 'swapup' else res[0].swapup(res[1]))
                    if back != ('ok', (a, b)):
                        self.fail('corr:swap', 'swap-not-inverted:' + d, '%s of (%r, %r) is not undone by the opposite swap: %r' % (d, a, b, back), replay)
                        return
                want = 'none' if res is None else ser_item(res[0]) + '|' + ser_item(res[1])
                if ans != want:
                    self.disagree('corr:swap', 'model and code disagree on %s of (%r, %r)' % (d, a, b), dict(replay, want=want))
            try:
                self.b.add('%s|%s %s' % (d, ser_item(a), ser_item(b)), h)
            except Unsupported:
                pass

    # -------------------------------------------------------------- stream C: chains
    def random_chain(self, maxlen=7):
        from nutils import transform as T
        name, ref = self.rng.choice(self.refs)
        chain = ref_walk(self.rng, ref, self.rng.randint(0, maxlen), pedge=self.rng.choice([.2, .4, .6]))
        r = self.rng.random()
        if r < .3: chain = (T.Index(ref.ndims, self.rng.randrange(5)),) + chain
        elif r < .4: chain = (T.Index(ref.ndims, 0), T.Index(ref.ndims, 1)) + chain
        return name, ref, chain

    def scramble(self, chain):
        """apply random real swaps (either direction) to obtain an equivalent chain in arbitrary form"""
        items = list(chain)
        for _ in range(self.rng.randint(0, 8)):
            if len(items) < 2: break
            i = self.rng.randrange(len(items) - 1)
            sw = items[i].swapup(items[i+1]) or items[i+1].swapdown(items[i])
            if sw: items[i:i+2] = sw
        return tuple(items)

    def chains(self):
        from nutils import transform as T
        N = 150 if self.quick else 4000
        corpus = []
        L = self.refs[1][1]
        # hand-picked: two updims with children in between, ScaledUpdim round trip, empty and singleton chains
        sq = L * L
        corpus.append(('corpus', sq, (sq.edge_transforms[0], (L).child_transforms[1], L.edge_transforms[1])))
        corpus.append(('corpus', sq, ()))
        corpus.append(('corpus', sq, (sq.child_transforms[3],)))
        cases = corpus + [self.random_chain() for _ in range(N)]
        for name, ref, chain in cases:
            chain = self.scramble(chain)
            if not chain_dims_ok(chain): continue
            nd = self.rng.choice(sorted(set([t.fromdims for t in chain] + [ref.ndims]))) if chain else 0
            for op in ('canon', 'upper', 'promote', 'iscanon', 'app', 'chainaff'):
                if op == 'promote': line = 'promote|%d|%s' % (nd, ser_chain(chain))
                elif op == 'app':
                    x = dyadic_point(self.rng, chain[-1].fromdims if chain else ref.ndims)
                    line = 'app|%s|%s' % (ser_chain(chain), ' '.join(sfr(v) for v in x))
                else: line = '%s|%s' % (op, ser_chain(chain)); x = None
                def h(ans, line, op=op, chain=chain, nd=nd, x=x, name=name):
                    ob = 'corr:' + {'canon': 'canonical', 'upper': 'uppermost', 'promote': 'promote', 'iscanon': 'iscanonical', 'app': 'apply', 'chainaff': 'apply'}[op]
                    self.tick(ob)
                    self.c.case((op, line), nontrivial=len(chain) >= 2)
                    replay = dict(op=op, chain=repr(chain), ndims=nd, request=line, model=ans, ref=name)
                    if op in ('canon', 'upper', 'promote'):
                        f = dict(canon=T.canonical, upper=T.uppermost, promote=lambda ch: T.promote(ch, nd))[op]
                        out = outcome(f, chain)
                        replay['real'] = repr(out)
                        if out[0] != 'ok':
                            self.fail(ob, 'rewrite-raises:' + op, '%s raises %r on a well-formed chain %r' % (op, out[1], chain), replay); return
                        res = tuple(out[1])
                        self.c.count('%s:%s' % (op, 'changed' if res != tuple(chain) else 'unchanged'))
                        if not chain_dims_ok(res) or chain_aff(res, nd) != chain_aff(chain, nd):
                            self.fail(ob, 'rewrite-changes-affine-map:' + op, '%s(%r) = %r represents a different affine map' % (op, chain, res), replay); return
                        if chain_flip(res) != chain_flip(chain):
                            self.fail(ob, 'rewrite-changes-orientation:' + op, '%s(%r) = %r has the opposite orientation' % (op, chain, res), replay); return
                        if op == 'canon' and not T.iscanonical(res) and all(a.fromdims >= res[-1].fromdims for a in res):
                            # canonical() must leave no swappable (scale, updim) pair
                            self.fail(ob, 'canonical-not-canonical', 'canonical(%r) = %r is not iscanonical' % (chain, res), replay); return
                        want = ser_chain(res)
                    elif op == 'iscanon':
                        want = '%d' % T.iscanonical(chain)
                    elif op == 'app':
                        got = real_apply(chain, x)
                        A = chain_aff(chain, len(x))
                        spec = [sum(A[0][i][j] * x[j] for j in range(A[3])) + A[1][i] for i in range(A[2])]
                        if got != spec:
                            self.fail(ob, 'apply-differs-from-composition', 'transform.apply(%r, %r) differs from the composed affine map' % (chain, x), replay); return
                        want = ' '.join(sfr(v) for v in got)
                    else:
                        want = '%d|%s' % (chain_flip(chain), saff(chain_aff(chain, 0)))
                    if ans != want:
                        self.disagree(ob, 'model and code disagree on %s of %r' % (op, chain), dict(replay, want=want))
                try:
                    self.b.add(line, h)
                except Unsupported:
                    pass

    # -------------------------------------------------------------- stream D: sequences
    def real_topologies(self):
        """(label, topology) built by real topology operations; exceptions of unsupported combinations are skipped"""
        from nutils import mesh
        rng = self.rng
        out = []
        def add(label, f):
            try:
                t = f()
                len(t.transforms), len(t.opposites), len(t.references)
                out.append((label, t))
                return t
            except Exception as e:
                self.c.count('topo-skipped:' + type(e).__name__)
                return None
        def derive(label, t, depth):
            """random pipeline of operations"""
            if t is None or depth == 0 or len(t) == 0 or len(t) > 80: return
            n = len(t)
            ops = ['refined', 'boundary', 'interfaces', 'take', 'compress', 'refined_by', 'union', 'sub', 'slice', 'bname']
            for op in rng.sample(ops, 3 if self.quick else 4):
                if op in ('refined', 'boundary', 'interfaces'):
                    u = add(label + '.' + op, lambda: getattr(t, op))
                elif op == 'take':
                    idx = sorted(rng.sample(range(n), rng.randint(1, n)))
                    if rng.random() < .3: rng.shuffle(idx)
                    u = add(label + '.take', lambda: t.take(idx))
                elif op == 'compress':
                    mask = [rng.random() < .6 for _ in range(n)]
                    u = add(label + '.compress', lambda: t.compress(mask))
                elif op == 'refined_by':
                    idx = rng.sample(range(n), rng.randint(1, min(n, 3)))
                    u = add(label + '.refined_by', lambda: t.refined_by(idx))
                elif op == 'union':
                    k = rng.randint(1, n)
                    u = add(label + '.union', lambda: t.take(list(range(k))) | t.take(list(range(k, n)))) if k < n else None
                elif op == 'sub':
                    k = rng.randint(1, n)
                    u = add(label + '.sub', lambda: t - t.take(list(range(k))))
                elif op == 'slice':
                    u = add(label + '.slice', lambda: t[tuple(slice(rng.randint(0, 1), None) for _ in range(t.ndims))])
                else:
                    u = add(label + '.bname', lambda: t.boundary[rng.choice(['left', 'right', 'top', 'bottom'])])
                derive(label + '.' + op, u, depth - 1)
        bases = []
        shapes = [[2], [3], [2, 2], [2, 3], [1, 2], [2, 1, 2], [1, 1, 1]]
        for shape in (rng.sample(shapes, 3) if self.quick else shapes):
            per = [d for d in range(len(shape)) if shape[d] > 1 and rng.random() < .3]
            bases.append(('rect%s%s' % (shape, 'p%s' % per if per else ''), lambda shape=shape, per=per: mesh.rectilinear(shape, periodic=per)[0]))
        for et in ('triangle', 'mixed', 'square'):
            bases.append(('unitsquare-' + et, lambda et=et: mesh.unitsquare(rng.choice([1, 2]), et)[0]))
        def tets():
            nodes = numpy.array([[0, 1, 2, 3], [1, 2, 3, 4]]); coords = numpy.array([[0, 0, 0], [1, 0, 0], [0, 1, 0], [0, 0, 1], [1, 1, 1.]])
            return mesh.simplex(nodes, nodes, coords, {}, {}, {})[0]
        bases.append(('tets', tets))
        bases.append(('line-periodic', lambda: mesh.line(3, periodic=True)[0]))
        for label, f in bases:
            t = add(label, f)
            derive(label, t, 2 if self.quick else 3)
        return out

    def synthetic(self):
        """(label, Transforms, [reference per element]) nestings built directly from the transformseq classes"""
        from nutils import transformseq as S, transform as T, elementseq, types
        rng = self.rng
        kinds = dict((n, r) for n, r in self.refs if r.ndims)
        out = []
        counter = [0]
        def base():
            name = rng.choice(['line', 'square', 'triangle', 'cube', 'tetrahedron', 'prism', 'linetri'])
            ref = kinds[name]; nd = ref.ndims
            n = rng.randint(1, 4); off = counter[0]; counter[0] += n + rng.randint(0, 2)
            r = rng.random()
            if r < .5:
                return 'Index', S.IndexTransforms(nd, n, off), [ref] * n
            # plain: index roots followed by children; canonical and prefix-free by construction (distinct roots)
            chains = []; refs = []
            for k in range(n):
                w = ref_walk(rng, ref, rng.randint(0, 2), pedge=0)
                chains.append((T.Index(nd, off + k),) + w); refs.append(ref)
            order = list(range(n)); rng.shuffle(order)
            return 'Plain', S.PlainTransforms(tuple(chains[i] for i in order), nd, nd), [refs[i] for i in order]
        def grow(label, ts, refs, depth):
            out.append((label, ts, refs))
            if depth == 0 or len(ts) == 0 or len(ts) > 40: return
            n = len(ts)
            for op in rng.sample(['masked', 'reordered', 'refined', 'edges', 'chain', 'getitem'], 2):
                try:
                    if op == 'masked':
                        idx = sorted(rng.sample(range(n), rng.randint(1, n)))
                        if len(idx) == n: continue
                        u, r = S.MaskedTransforms(ts, types.arraydata(numpy.array(idx, dtype=int))), [refs[i] for i in idx]
                    elif op == 'reordered':
                        idx = list(range(n)); rng.shuffle(idx)
                        u, r = S.ReorderedTransforms(ts, types.arraydata(numpy.array(idx, dtype=int))), [refs[i] for i in idx]
                    elif op == 'getitem':
                        idx = rng.sample(range(n), rng.randint(1, n))
                        u, r = ts[numpy.array(idx, dtype=int)], [refs[i] for i in idx]
                    elif op == 'refined':
                        u = ts.refined(elementseq.References.from_iter(refs, ts.fromdims)); r = [cr for ref in refs for cr in ref.child_refs]
                    elif op == 'edges':
                        if ts.fromdims == 0: continue
                        u = ts.edges(elementseq.References.from_iter(refs, ts.fromdims)); r = [er for ref in refs for er in ref.edge_refs]
                    else:
                        l2, t2, r2 = base()
                        # bring the second operand to the same dimensions by the same kind of derivation, if possible
                        while t2.fromdims > ts.fromdims:
                            t2, r2 = t2.edges(elementseq.References.from_iter(r2, t2.fromdims)), [er for ref in r2 for er in ref.edge_refs]
                        if t2.fromdims != ts.fromdims or t2.todims != ts.todims: continue
                        if rng.random() < .5: u, r = ts + t2, refs + r2
                        else: u, r = t2 + ts, r2 + refs
                except Exception as e:
                    self.c.count('synthetic-skipped:' + type(e).__name__); continue
                grow(label + '.' + op, u, r, depth - 1)
        for _ in range(8 if self.quick else 120):
            l, ts, refs = base()
            grow(l, ts, refs, 3)
        return out

    def foreign_chains(self, pool, ts, i):
        """chains that are (very likely) not in `ts`: for the error paths"""
        from nutils import transform as T
        rng = self.rng
        ch = list(ts[i]); r = rng.random()
        if r < .25 and len(ch) > 1: ch = ch[:-1]
        elif r < .5:
            k = rng.randrange(len(ch))
            if isinstance(ch[k], T.Index): ch[k] = T.Index(ch[k].todims, ch[k].index + rng.choice([-7, 5, 100]))
            else: ch[k] = T.Identity(ch[k].fromdims) if ch[k].fromdims == ch[k].todims else ch[k]
        elif r < .75 and pool:
            o = rng.choice(pool)
            if len(o): ch = list(o[rng.randrange(len(o))])
        else:
            ch = ch + [T.Identity(ch[-1].fromdims)]
        return tuple(ch)

    def sequences(self):
        from nutils import transformseq as S
        rng = self.rng
        seqs = []   # (label, transforms, refs or None)
        for label, t in self.real_topologies():
            refs = list(t.references)
            seqs.append((label + ':transforms', t.transforms, refs))
            if t.opposites is not t.transforms and t.opposites != t.transforms:
                seqs.append((label + ':opposites', t.opposites, None))   # opposite sides: element references need not match
        seqs += self.synthetic()
        cap = 110 if self.quick else 700
        if len(seqs) > cap:
            self.c.count('sequences-generated', len(seqs))
            seqs = [seqs[i] for i in sorted(rng.sample(range(len(seqs)), cap))]
        pool = [ts for _, ts, _ in seqs]
        self.seqs = seqs
        seen = set()
        maxel = 8 if self.quick else 16
        for label, ts, refs in seqs:
            try:
                sseq = ser_seq(ts)
            except Unsupported as e:
                self.c.count('seq-unsupported:' + str(e)); continue
            if len(sseq) > 60000: self.c.count('seq-too-long'); continue
            n = len(ts)
            shape = seq_shape(ts)
            chains = [tuple(ch) for ch in ts] if n <= 400 else None
            if chains is not None:
                allc = set(chains)
                if len(allc) < n or any(ch[:k] in allc for ch in chains for k in range(1, len(ch))):
                    self.c.count('seq-not-prefix-free'); continue   # violates the contract of Transforms: outside the property
            elems = list(range(n)) if n <= maxel else sorted(rng.sample(range(n), maxel))
            queries = [('len',), ('dims',)]
            for i in elems:
                ch = tuple(ts[i])
                queries.append(('get', i))
                queries.append(('index', i, ch))
                tails = [()]
                if refs is not None:
                    tails = [ref_walk(rng, refs[i], rng.randint(0, 4), pedge=rng.choice([0, .3, .5])) for _ in range(2)]
                for tail in tails:
                    queries.append((rng.choice(['iwt', 'iwt', 'contains']), i, ch, tail))
                if rng.random() < .4:
                    queries.append(('foreign', rng.choice(['iwt', 'index', 'contains']), self.foreign_chains(pool, ts, i)))
            if n == 0:
                other = rng.choice(pool)
                if len(other): queries.append(('foreign', 'iwt', tuple(other[0])))
            key = (sseq, tuple(repr(q) for q in queries))
            if key in seen: continue
            seen.add(key)
            def q2s(q):
                if q[0] in ('len', 'dims'): return q[0]
                if q[0] == 'get': return 'get %d' % q[1]
                if q[0] == 'index': return 'index ' + ser_chain(q[2])
                if q[0] == 'foreign': return q[1] + ' ' + ser_chain(q[2])
                return q[0] + ' ' + ser_chain(q[2] + q[3])
            try:
                line = 'seq|%s|%d|%s' % (sseq, rng.random() < .5, '|'.join(q2s(q) for q in queries))
            except Unsupported as e:
                self.c.count('seq-unsupported:' + str(e)); continue
            def h(ans, line, label=label, ts=ts, queries=queries, shape=shape, sseq=sseq):
                self.c.count('seq-shape:' + shape)
                if ans == 'bad-request':
                    self.disagree('corr:sequence-protocol', 'driver rejected the serialised sequence', dict(label=label, request=line[:2000])); return
                answers = ans.split('|')
                assert len(answers) == len(queries)
                for q, a in zip(queries, answers):
                    self.check_query(label, ts, shape, sseq, q, a)
            self.b.add(line, h)

    def check_query(self, label, ts, shape, sseq, q, a):
        c = self.c
        replay = dict(sequence=label, shape=shape, seq=sseq[:4000], query=repr(q), model=a)
        if q[0] == 'len':
            self.tick('corr:len'); c.case(('len', sseq), nontrivial=False)
            if a != '%d' % len(ts): self.disagree('corr:len', 'len differs', dict(replay, real=len(ts)))
            return
        if q[0] == 'dims':
            self.tick('corr:len')
            if a != '%d %d' % (ts.todims, ts.fromdims): self.disagree('corr:len', 'todims/fromdims differ', dict(replay, real=(ts.todims, ts.fromdims)))
            return
        if q[0] == 'get':
            self.tick('corr:getitem'); c.case(('get', sseq, q[1]), nontrivial=True)
            want = ser_chain(ts[q[1]])
            ch = ts[q[1]]
            if not chain_dims_ok(ch) or ch[0].todims != ts.todims or ch[-1].fromdims != ts.fromdims:
                self.fail('corr:getitem', 'getitem-ill-formed-chain', '%s[%d] = %r is not a chain from fromdims to todims' % (label, q[1], ch), replay); return
            if a != want: self.disagree('corr:getitem', 'transforms[%d] differs' % q[1], dict(replay, real=want))
            return
        if q[0] == 'foreign':
            op, ch = q[1], q[2]
            ob = 'corr:lookup-foreign'
            self.tick(ob); c.case((op, sseq, ser_chain(ch)), nontrivial=len(ch) >= 2)
            out = outcome(getattr(ts, dict(iwt='index_with_tail', index='index', contains='contains')[op]), ch)
            c.count('foreign:%s:%s' % (op, out[0] if out[0] != 'ok' or op != 'contains' else out[1]))
            # oracle: whatever is returned must be consistent: index in range and head ++ tail the same affine map as the query
            if out[0] == 'ok' and op == 'iwt':
                i, tail = out[1]
                if not (0 <= i < len(ts)) or chain_aff(tuple(ts[int(i)]) + tuple(tail)) != chain_aff(ch):
                    self.fail(ob, 'lookup-returns-wrong-element', 'index_with_tail(%r) = %r, but transforms[%d] + tail is a different map' % (ch, out[1], i), dict(replay, real=repr(out))); return
            want = self.ser_outcome(op, out)
            if want is None: return
            if a != want: self.disagree(ob, 'model and code disagree on %s of a foreign chain' % op, dict(replay, real=want))
            return
        op, i, ch = q[0], q[1], q[2]
        tail = q[3] if len(q) > 3 else ()
        full = tuple(ch) + tuple(tail)
        ob = 'corr:' + dict(iwt='index_with_tail', index='index', contains='contains')[op]
        self.tick(ob); c.case((op, sseq, ser_chain(full)), nontrivial=len(full) >= 2)
        c.count('lookup:taillen=%d' % len(tail)); c.count('lookup:tail-updims=%d' % sum(t.fromdims != t.todims for t in tail))
        out = outcome(getattr(ts, dict(iwt='index_with_tail', index='index', contains='contains')[op]), full)
        replay['real'] = repr(out); replay['element'] = i; replay['tail'] = repr(tail)
        # ---- specification oracle
        if op == 'index':
            if out != ('ok', i):
                self.fail(ob, 'index-of-own-element-wrong', '%s.index(transforms[%d]) gives %r' % (label, i, out), replay); return
        elif op == 'contains':
            if out != ('ok', not tail):
                self.fail(ob, 'contains-wrong', '%s.contains(transforms[%d] + %r) gives %r' % (label, i, tail, out), replay); return
        else:
            if out[0] != 'ok' or out[1][0] != i:
                self.fail(ob, 'lookup-of-own-element-wrong', '%s.index_with_tail(transforms[%d] + %r) gives %r instead of element %d' % (label, i, tail, out, i), replay); return
            rem = tuple(out[1][1])
            if (not chain_dims_ok(rem) or chain_aff(rem, ts.fromdims) != chain_aff(tail, ts.fromdims) or chain_flip(rem) != chain_flip(tail)):
                self.fail(ob, 'lookup-remainder-wrong', '%s.index_with_tail(transforms[%d] + %r) returns remainder %r: not the same affine map' % (label, i, tail, rem), replay); return
            self.c.traces += 1
        want = self.ser_outcome(op, out)
        if want is not None and a != want:
            self.disagree(ob, 'model and code disagree on %s' % op, dict(replay, want=want))

    def ser_outcome(self, op, out):
        if out[0] == 'err': return 'err ' + out[1]
        if out[0] != 'ok': return None    # other exception types: outside the model
        if op == 'iwt': return 'ok %d %s' % (out[1][0], ser_chain(out[1][1]))
        if op == 'index': return 'ok %d' % out[1]
        return 'ok %d' % out[1]

    # -------------------------------------------------------------- stream D2: derived axes of structured topologies
    def axes(self):
        """DimAxis.refined / getitem / intaxis / boundaries (+ IntAxis.opposite) against the model (`Model/C11Axes.lean`); the theorems
        `structured_interface_sides` etc. assume `DimAx.ok`, which is checked here on every real axis; specification oracle: every side
        of every interface / boundary facet is an element of the axis, the two sides of an interface are neighbours"""
        from nutils import transformseq as S
        rng = self.rng
        ob = 'corr:dimaxis'
        seen = set()
        for _ in range(150 if self.quick else 3000):
            n = rng.randint(1, 6); per = rng.random() < .5
            ops = []
            d = S.DimAxis(0, n, n if per else 0, per)
            periodic = per
            for _k in range(rng.randint(0, 3)):
                if rng.random() < .4:
                    ops.append('R'); d = d.refined
                else:
                    m = d.j - d.i
                    a = rng.randint(0, m - 1); b = rng.randint(a + 1, m)
                    if rng.random() < .3: a = 0
                    if rng.random() < .3: b = m
                    ops.append('G %d %d' % (a, b)); d = d.getitem(slice(a, b)); periodic = False
            ib = rng.randint(0, 2)
            line = 'dimaxis|0 %d %d %d|%s|%d' % (n, n if per else 0, per, ' '.join(ops), ib)
            if line in seen: continue
            seen.add(line)
            def h(ans, line, d=d, ib=ib, periodic=periodic, ops=ops):
                self.tick(ob); self.c.case(('dimaxis', line), nontrivial=bool(ops)); self.c.count('dimaxis:%s' % ('periodic' if periodic else 'slice-of-periodic' if d.mod else 'plain'))
                replay = dict(op='dimaxis', request=line, model=ans)
                sa = lambda a: '%d %d %d %d %d %d' % (a.i, a.j, a.mod, a.isdim, getattr(a, 'ibound', 0), bool(getattr(a, 'side', False)))
                try:
                    it, if_ = d.intaxis(ib, True), d.intaxis(ib, False)
                    bnd = list(d.boundaries(ib)); opp = [a.opposite(ib) for a in bnd]
                    n = len(d)
                    # ---- specification oracle (independent of the model)
                    if len(it) != len(if_) or len(it) != n - 1 + periodic:
                        self.fail(ob, 'structured-interfaces-count-wrong', 'axis %s: %d / %d interface positions for %d elements (periodic: %s)' % (line, len(it), len(if_), n, periodic), replay); return
                    for r in range(len(it)):
                        try:
                            e1, e2 = d.unmap(it.map(r)), d.unmap(if_.map(r))
                        except ValueError:
                            self.fail(ob, 'interface-side-not-in-topology', 'axis %s: a side of interface %d is not an element of the axis' % (line, r), dict(replay, interface=r)); return
                        if e2 != (e1 + 1) % n or (not periodic and e2 != e1 + 1):
                            self.fail(ob, 'interface-sides-not-neighbours', 'axis %s: interface %d lies between elements %d and %d' % (line, r, e1, e2), dict(replay, interface=r)); return
                    if len(bnd) != (0 if periodic else 2) or any(len(a) != 1 for a in bnd) or (bnd and [d.unmap(a.map(0)) for a in bnd] != [0, n - 1]):
                        self.fail(ob, 'structured-boundary-axes-wrong', 'axis %s: boundary axes %r' % (line, [sa(a) for a in bnd]), replay); return
                    okax = d.i < d.j and ((d.mod == 0 and not d.isperiodic) or (d.mod > 0 and d.j - d.i <= d.mod and (not d.isperiodic or d.j - d.i == d.mod)))
                    if not okax:
                        self.disagree(ob, 'a real DimAxis violates the well-formedness the theorems assume (DimAx.ok): %s' % sa(d), replay); return
                    want = '%d %d %d %d|%s|%s|%s|%s' % (d.i, d.j, d.mod, d.isperiodic, sa(it), sa(if_), ';'.join(sa(a) for a in bnd), ';'.join(sa(a) for a in opp))
                except Exception as e:
                    self.fail(ob, 'dimaxis-raises', 'deriving axes of %s raises %s: %s' % (line, type(e).__name__, str(e)[:100]), replay); return
                if ans != want:
                    self.disagree(ob, 'model and code disagree on the axes derived from %s' % line, dict(replay, real=want))
                else:
                    self.c.traces += 1
            self.b.add(line, h)

    # -------------------------------------------------------------- stream E: compressed containers
    def ref_label(self, ref):
        from nutils import element
        if isinstance(ref, element.TensorReference): return self.ref_label(ref.ref1) + self.ref_label(ref.ref2)
        if isinstance(ref, element.SimplexReference): return (ref.ndims,) if ref.ndims else ()
        raise Unsupported('reference ' + type(ref).__name__)

    def gen_container_expr(self, nd, depth):
        """random expression over the container operations producing a sequence of `nd`-dimensional items"""
        rng = self.rng
        atoms = {1: ['line'], 2: ['square', 'triangle'], 3: ['cube', 'tetrahedron', 'prism', 'linetri']}
        kinds = dict(self.refs)
        if depth == 0 or rng.random() < .25:
            if rng.random() < .2:
                return ('uniform', kinds[rng.choice(atoms[nd])], rng.randint(0, 3))
            return ('fromiter', [kinds[rng.choice(atoms[nd])] for _ in range(rng.choice([0, 2, 3, 4, 5]))], nd)
        op = rng.choice(['take', 'take', 'compress', 'repeat', 'chain', 'chain', 'product', 'children', 'edges'])
        if op == 'product':
            if nd < 2: op = 'chain'
            else:
                d1 = rng.randint(1, nd - 1)
                return ('product', self.gen_container_expr(d1, depth - 1), self.gen_container_expr(nd - d1, depth - 1))
        if op == 'edges':
            if nd >= 3: op = 'children'
            else: return ('edges', self.gen_container_expr(nd + 1, depth - 1))
        if op == 'children': return ('children', self.gen_container_expr(nd, depth - 1))
        if op == 'chain': return ('chain', self.gen_container_expr(nd, depth - 1), self.gen_container_expr(nd, depth - 1))
        if op == 'repeat': return ('repeat', self.gen_container_expr(nd, depth - 1), rng.randint(0, 3))
        return (op, self.gen_container_expr(nd, depth - 1), rng.random())   # indices chosen when the length is known

    def eval_container(self, e, nd_hint=None):
        """returns (real References, expected python list, request string, has_unsorted_take)"""
        from nutils import elementseq
        rng = self.rng
        word = lambda r: ' '.join(['%d' % len(self.ref_label(r))] + ['%d' % a for a in self.ref_label(r)])
        op = e[0]
        if op == 'fromiter':
            for r in e[1]: self.seen_refs.add(r)
            return elementseq.References.from_iter(e[1], e[2]), list(e[1]), 'fromiter %d %s' % (len(e[1]), ' '.join(word(r) for r in e[1])), False
        if op == 'uniform':
            self.seen_refs.add(e[1])
            return elementseq.References.uniform(e[1], e[2]), [e[1]] * e[2], 'uniform %s %d' % (word(e[1]), e[2]), False
        if op in ('take', 'compress'):
            s, L, q, u = self.eval_container(e[1])
            n = len(L)
            r = random_from(e[2])
            if op == 'take':
                idx = [r.randrange(n) for _ in range(r.randint(0, n + 1))] if n else []
                mode = r.random()
                if mode < .7: idx = sorted(idx)
                unsorted = idx != sorted(idx)
                return s.take(numpy.array(idx, dtype=int)), [L[i] for i in idx], 'take %s %d %s' % (q, len(idx), ' '.join(map(str, idx))), u or unsorted
            mask = [r.random() < .6 for _ in range(n)]
            return s.compress(numpy.array(mask, dtype=bool)), [x for x, m in zip(L, mask) if m], 'compress %s %d %s' % (q, n, ' '.join('%d' % m for m in mask)), u
        if op == 'repeat':
            s, L, q, u = self.eval_container(e[1])
            return s.repeat(e[2]), L * e[2], 'repeat %s %d' % (q, e[2]), u
        if op in ('chain', 'product'):
            s1, L1, q1, u1 = self.eval_container(e[1]); s2, L2, q2, u2 = self.eval_container(e[2])
            if op == 'chain': return s1.chain(s2), L1 + L2, 'chain %s %s' % (q1, q2), u1 or u2
            L = [a * b for a in L1 for b in L2]
            for r in L: self.seen_refs.add(r)
            return s1.product(s2), L, 'product %s %s' % (q1, q2), u1 or u2
        s, L, q, u = self.eval_container(e[1])
        if op == 'children':
            L2 = [c_ for r in L for c_ in r.child_refs]
            for r in L2: self.seen_refs.add(r)
            return s.children, L2, 'children ' + q, u
        L2 = [c_ for r in L for c_ in r.edge_refs]
        for r in L2: self.seen_refs.add(r)
        return s.edges, L2, 'edges ' + q, u

    def container_shape(self, s):
        n = type(s).__name__.lstrip('_')
        if n in ('Take', 'Repeat', 'Derived'): return '%s(%s)' % (n, self.container_shape(s.parent))
        if n in ('Product', 'Chain'): return '%s(%s,%s)' % (n, self.container_shape(s.sequence1), self.container_shape(s.sequence2))
        return n

    def containers(self):
        N = 120 if self.quick else 3000
        for k in range(N):
            nd = self.rng.choice([1, 2, 2, 3, 3])
            e = self.gen_container_expr(nd, self.rng.randint(1, 4))
            self.seen_refs = set()
            try:
                real, want, q, unsorted = self.eval_container(e)
            except Unsupported:
                continue
            except Exception as ex:
                self.tick('corr:containers')
                self.fail('corr:containers', 'container-raises', 'a valid container expression raises %s: %s' % (type(ex).__name__, str(ex)[:100]), dict(op='containers', expr=repr(e)[:500])); continue
            # der table for every reference met
            closure = set(self.seen_refs)
            for r in list(closure):
                closure.update(r.child_refs)
                if r.ndims: closure.update(r.edge_refs)
            word = lambda r: ' '.join(['%d' % len(self.ref_label(r))] + ['%d' % a for a in self.ref_label(r)])
            tab = {}
            for r in closure:
                tab[(0, self.ref_label(r))] = '0 %s %d %s' % (word(r), len(r.child_refs), ' '.join(word(c_) for c_ in r.child_refs))
                er = r.edge_refs if r.ndims else ()
                tab[(1, self.ref_label(r))] = '1 %s %d %s' % (word(r), len(er), ' '.join(word(c_) for c_ in er))
            line = 'alg|%d %s|%s' % (len(tab), ' '.join(tab[k_] for k_ in sorted(tab)), q)
            def h(ans, line, real=real, want=want, q=q, unsorted=unsorted):
                ob = 'corr:containers'
                self.tick(ob); self.c.case(('alg', q), nontrivial=len(want) > 0)
                shape = self.container_shape(real)
                try:
                    got = list(real)
                    gets = [real.get(i) for i in range(len(real))]
                except Exception as ex:
                    self.fail(ob, 'container-raises', 'References iteration / get raises %s: %s' % (type(ex).__name__, str(ex)[:100]), dict(op='containers', expr=q, real_shape=shape)); return
                self.c.count('container:' + shape.split('(')[0])
                replay = dict(op='containers', expr=q, real_shape=shape, model=ans)
                # specification oracle: the python lists
                if got != want or gets != want or len(real) != len(want):
                    if unsorted:
                        self.fail(ob, 'container-take:chain-unsorted-indices', 'take with indices that are not sorted across a chain boundary returns the elements in the wrong order', replay)
                    else:
                        self.fail(ob, 'container-wrong-content', 'container expression evaluates to the wrong sequence (iteration, get or len)', replay)
                    return
                lab = lambda r: '.'.join('%d' % a for a in self.ref_label(r))
                wl = ' '.join(lab(r) for r in want)
                expect = '%s|%d|%s|%s' % (shape, len(want), wl, wl)
                if ans != expect:
                    self.disagree(ob, 'model and code disagree on a container expression', dict(replay, want=expect))
            self.b.add(line, h)
        self.points_containers()

    def points_containers(self):
        """PointsSequence has the same algebra: real code against python lists (coords / weights compared exactly)"""
        from nutils import pointsseq, element
        rng = self.rng
        ob = 'explore:pointsseq-containers'
        L = element.LineReference(); T = element.TriangleReference()
        atoms = {1: [L.getpoints('gauss', 1), L.getpoints('gauss', 3), L.getpoints('bezier', 2)], 2: [T.getpoints('gauss', 1), T.getpoints('gauss', 2), (L*L).getpoints('gauss', 1)]}
        def gen(nd, depth):
            if depth == 0 or rng.random() < .25:
                items = [rng.choice(atoms[nd]) for _ in range(rng.randint(0, 4))]
                return pointsseq.PointsSequence.from_iter(items, nd), items, False
            op = rng.choice(['take', 'compress', 'repeat', 'chain', 'chain', 'product'])
            if op == 'product' and nd == 2:
                s1, l1, u1 = gen(1, depth - 1); s2, l2, u2 = gen(1, depth - 1)
                return s1.product(s2), [a * b for a in l1 for b in l2], u1 or u2
            if op == 'chain' or op == 'product':
                s1, l1, u1 = gen(nd, depth - 1); s2, l2, u2 = gen(nd, depth - 1)
                return s1.chain(s2), l1 + l2, u1 or u2
            s, l, u = gen(nd, depth - 1)
            n = len(l)
            if op == 'repeat':
                k = rng.randint(0, 3); return s.repeat(k), l * k, u
            if op == 'compress':
                mask = [rng.random() < .6 for _ in range(n)]
                return s.compress(numpy.array(mask, dtype=bool)), [x for x, m in zip(l, mask) if m], u
            idx = [rng.randrange(n) for _ in range(rng.randint(0, n + 1))] if n else []
            if rng.random() < .7: idx = sorted(idx)
            return s.take(numpy.array(idx, dtype=int)), [l[i] for i in idx], u or idx != sorted(idx)
        same = lambda p, q: p.npoints == q.npoints and numpy.array_equal(p.coords, q.coords) and numpy.array_equal(getattr(p, 'weights', 0), getattr(q, 'weights', 0))
        for k in range(80 if self.quick else 2000):
            try:
                s, want, unsorted = gen(rng.choice([1, 2]), rng.randint(1, 4))
            except Exception as ex:
                self.tick(ob)
                self.fail(ob, 'container-raises', 'a valid PointsSequence expression raises %s: %s' % (type(ex).__name__, str(ex)[:100]), dict(op='pointsseq')); continue
            self.tick(ob); self.c.case(('pts', k, len(want)), nontrivial=len(want) > 0)
            try:
                got = list(s); gets = [s.get(i) for i in range(len(s))]
            except Exception as ex:
                self.fail(ob, 'container-raises', 'PointsSequence iteration / get raises %s: %s' % (type(ex).__name__, str(ex)[:100]), dict(op='pointsseq', n=len(want), shape=type(s).__name__)); continue
            ok = len(s) == len(want) == len(got) and all(same(a, b) for a, b in zip(got, want)) and all(same(a, b) for a, b in zip(gets, want)) and s.npoints == sum(p.npoints for p in want)
            if not ok:
                if unsorted: self.fail(ob, 'container-take:chain-unsorted-indices', 'PointsSequence: take with indices not sorted across a chain boundary returns the wrong order', dict(op='pointsseq', n=len(want)))
                else: self.fail(ob, 'container-wrong-content', 'PointsSequence expression evaluates to the wrong sequence', dict(op='pointsseq', n=len(want), shape=type(s).__name__))

    def real_only(self):
        import traceback
        streams = [self.known_tensor4d, self.known_chain_take, self.known_locate_empty, self.known_locate_fit, self.unhandled_known, self.interning, self.findex_fcoords, self.interface_sides, self.locate,
                   self.subtopo_interfaces, self.locate_histories]
        if not self.quick: streams += [self.locate] * 7 + [self.findex_fcoords, self.interface_sides]
        for f in streams:
            try:
                f()
            except Exception as e:
                # the real code raised where the stream did not expect any exception: an outcome, not a harness crash
                tb = traceback.extract_tb(e.__traceback__)
                where = '%s:%d' % (tb[-1].filename.split('/')[-1], tb[-1].lineno) if tb else '?'
                self.tick('explore:' + f.__name__)
                self.fail('explore:' + f.__name__, 'stream-raises:' + f.__name__, 'unexpected %s in stream %s at %s: %s' % (type(e).__name__, f.__name__, where, str(e)[:150]),
                          dict(op=f.__name__, traceback=traceback.format_exc()[-2000:]))

    def known_locate_empty(self):
        """locate with skip_missing=True and no target inside the domain"""
        from nutils import mesh
        sig = 'locate-no-point-located:indexerror'
        topo, geom = mesh.rectilinear([3, 2])
        try:
            n = topo.locate(geom, [[-3., -3.]], tol=1e-10, skip_missing=True).npoints
            still = n != 0
            out = 'npoints=%d' % n
        except Exception as e:
            still = True; out = type(e).__name__ + ': ' + str(e)[:100]
        self.tick('explore:known-locate-empty'); self.c.case(('known-locate-empty',), nontrivial=True)
        entry = self.c.match_known(sig)
        if entry is not None:
            self.c.report_known_still_failing(entry, still)
        elif still:
            self.c.failing_input(sig, 'rectilinear([3,2]).locate(geom, [[-3,-3]], tol=1e-10, skip_missing=True) gives %s instead of an empty sample' % out, dict(op='known-locate-empty', real=out))

    KNOWN_RERUN = ['lookup-own-element:swapdown-identity-not-swapped-back', 'container-take:chain-unsorted-indices', 'locate-no-point-located:indexerror',
                   'locate-structured-affine-fit:error-underestimated']

    def unhandled_known(self):
        """every open entry of known_findings.json must have a recorded minimal input that is re-run (the known_* streams)"""
        for e in self.c.findings:
            if e.get('status') == 'open' and e.get('signature') not in self.KNOWN_RERUN:
                self.c.log('note: open known finding %r (%s) has no recorded re-run in the C11 check' % (e.get('id'), e.get('signature')))
                self.c.count('known-finding-without-rerun')

    def known_locate_fit(self):
        """StructuredTopology._locate accepts an almost affine geometry on the fit error measured at interior sample points: the image of the
        located point misses a target at the end of the domain by more than tol (1.077e-3 for tol = 1e-3), no LocateError"""
        from nutils import mesh
        from nutils.topology import LocateError
        sig = 'locate-structured-affine-fit:error-underestimated'
        topo, x = mesh.rectilinear([1])
        g = x + x**2 / 128
        tol = 1e-3
        try:
            err = float(numpy.abs(numpy.asarray(topo.locate(g, [[0.]], tol=tol).eval(g))).max())
            still = not err <= tol; out = 'image error %.4g' % err
        except LocateError:
            still = False; out = 'LocateError'     # raising is allowed by the property
        except Exception as e:
            still = True; out = type(e).__name__ + ': ' + str(e)[:100]
        self.tick('explore:known-locate-fit'); self.c.case(('known-locate-fit',), nontrivial=True)
        entry = self.c.match_known(sig)
        if entry is not None:
            self.c.report_known_still_failing(entry, still)
        elif still:
            self.c.failing_input(sig, 'mesh.rectilinear([1]): locate(x + x**2/128, [[0.]], tol=1e-3) returns a point with %s (> tol) instead of raising or iterating' % out,
                                 dict(op='known-locate-fit', real=out, tol=tol))

    def known_chain_take(self):
        """References._Chain.take / PointsSequence._Chain.take with indices that are not sorted across the chain boundary"""
        from nutils import element, elementseq
        sig = 'container-take:chain-unsorted-indices'
        L = element.LineReference(); T = element.TriangleReference(); S = L * L
        c_ = elementseq.References.from_iter([S, T, S], 2).chain(elementseq.References.from_iter([T, T, S], 2))
        idx = [5, 0, 4, 1]
        got = list(c_.take(numpy.array(idx)))
        still = got != [c_.get(i) for i in idx]
        self.tick('explore:known-chain-take'); self.c.case(('known-chain-take',), nontrivial=True)
        entry = self.c.match_known(sig)
        if entry is not None:
            self.c.report_known_still_failing(entry, still)
        elif still:
            self.c.failing_input(sig, 'References._Chain.take([5,0,4,1]) returns %r' % ([type(r).__name__ for r in got],), dict(op='known-chain-take', indices=idx))

    # -------------------------------------------------------------- stream R4: interning (lookup uses object identity)
    def interning(self):
        """equal transform items met on different construction routes must be the same object"""
        ids = {}
        bad = 0
        for label, ts, refs in getattr(self, 'seqs', []):
            n = len(ts)
            for i in (range(n) if n <= 30 else self.rng.sample(range(n), 30)):
                for t in ts[i]:
                    try: k = ser_item(t)
                    except Unsupported: continue
                    self.tick('explore:interning')
                    if ids.setdefault(k, t) is not t:
                        bad += 1
                        self.fail('explore:interning', 'equal-items-not-identical', 'two distinct objects for the transform item %s (%r): identity based lookup breaks' % (k, t), dict(item=k, label=label))
        self.c.count('interned-items', len(ids))

    # -------------------------------------------------------------- stream R1: element index and local coordinates
    def pairs_for_findex(self):
        """(label, base topology, sampled topology): base.f_index / f_coords evaluated on a sample of the other"""
        from nutils import mesh
        rng = self.rng
        out = []
        def safe(f):
            try: return f()
            except Exception as e:
                self.c.count('findex-skipped:' + type(e).__name__); return None
        bases = [('rect[2,3]', lambda: mesh.rectilinear([2, 3])[0]), ('rect[2]', lambda: mesh.rectilinear([2])[0]), ('rect[1,2,2]', lambda: mesh.rectilinear([1, 2, 2])[0]),
                 ('tri', lambda: mesh.unitsquare(2, 'triangle')[0]), ('mixed', lambda: mesh.unitsquare(2, 'mixed')[0]),
                 ('rect[3,2]p0', lambda: mesh.rectilinear([3, 2], periodic=[0])[0])]
        nodes = numpy.array([[0, 1, 2, 3], [1, 2, 3, 4]]); coords = numpy.array([[0, 0, 0], [1, 0, 0], [0, 1, 0], [0, 0, 1], [1, 1, 1.]])
        bases.append(('tets', lambda: mesh.simplex(nodes, nodes, coords, {}, {}, {})[0]))
        for label, f in (bases if not self.quick else rng.sample(bases, 4)):
            t = safe(f)
            if t is None: continue
            n = len(t)
            cands = [('self', lambda: t), ('refined', lambda: t.refined), ('boundary', lambda: t.boundary), ('interfaces', lambda: t.interfaces),
                     ('refined.boundary', lambda: t.refined.boundary), ('boundary.refined', lambda: t.boundary.refined), ('refined.refined', lambda: t.refined.refined),
                     ('take', lambda: t.take(sorted(rng.sample(range(n), max(1, n // 2))))), ('refined_by', lambda: t.refined_by(rng.sample(range(n), 1))),
                     ('refined_by.boundary', lambda: t.refined_by(rng.sample(range(n), 1)).boundary), ('refined.interfaces', lambda: t.refined.interfaces)]
            for l2, g in (cands if not self.quick else rng.sample(cands, 5)):
                u = safe(g)
                if u is not None and len(u): out.append((label + ':' + l2, t, u))
            # the hierarchical topology as base, its refinement sampled
            h = safe(lambda: t.refined_by(rng.sample(range(n), 1)))
            if h is not None:
                out.append((label + ':hier/refined', h, h.refined))
                hb = safe(lambda: h.boundary)
                if hb is not None: out.append((label + ':hier/boundary', h, hb))
        return out

    def findex_fcoords(self):
        from nutils import transform as T
        for label, base, topo in self.pairs_for_findex():
            ob = 'explore:f_index-f_coords'
            try:
                smp = topo.sample('bezier', 2)
                fi, fc = smp.eval([base.f_index, base.f_coords])
            except Exception as e:
                self.fail(ob, 'findex-eval-raises', 'sample.eval([f_index, f_coords]) of %s raises %s: %s' % (label, type(e).__name__, str(e)[:200]), dict(label=label)); continue
            for ielem in range(smp.nelems):
                self.tick(ob); self.c.case(('findex', label, ielem), nontrivial=True)
                pts = numpy.asarray(smp.points[ielem].coords)
                idx = smp.getindex(ielem)
                chain = topo.transforms[ielem]
                # oracle: exact recomputation; the element of `base` that contains the chain, remainder applied to the sample's own points
                found = None
                for j in range(len(base)):
                    bj = tuple(base.transforms[j])
                    if tuple(chain[:len(bj)]) == bj: found = j; break
                replay = dict(label=label, element=ielem, chain=repr(chain))
                if base is topo:
                    want_i, want_c = ielem, [[fr(v) for v in p] for p in pts]
                elif found is not None:
                    tail = tuple(chain[len(base.transforms[found]):])
                    want_i = found
                    want_c = [real_apply_exact(tail, [fr(v) for v in p]) for p in pts]
                else:
                    self.c.count('findex:no-syntactic-prefix'); continue   # e.g. chains rewritten by promote: covered by the lookup streams
                got_i = [int(v) for v in fi[idx]]
                got_c = [[fr(v) for v in p] for p in fc[idx]]
                if got_i != [want_i] * len(idx):
                    self.fail(ob, 'f_index-wrong', 'f_index of %s evaluates to %r on element %d (expected %d)' % (label, got_i, ielem, want_i), dict(replay, got=got_i, want=want_i)); break
                if got_c != want_c:
                    self.fail(ob, 'f_coords-wrong', 'f_coords of %s on element %d differ from the (transformed) points of the sample' % (label, ielem), dict(replay, got=repr(got_c), want=repr(want_c))); break
                self.c.traces += 1
            self.c.count('findex-pairs')

    # -------------------------------------------------------------- stream R2: both sides of an interface
    def interface_sides(self):
        from nutils import mesh, function
        rng = self.rng
        ob = 'explore:interface-sides'
        cases = [('rect[2,3]', lambda: mesh.rectilinear([2, 3])), ('rect[3]', lambda: mesh.rectilinear([3])), ('rect[2,1,2]', lambda: mesh.rectilinear([2, 1, 2])),
                 ('tri', lambda: mesh.unitsquare(2, 'triangle')), ('mixed', lambda: mesh.unitsquare(2, 'mixed')), ('square', lambda: mesh.unitsquare(2, 'square'))]
        nodes = numpy.array([[0, 1, 2, 3], [1, 2, 3, 4]]); coords = numpy.array([[0, 0, 0], [1, 0, 0], [0, 1, 0], [0, 0, 1], [1, 1, 1.]])
        cases.append(('tets', lambda: mesh.simplex(nodes, nodes, coords, {}, {}, {})))
        for label, f in cases:
            topo, geom = f()
            n = len(topo)
            def rb():
                t = topo.refined_by(rng.sample(range(n), 1)); return t, t.interfaces
            variants = [('interfaces', lambda: (topo, topo.interfaces)), ('refined.interfaces', lambda: (topo.refined, topo.refined.interfaces)),
                        ('interfaces.refined', lambda: (topo.refined, topo.interfaces.refined)), ('refined_by.interfaces', rb),
                        ('refined.refined.interfaces', lambda: (topo.refined.refined, topo.refined.refined.interfaces))]
            for l2, g in (variants if not self.quick else rng.sample(variants, 2)):
                try:
                    base, ifc = g()
                    if not len(ifc): continue
                    smp = ifc.sample('bezier', 2)
                    x, xo, j, i1, i2 = smp.eval([geom, function.opposite(geom), function.jump(geom), base.f_index, function.opposite(base.f_index)])
                except Exception as e:
                    self.c.count('interfaces-skipped:' + type(e).__name__); continue
                self.tick(ob); self.c.case(('ifc', label, l2), nontrivial=True); self.c.count('interface-points', len(x))
                # exact: geometry is affine with dyadic data, points dyadic
                if not (numpy.array_equal(x, xo) and not j.any()):
                    k = int(numpy.argmax(numpy.abs(x - xo).sum(axis=-1) if x.ndim > 1 else numpy.abs(x - xo)))
                    self.fail(ob, 'interface-sides-disagree', 'the two sides of an interface of %s.%s map a shared point to different locations: %r vs %r' % (label, l2, x[k], xo[k]),
                              dict(label=label, variant=l2, point=k, x=repr(x[k]), xo=repr(xo[k])))
                    continue
                # the two sides are the two elements the transform chains of the interface belong to (and they differ)
                bad = None
                for k in range(smp.nelems):
                    idx = smp.getindex(k)
                    try:
                        w1 = base.transforms.index_with_tail(ifc.transforms[k])[0]; w2 = base.transforms.index_with_tail(ifc.opposites[k])[0]
                    except ValueError:
                        self.c.count('interface-side-not-in-base'); continue
                    if [int(v) for v in i1[idx]] != [w1] * len(idx) or [int(v) for v in i2[idx]] != [w2] * len(idx) or w1 == w2:
                        bad = (k, w1, w2, [int(v) for v in i1[idx]], [int(v) for v in i2[idx]]); break
                if bad:
                    self.fail(ob, 'interface-opposite-index-wrong', 'f_index / opposite(f_index) on interface %d of %s.%s evaluate to %r / %r, the chains belong to elements %d / %d' % (bad[0], label, l2, bad[3], bad[4], bad[1], bad[2]),
                              dict(label=label, variant=l2, interface=bad[0]))
                else:
                    self.c.traces += 1

    # -------------------------------------------------------------- stream R3: locate
    def locate(self):
        from nutils import mesh, function
        from nutils.topology import LocateError
        rng = self.rng
        ob = 'explore:locate'
        def geoms(topo, geom):
            yield 'affine', geom, lambda x: x
            yield 'scaled', geom * 2 - 1, lambda x: (x + 1) / 2
            # monotone nonlinear map per coordinate: forces the Newton path
            yield 'nonlinear', geom + geom**2 / 8, None
        cases = [('rect[3,2]', lambda: mesh.rectilinear([3, 2]), [3, 2]), ('rect[4]', lambda: mesh.rectilinear([4]), [4]), ('rect[2,2,2]', lambda: mesh.rectilinear([2, 2, 2]), [2, 2, 2]),
                 ('tri', lambda: mesh.unitsquare(2, 'triangle'), [1, 1]), ('mixed', lambda: mesh.unitsquare(2, 'mixed'), [1, 1])]
        for label, f, size in (cases if not self.quick else rng.sample(cases, 3)):
            topo, geom = f()
            nd = topo.ndims
            variants = [('full', topo)]
            try: variants.append(('refined', topo.refined))
            except Exception: pass
            try:
                keep = sorted(rng.sample(range(len(topo)), max(1, len(topo) - 1)))
                variants.append(('subset', topo.subset(topo.take(keep)) if hasattr(topo, 'subset') else topo.take(keep)))
            except Exception as e:
                self.c.count('locate-variant-skipped:' + type(e).__name__)
            for vname, t in variants:
                for gname, g, inv in geoms(t, geom):
                    npts = rng.randint(1, 6)
                    # targets: images of dyadic parametric points, some of them outside
                    par = [[Fraction(rng.randrange(0, 16 * s + 1), 16) for s in size] for _ in range(npts)]
                    outside = rng.random() < .3
                    if outside:
                        par[rng.randrange(npts)] = [Fraction(-3) - Fraction(rng.randrange(1, 16), 16) for s in size]
                    P = numpy.array([[float(v) for v in p] for p in par])
                    target = dict(affine=P, scaled=P * 2 - 1, nonlinear=P + P**2 / 8)[gname]
                    tol = rng.choice([1e-10, 1e-6, 1e-3])
                    skip = rng.random() < .3
                    kw = dict(tol=tol) if rng.random() < .7 else dict(eps=tol)
                    self.tick(ob); self.c.case(('locate', label, vname, gname, repr(par), repr(kw), skip), nontrivial=True)
                    replay = dict(label=label, variant=vname, geom=gname, targets=target.tolist(), kw=repr(kw), skip_missing=skip)
                    try:
                        smp = t.locate(g, target, skip_missing=skip, **kw)
                        res = ('ok', numpy.asarray(smp.eval(g)), numpy.asarray(smp.eval(t.f_index)))
                    except LocateError as e:
                        res = ('locate-error', str(e))
                    except Exception as e:
                        res = ('exc', type(e).__name__ + ': ' + str(e)[:200])
                    self.c.count('locate:%s:%s' % (gname, res[0]))
                    # which targets are inside the located topology (exact, parametric)?
                    def inside(p):
                        if not all(0 <= v <= s for v, s in zip(p, size)): return False
                        if vname != 'subset': return True
                        return None   # point may sit in the removed element: undecided here
                    ins = [inside(p) for p in par]
                    if res[0] == 'exc':
                        if res[1].startswith('IndexError') and skip and all(i is False for i in ins):
                            self.fail(ob, 'locate-no-point-located:indexerror', 'locate(skip_missing=True) raises IndexError instead of returning an empty sample when no target is located', replay)
                        else:
                            self.fail(ob, 'locate-raises-other', 'locate raises %s' % res[1], replay)
                        continue
                    if res[0] == 'locate-error':
                        # the property allows raising; a LocateError for targets inside the domain happens for points on shared edges of
                        # simplex elements when only `tol` is given (inside() is then tested with the size of the last Newton step): counted, not a violation
                        if all(i is True for i in ins): self.c.count('locate:error-although-inside')
                        continue
                    x = res[1]
                    if skip:
                        # the found points are a subsequence of the targets, in input order, each within tolerance
                        k = 0
                        for row, i_ in zip(target, ins):
                            if k < len(x) and numpy.abs(x[k] - row).max() <= self.loc_tol(kw, gname): k += 1
                            elif i_ is True: self.c.count('locate:skipped-although-inside')   # allowed by the property (boundary points, round-off)
                        if k != len(x):
                            self.fail(ob, 'locate-skip-missing-wrong', 'locate(skip_missing=True) returns points that are not the in-order subsequence of located targets', dict(replay, got=x.tolist()))
                        else: self.c.traces += 1
                        continue
                    if any(i is False for i in ins):
                        self.fail(ob, 'locate-accepts-outside-point', 'locate returns a sample although a target lies outside the topology', dict(replay, got=x.tolist())); continue
                    if x.shape != target.shape or numpy.abs(x - target).max() > self.loc_tol(kw, gname):
                        self.fail(ob, 'locate-wrong-points', 'locate returns points whose images are not the targets in input order within tolerance', dict(replay, got=x.tolist())); continue
                    self.c.traces += 1

    @staticmethod
    def loc_tol(kw, gname):
        # eps is a tolerance in element coordinates: the geometry maps used here stretch by less than 4
        return kw['tol'] if 'tol' in kw else kw['eps'] * 4

    # -------------------------------------------------------------- streams R5 / R6 (c11_hist.py)
    def subtopo_interfaces(self):
        from . import c11_hist
        c11_hist.SubtopoStream(self).run()

    def locate_histories(self):
        from . import c11_hist
        c11_hist.LocateHistories(self).run()

    # -------------------------------------------------------------- corpus: the recorded 4-D defect
    def known_tensor4d(self):
        """edges(edges(refined(edges(4-D tensor elements)))): TensorEdge.swapdown yields an Identity that swapup cannot swap back"""
        from nutils import element, transformseq as S, elementseq as E
        sig = 'lookup-own-element:swapdown-identity-not-swapped-back'
        L = element.LineReference(); R = E.References.from_iter
        s = S.IndexTransforms(4, 1); r = [L**4]
        s, r = s.edges(R(r, 4)), [e for x in r for e in x.edge_refs]
        s, r = s.refined(R(r, 3)), [c_ for x in r for c_ in x.child_refs]
        s, r = s.edges(R(r, 3)), [e for x in r for e in x.edge_refs]
        s, r = s.edges(R(r, 2)), [e for x in r for e in x.edge_refs]
        out = outcome(s.index, s[9])
        still = out != ('ok', 9)
        self.tick('explore:known-4d-lookup'); self.c.case(('known-4d',), nontrivial=True)
        entry = self.c.match_known(sig)
        if entry is not None:
            self.c.report_known_still_failing(entry, still)
        elif still:
            self.c.failing_input(sig, 'index_with_tail fails on own element 9 of edges(edges(refined(edges(IndexTransforms(4,1) of a tesseract)))): %r' % (out,),
                                 dict(op='known-4d', real=repr(out), chain=repr(s[9])))

    def search_after_broken_proof(self, name):
        self.c.broken_no_input('proof', name, dict(detail=name))
