"""C11 correspondence streams (see c11.py)."""
import itertools, numpy
from fractions import Fraction
from . import c11_extract as X
from .c11 import (fr, item_aff, compose, chain_aff, chain_flip, chain_dims_ok, ser_item, ser_chain, ser_seq, seq_shape, Unsupported,
                  ref_walk, dyadic_point, real_apply, sfr, saff)


def outcome(f, *a):
    """run real code; exceptions are outcomes"""
    try:
        return ('ok', f(*a))
    except ValueError:
        return ('err', 'value')
    except IndexError:
        return ('err', 'index')
    except Exception as e:
        return ('exc', type(e).__name__ + ': ' + str(e)[:100])


class Streams:

    def __init__(self, c, b):
        self.c = c; self.b = b; self.rng = c.rng
        self.quick = c.tier == 'quick'
        self.bad = {}      # obligation name -> count of disagreements
        self.n = {}        # obligation name -> number of comparisons
        self.refs = X.reference_kinds()

    # -------------------------------------------------------------- bookkeeping
    def tick(self, ob):
        self.n[ob] = self.n.get(ob, 0) + 1

    def disagree(self, ob, what, replay):
        """model and code differ, the specification oracle had no objection"""
        self.bad[ob] = self.bad.get(ob, 0) + 1
        self.c.broken_no_input(ob, what, replay)

    def fail(self, ob, sig, what, replay):
        """the real code violates the specification"""
        self.bad[ob] = self.bad.get(ob, 0) + 1
        self.c.failing_input(sig, what, replay)

    def finish(self):
        kinds = {'explore': 'exploration'}
        for ob in sorted(self.n):
            self.c.obligation(ob, self.bad.get(ob, 0) == 0, 'exploration' if ob.startswith('explore:') else 'correspondence', '%d comparisons' % self.n[ob])

    # -------------------------------------------------------------- stream A: items
    def all_items(self):
        seen = {}
        for name, ref in self.refs:
            for t in ref.child_transforms: seen.setdefault(t, name)
            if ref.ndims:
                for t in ref.edge_transforms: seen.setdefault(t, name)
        return seen

    def items(self):
        from nutils import transform as T
        items = dict(self.all_items())
        # add what swaps produce and flipped / inverted variants
        for t in list(items):
            if isinstance(t, T.Updim) and hasattr(t, 'flipped'):
                try: items.setdefault(t.flipped, 'flipped')
                except Exception: pass
        for name, ref in self.refs:
            for c_, cref in zip(ref.child_transforms, ref.child_refs):
                if not cref.ndims: continue
                for e in cref.edge_transforms:
                    sw = e.swapdown(c_)
                    if sw:
                        for t in sw: items.setdefault(t, 'swapdown:' + name)
        items.setdefault(T.Identity(2), 'identity'); items.setdefault(T.Index(3, -2), 'index')
        items.setdefault(T.Square(numpy.array([[2., 1.], [0., -.5]]), numpy.array([.5, 0.])), 'generic')
        items.setdefault(T.Updim(numpy.array([[2.], [-.5]]), numpy.array([.5, 0.]), True), 'generic')
        items.setdefault(T.Point(numpy.array([.5, .25])), 'point')
        for t, origin in items.items():
            def h(a, line, t=t, origin=origin):
                self.tick('corr:item-affine')
                lin, off, td, fd = item_aff(t)
                flip = bool(getattr(t, 'isflipped', False))
                want = '%d %d %d|%s' % (td, fd, flip, saff((lin, off, td, fd)))
                self.c.case(('item', line), nontrivial=True); self.c.count('item:' + type(t).__name__)
                if a != want:
                    self.disagree('corr:item-affine', 'model item %s has different dims/flip/matrix than the real %r' % (line, t), dict(op='item', request=line, model=a, real=want, origin=origin))
            self.b.add('item|' + ser_item(t), h)

    # -------------------------------------------------------------- stream B: swaps
    def check_swap_spec(self, direction, a, b, res, replay):
        """oracle: a swapped pair is the same affine map with the same orientation; returns True if fine"""
        if res is None: return True
        x, y = res
        ok = True
        try:
            A = chain_aff((a, b)); B = chain_aff((x, y))
        except AssertionError:
            A, B = 0, 1
        if A != B:
            self.fail('corr:swap', 'swap-changes-affine-map:' + direction, '%s of (%r, %r) gives (%r, %r): different affine map' % (direction, a, b, x, y), replay); ok = False
        elif chain_flip((a, b)) != chain_flip((x, y)):
            self.fail('corr:swap', 'swap-changes-orientation:' + direction, '%s of (%r, %r) gives (%r, %r): orientation flipped' % (direction, a, b, x, y), replay); ok = False
        return ok

    def swaps(self):
        from nutils import transform as T
        pairs = []   # (direction, a, b) in chain order
        for name, ref in self.refs:
            if ref.ndims:
                for e, eref in zip(ref.edge_transforms, ref.edge_refs):
                    for c_ in eref.child_transforms:
                        pairs.append(('swapup', e, c_, name))
            for c_, cref in zip(ref.child_transforms, ref.child_refs):
                if cref.ndims:
                    for e in cref.edge_transforms:
                        pairs.append(('swapdown', c_, e, name))
        # second generation: results of the first swaps swapped back, and ill-matched pairs
        extra = []
        for d, a, b, name in pairs:
            res = a.swapup(b) if d == 'swapup' else b.swapdown(a)
            if res:
                extra.append(('swapdown' if d == 'swapup' else 'swapup', res[0], res[1], name + ':back'))
        allitems = list(self.all_items())
        for _ in range(60 if self.quick else 600):
            a, b = self.rng.choice(allitems), self.rng.choice(allitems)
            extra.append((self.rng.choice(['swapup', 'swapdown']), a, b, 'random-pair'))
        for d, a, b, name in pairs + extra:
            def h(ans, line, d=d, a=a, b=b, name=name):
                self.tick('corr:swap')
                out = outcome(lambda: a.swapup(b) if d == 'swapup' else b.swapdown(a))
                replay = dict(op=d, a=repr(a), b=repr(b), request=line, model=ans, real=repr(out), origin=name)
                self.c.case((d, line), nontrivial=out[0] == 'ok' and out[1] is not None)
                self.c.count('%s:%s' % (d, 'exc' if out[0] != 'ok' else 'none' if out[1] is None else 'swapped'))
                if out[0] != 'ok':
                    return  # ill-typed random pair (e.g. IndexError in the swap table): outside the model
                res = out[1]
                if not self.check_swap_spec(d, a, b, res, replay): return
                if res is not None and name != 'random-pair':
                    # the two swaps invert each other (needed for lookups through boundaries of refinements)
                    back = outcome(lambda: res[1].swapdown(res[0]) if d == 'swapup' else res[0].swapup(res[1]))
                    if back != ('ok', (a, b)):
                        self.fail('corr:swap', 'swap-not-inverted:' + d, '%s of (%r, %r) is not undone by the opposite swap: %r' % (d, a, b, back), replay)
                        return
                want = 'none' if res is None else ser_item(res[0]) + '|' + ser_item(res[1])
                if ans != want:
                    self.disagree('corr:swap', 'model and code disagree on %s of (%r, %r)' % (d, a, b), dict(replay, want=want))
            try:
                self.b.add('%s|%s %s' % (d, ser_item(a), ser_item(b)), h)
            except Unsupported:
                pass

    # -------------------------------------------------------------- stream C: chains
    def random_chain(self, maxlen=7):
        from nutils import transform as T
        name, ref = self.rng.choice(self.refs)
        chain = ref_walk(self.rng, ref, self.rng.randint(0, maxlen), pedge=self.rng.choice([.2, .4, .6]))
        r = self.rng.random()
        if r < .3: chain = (T.Index(ref.ndims, self.rng.randrange(5)),) + chain
        elif r < .4: chain = (T.Index(ref.ndims, 0), T.Index(ref.ndims, 1)) + chain
        return name, ref, chain

    def scramble(self, chain):
        """apply random real swaps (either direction) to obtain an equivalent chain in arbitrary form"""
        items = list(chain)
        for _ in range(self.rng.randint(0, 8)):
            if len(items) < 2: break
            i = self.rng.randrange(len(items) - 1)
            sw = items[i].swapup(items[i+1]) or items[i+1].swapdown(items[i])
            if sw: items[i:i+2] = sw
        return tuple(items)

    def chains(self):
        from nutils import transform as T
        N = 150 if self.quick else 4000
        corpus = []
        L = self.refs[1][1]
        # hand-picked: two updims with children in between, ScaledUpdim round trip, empty and singleton chains
        sq = L * L
        corpus.append(('corpus', sq, (sq.edge_transforms[0], (L).child_transforms[1], L.edge_transforms[1])))
        corpus.append(('corpus', sq, ()))
        corpus.append(('corpus', sq, (sq.child_transforms[3],)))
        cases = corpus + [self.random_chain() for _ in range(N)]
        for name, ref, chain in cases:
            chain = self.scramble(chain)
            if not chain_dims_ok(chain): continue
            nd = self.rng.choice(sorted(set([t.fromdims for t in chain] + [ref.ndims]))) if chain else 0
            for op in ('canon', 'upper', 'promote', 'iscanon', 'app', 'chainaff'):
                if op == 'promote': line = 'promote|%d|%s' % (nd, ser_chain(chain))
                elif op == 'app':
                    x = dyadic_point(self.rng, chain[-1].fromdims if chain else ref.ndims)
                    line = 'app|%s|%s' % (ser_chain(chain), ' '.join(sfr(v) for v in x))
                else: line = '%s|%s' % (op, ser_chain(chain)); x = None
                def h(ans, line, op=op, chain=chain, nd=nd, x=x, name=name):
                    ob = 'corr:' + {'canon': 'canonical', 'upper': 'uppermost', 'promote': 'promote', 'iscanon': 'iscanonical', 'app': 'apply', 'chainaff': 'apply'}[op]
                    self.tick(ob)
                    self.c.case((op, line), nontrivial=len(chain) >= 2)
                    replay = dict(op=op, chain=repr(chain), ndims=nd, request=line, model=ans, ref=name)
                    if op in ('canon', 'upper', 'promote'):
                        f = dict(canon=T.canonical, upper=T.uppermost, promote=lambda ch: T.promote(ch, nd))[op]
                        out = outcome(f, chain)
                        replay['real'] = repr(out)
                        if out[0] != 'ok':
                            self.fail(ob, 'rewrite-raises:' + op, '%s raises %r on a well-formed chain %r' % (op, out[1], chain), replay); return
                        res = tuple(out[1])
                        self.c.count('%s:%s' % (op, 'changed' if res != tuple(chain) else 'unchanged'))
                        if not chain_dims_ok(res) or chain_aff(res, nd) != chain_aff(chain, nd):
                            self.fail(ob, 'rewrite-changes-affine-map:' + op, '%s(%r) = %r represents a different affine map' % (op, chain, res), replay); return
                        if chain_flip(res) != chain_flip(chain):
                            self.fail(ob, 'rewrite-changes-orientation:' + op, '%s(%r) = %r has the opposite orientation' % (op, chain, res), replay); return
                        if op == 'canon' and not T.iscanonical(res) and all(a.fromdims >= res[-1].fromdims for a in res):
                            # canonical() must leave no swappable (scale, updim) pair
                            self.fail(ob, 'canonical-not-canonical', 'canonical(%r) = %r is not iscanonical' % (chain, res), replay); return
                        want = ser_chain(res)
                    elif op == 'iscanon':
                        want = '%d' % T.iscanonical(chain)
                    elif op == 'app':
                        got = real_apply(chain, x)
                        A = chain_aff(chain, len(x))
                        spec = [sum(A[0][i][j] * x[j] for j in range(A[3])) + A[1][i] for i in range(A[2])]
                        if got != spec:
                            self.fail(ob, 'apply-differs-from-composition', 'transform.apply(%r, %r) differs from the composed affine map' % (chain, x), replay); return
                        want = ' '.join(sfr(v) for v in got)
                    else:
                        want = '%d|%s' % (chain_flip(chain), saff(chain_aff(chain, 0)))
                    if ans != want:
                        self.disagree(ob, 'model and code disagree on %s of %r' % (op, chain), dict(replay, want=want))
                try:
                    self.b.add(line, h)
                except Unsupported:
                    pass

    def sequences(self):
        pass

    def containers(self):
        pass

    def real_only(self):
        pass

    def search_after_broken_proof(self, name):
        self.c.broken_no_input('proof', name, dict(detail=name))
