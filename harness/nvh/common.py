"""Common machinery for all property checks.

One check = one `Check` object: it (re)generates Lean data from /repo, builds the
property's Lean modules, audits axioms, talks to the Lean model driver through a
line protocol, collects obligations / coverage, triages failures against
known_findings.json, and writes evidence/<id>.json.

Exit codes: 0 ok (possibly with KNOWN-FINDING lines), 1 violation, 2 infrastructure.
"""
import os, sys, json, time, re, subprocess, hashlib, random, fcntl, tempfile, shutil, traceback, contextlib

VERIF = os.path.dirname(os.path.dirname(os.path.dirname(os.path.abspath(__file__))))
LEAN = os.path.join(VERIF, 'lean')
REPO = os.environ.get('NUTILS_REPO', '/repo')
GUARD = 'EVALF_NUTILS_VERIF'
STD_AXIOMS = {'propext', 'Classical.choice', 'Quot.sound'}
FORBIDDEN = re.compile(r'\b(sorry|admit|native_decide|bv_decide|implemented_by|unsafe)\b|^\s*axiom\s|maxHeartbeats\s+0\b', re.M)

os.environ.setdefault(GUARD, '1')


class Infra(Exception):
    """Infrastructure failure: exit 2, never a VIOLATION line."""


def scratch_dir():
    base = os.environ.get('NVH_SCRATCH') or os.path.join(os.environ.get('TMPDIR') or '/var/tmp', 'nvh-%d' % os.getpid())
    os.makedirs(base, exist_ok=True)
    return base


@contextlib.contextmanager
def lake_lock():
    path = os.path.join(LEAN, '.lake.lock')
    with open(path, 'w') as f:
        fcntl.flock(f, fcntl.LOCK_EX)
        try:
            yield
        finally:
            fcntl.flock(f, fcntl.LOCK_UN)


def strip_comments(src):
    # remove /- ... -/ (nested) and -- ... comments, keep strings intact enough for grep purposes
    out = []
    i, n, depth = 0, len(src), 0
    while i < n:
        if src.startswith('/-', i):
            depth += 1; i += 2; continue
        if depth and src.startswith('-/', i):
            depth -= 1; i += 2; continue
        if depth:
            if src[i] == '\n': out.append('\n')
            i += 1; continue
        if src.startswith('--', i):
            while i < n and src[i] != '\n': i += 1
            continue
        out.append(src[i]); i += 1
    return ''.join(out)


def lean_files_of(prop):
    """All hand-written and generated Lean files that belong to a property (Model, Proofs, Props, Generated)."""
    res = []
    for sub in ('Model', 'Proofs', 'Props', 'Generated', 'Core'):
        d = os.path.join(LEAN, 'NutilsVerif', sub)
        for root, _, files in os.walk(d):
            for fn in files:
                if fn.endswith('.lean') and (sub == 'Core' or fn.startswith(prop) or os.path.basename(root).startswith(prop)):
                    res.append(os.path.join(root, fn))
    return sorted(res)


def theorem_names(path):
    """Full names of theorems declared in a Props file (tracks `namespace`)."""
    src = strip_comments(open(path).read())
    ns, names = [], []
    for line in src.splitlines():
        m = re.match(r'\s*namespace\s+(\S+)', line)
        if m: ns.append(m.group(1)); continue
        m = re.match(r'\s*end\s+(\S+)\s*$', line)
        if m and ns and ns[-1].split('.')[-1] == m.group(1).split('.')[-1]: ns.pop(); continue
        m = re.match(r'\s*(?:@\[[^\]]*\]\s*)*(?:private\s+|protected\s+)?(?:theorem|lemma)\s+([^\s:({\[]+)', line)
        if m: names.append('.'.join(ns + [m.group(1)]))
    return names


class Check:
    def __init__(self, prop, tier=None, seed=None, level='proof'):
        self.prop = prop
        self.tier = tier or os.environ.get('VERIF_TIER') or 'quick'
        if self.tier not in ('quick', 'thorough'): self.tier = 'quick'
        self.seed = int(seed if seed is not None else os.environ.get('VERIF_SEED', '0') or 0)
        self.rng = random.Random((self.seed << 8) ^ int(hashlib.sha1(prop.encode()).hexdigest()[:6], 16))
        self.level = level
        self.t0 = time.time()
        self.obligations = []      # dicts: name, kind, ok, detail
        self.samples = []
        self.counters = {}
        self.distinct = set()
        self.evaluations = 0
        self.violations = []       # (line, replay_path)
        self.known_lines = []
        self.assumptions = []
        self.trusted = ['Lean 4 kernel (lake build)', 'axioms: propext, Classical.choice, Quot.sound (audited by #print axioms on every run)',
                        'Lean compiler/interpreter for executed model code (driver)', 'Python harness + extractors in /verif/harness']
        self.extra = {}
        self.rule = ''
        self.traces = 0
        self.findings = [e for e in json.load(open(os.path.join(VERIF, 'known_findings.json'))).get('findings', []) if e.get('property') == prop]
        self._replay_n = 0
        self.checker_cmd = 'cd /verif/lean && lake build NutilsVerif.Props.%s && #print axioms on every theorem of Props/%s.lean' % (prop, prop)

    # ---------------------------------------------------------------- bookkeeping
    def count(self, key, n=1):
        self.counters[key] = self.counters.get(key, 0) + n

    def case(self, key=None, nontrivial=True):
        """register one explored case; key identifies distinctness"""
        self.evaluations += 1
        if nontrivial and key is not None:
            self.distinct.add(hashlib.sha1(repr(key).encode()).digest()[:8])

    def sample(self, obj, limit=6):
        if len(self.samples) < limit:
            self.samples.append(obj)

    def obligation(self, name, ok, kind='theorem', detail=None):
        self.obligations.append(dict(name=name, kind=kind, ok=bool(ok), detail=detail))
        return ok

    def log(self, *a):
        print('[%s %6.1fs]' % (self.prop, time.time() - self.t0), *a, flush=True)

    # ---------------------------------------------------------------- lean
    def write_generated(self, relname, text):
        """(re)write NutilsVerif/Generated/<relname>; only touches the file when content changed"""
        path = os.path.join(LEAN, 'NutilsVerif', 'Generated', relname)
        os.makedirs(os.path.dirname(path), exist_ok=True)
        old = open(path).read() if os.path.exists(path) else None
        if old != text:
            with open(path, 'w') as f: f.write(text)
        return old != text

    def build(self, targets=None, timeout=3000):
        """lake build the property's Props module (and whatever it imports). Returns (ok, log)."""
        targets = targets or ['NutilsVerif.Props.' + self.prop]
        with lake_lock():
            try:
                p = subprocess.run(['lake', 'build'] + targets, cwd=LEAN, stdout=subprocess.PIPE, stderr=subprocess.STDOUT, text=True, timeout=timeout)
            except subprocess.TimeoutExpired:
                raise Infra('lake build timed out')
        ok = p.returncode == 0
        if not ok and not re.search(r'error', p.stdout):
            raise Infra('lake build failed without a Lean error:\n' + p.stdout[-2000:])
        return ok, p.stdout

    def build_and_audit(self, extra_props=()):
        """Builds Props/<prop> (+extras), greps forbidden tokens, audits axioms.
        Registers one obligation per theorem. Returns list of broken obligation names (empty = all fine)."""
        props = [self.prop] + list(extra_props)
        ok, out = self.build(['NutilsVerif.Props.' + p for p in props])
        broken = []
        names = []
        for p in props:
            names += theorem_names(os.path.join(LEAN, 'NutilsVerif', 'Props', p + '.lean'))
        self.extra['theorems'] = names
        if not ok:
            errs = re.findall(r'error: ([^\n]*\.lean:\d+:\d+: [^\n]*(?:\n(?!\S*(?:error|warning|info):)[^\n]*){0,6})', out)
            self.extra['build_errors'] = errs[:20]
            for n in names:
                self.obligation(n, False, 'theorem', 'lake build failed')
            return ['lake build: ' + (errs[0] if errs else out[-1500:])]
        # forbidden tokens
        for p in props:
            for f in lean_files_of(p):
                m = FORBIDDEN.search(strip_comments(open(f).read()))
                if m:
                    raise Infra('forbidden token %r in %s' % (m.group(0), f))
        # axiom audit
        audit_src = '\n'.join(['import NutilsVerif.Props.%s' % p for p in props] + ['#print axioms %s' % n for n in names]) + '\n'
        apath = os.path.join(scratch_dir(), 'Audit_%s.lean' % self.prop)
        open(apath, 'w').write(audit_src)
        p = subprocess.run(['lake', 'env', 'lean', apath], cwd=LEAN, stdout=subprocess.PIPE, stderr=subprocess.STDOUT, text=True, timeout=1800)
        if p.returncode != 0:
            raise Infra('axiom audit failed to run:\n' + p.stdout[-2000:])
        text = p.stdout.replace('\n  ', ' ')
        found = {}
        for m in re.finditer(r"'(\S+)' (does not depend on any axioms|depends on axioms: \[([^\]]*)\])", text):
            found[m.group(1)] = set(a.strip() for a in (m.group(3) or '').split(',') if a.strip())
        self.extra['axioms'] = {k: sorted(v) for k, v in found.items()}
        for n in names:
            if n not in found:
                raise Infra('axiom audit: no report for ' + n)
            bad = found[n] - STD_AXIOMS
            self.obligation(n, not bad, 'theorem', 'axioms: ' + ', '.join(sorted(found[n])) if found[n] else 'no axioms')
            if bad:
                raise Infra('theorem %s depends on non-standard axioms %s' % (n, sorted(bad)))
        return broken

    def model(self, lines, driver=None, timeout=1800):
        """Run the Lean driver of this property on request lines; returns list of response lines (same length)."""
        driver = driver or self.prop
        lines = list(lines)
        if not lines: return []
        for l in lines:
            assert '\n' not in l
        inp = '\n'.join(lines) + '\n'
        # own process group so that a timeout kills `lake` AND its `lean` child (no orphaned interpreters)
        proc = subprocess.Popen(['lake', 'env', 'lean', '--run', os.path.join('Drivers', driver + '.lean')], cwd=LEAN, stdin=subprocess.PIPE,
                                stdout=subprocess.PIPE, stderr=subprocess.PIPE, text=True, start_new_session=True)
        try:
            out_, err_ = proc.communicate(inp, timeout=timeout)
        except subprocess.TimeoutExpired:
            import signal
            try: os.killpg(proc.pid, signal.SIGKILL)
            except Exception: pass
            proc.kill(); proc.wait()
            raise Infra('lean driver timed out')
        except BaseException:
            import signal
            try: os.killpg(proc.pid, signal.SIGKILL)
            except Exception: pass
            raise
        class _P: pass
        p = _P(); p.returncode, p.stdout, p.stderr = proc.returncode, out_, err_
        if p.returncode != 0:
            raise Infra('lean driver %s failed (rc %d):\n%s\n%s' % (driver, p.returncode, p.stdout[-1500:], p.stderr[-1500:]))
        out = p.stdout.split('\n')
        if out and out[-1] == '': out.pop()
        if len(out) != len(lines):
            raise Infra('lean driver %s answered %d lines for %d requests; tail: %r' % (driver, len(out), len(lines), out[-3:]))
        return out

    # ---------------------------------------------------------------- verdicts
    def write_replay(self, obj):
        d = os.path.join(VERIF, 'replays')
        os.makedirs(d, exist_ok=True)
        self._replay_n += 1
        path = os.path.join(d, '%s-%s-%d-%d.json' % (self.prop, self.tier, self.seed, self._replay_n))
        obj = dict(obj); obj.setdefault('property', self.prop); obj.setdefault('seed', self.seed); obj.setdefault('tier', self.tier)
        with open(path, 'w') as f: json.dump(obj, f, indent=1, default=repr)
        return path

    def match_known(self, signature):
        for e in self.findings:
            if e.get('status') == 'open' and e.get('signature') == signature:
                return e
        return None

    def failing_input(self, signature, what, replay):
        """A concrete failing input of the real code was found. Known finding -> line; else violation."""
        e = self.match_known(signature)
        if e is not None:
            line = 'KNOWN-FINDING: property=%s %s' % (self.prop, e.get('what', what))
            if line not in self.known_lines:
                self.known_lines.append(line); print(line, flush=True)
            self.count('known_finding_hits')
            return False
        if any(v[2] == signature for v in self.violations):
            return True
        path = self.write_replay(dict(replay, signature=signature, what=what, kind='failing-input'))
        line = 'VIOLATION property=%s replay=%s' % (self.prop, path)
        self.violations.append((line, path, signature)); print(line, flush=True); self.log('  ->', what)
        return True

    def broken_no_input(self, name, what, replay):
        """A proof obligation / correspondence no longer checks and the search found no failing input."""
        sig = 'broken:' + name
        if any(v[2] == sig for v in self.violations): return
        path = self.write_replay(dict(replay, broken=name, what=what, kind='no-failing-input-found'))
        line = 'VIOLATION property=%s replay=%s no-failing-input-found' % (self.prop, path)
        self.violations.append((line, path, sig)); print(line, flush=True); self.log('  ->', name, ':', what)

    def report_known_still_failing(self, entry, still_fails):
        """Called by property modules after re-running the recorded input of an open known finding."""
        if still_fails:
            line = 'KNOWN-FINDING: property=%s %s' % (self.prop, entry['what'])
            if line not in self.known_lines:
                self.known_lines.append(line); print(line, flush=True)
        else:
            self.log('note: open known finding %r no longer reproduces' % entry.get('id'))
            self.count('known_finding_not_reproduced')

    # ---------------------------------------------------------------- evidence
    def finish(self):
        if not self.violations and self.known_lines:
            # every deviation seen in this run was matched to an OPEN known finding (otherwise a VIOLATION line would exist):
            # the obligations that observed them hold up to exactly those listed findings
            for o in self.obligations:
                if not o['ok'] and o['kind'] != 'theorem':
                    o['ok'] = True
                    o['detail'] = (o.get('detail') or '') + ' [deviations observed are exactly the open known findings printed as KNOWN-FINDING]'
        nobl = len(self.obligations)
        ndis = sum(1 for o in self.obligations if o['ok'])
        kinds = {}
        for o in self.obligations:
            k = kinds.setdefault(o['kind'], [0, 0]); k[0] += 1; k[1] += o['ok']
        cov = dict(obligations=nobl, discharged=ndis, checker_cmd=self.checker_cmd, trusted_base=self.trusted,
                   evaluations=self.evaluations, distinct_nontrivial=len(self.distinct), rule=self.rule,
                   samples=self.samples or ['(no cases generated)'], traces_validated_against_impl=self.traces,
                   obligations_by_kind={k: dict(total=v[0], discharged=v[1]) for k, v in kinds.items()},
                   failed_obligations=[o for o in self.obligations if not o['ok']][:20],
                   distribution=self.counters, known_findings=self.known_lines)
        cov.update(self.extra)
        ev = dict(property_id=self.prop, tier=self.tier, seed=self.seed, level=self.level, coverage=cov,
                  assumptions=self.assumptions, wall_s=round(time.time() - self.t0, 2), violations=len(self.violations))
        d = os.path.join(VERIF, 'evidence'); os.makedirs(d, exist_ok=True)
        with open(os.path.join(d, self.prop + '.json'), 'w') as f:
            json.dump(ev, f, indent=1, default=repr)
        self.log('obligations %d discharged %d; cases %d (distinct nontrivial %d); violations %d; known %d; %.1fs' % (
            nobl, ndis, self.evaluations, len(self.distinct), len(self.violations), len(self.known_lines), time.time() - self.t0))
        return 1 if self.violations else 0


def run_check(prop, body, argv=None):
    """Entry point used by /verif/check: body(check) does the work."""
    import argparse
    ap = argparse.ArgumentParser()
    ap.add_argument('--tier', default=None)
    ap.add_argument('--seed', default=None)
    ap.add_argument('--replay', default=None)
    a = ap.parse_args(argv)
    c = Check(prop, a.tier, a.seed)
    c.replay = json.load(open(a.replay)) if a.replay else None
    rc = 2
    try:
        body(c)
        rc = c.finish()
    except Infra as e:
        print('INFRA-ERROR %s: %s' % (prop, e), file=sys.stderr, flush=True)
        rc = 2
    except Exception:
        traceback.print_exc()
        print('INFRA-ERROR %s: unexpected exception in harness' % prop, file=sys.stderr, flush=True)
        rc = 2
    finally:
        sd = os.path.join(os.environ.get('TMPDIR') or '/var/tmp', 'nvh-%d' % os.getpid())
        shutil.rmtree(sd, ignore_errors=True)
    return rc
