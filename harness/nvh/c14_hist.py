"""C14 — operation histories on ONE Matrix object.

`Matrix.solve` gets its reduced system from `Matrix.submatrix`, which remembers the last extracted block and the two
masks it was built from.  A solve may therefore depend on what was asked of the same object before.  This stream
generates histories (3-8 steps) on one object that mix every way of stating the selection

  * `constrain` boolean / NaN-float / absent, `lhs0` present / absent, right-hand side present / absent / two columns,
  * `rconstrain` absent (rows ARE the column mask object), the very same array object as `constrain`, an equal-valued
    copy, or a different mask,
  * direct `submatrix(rows, cols)` calls with boolean masks (one object for both, or two) or integer index arrays,
  * masks drawn from a small pool shared by rows and columns, and steps *related* to the previous one (its rows become
    the columns, rows and columns swapped, same rows / other columns, ...), so that successive requests agree in one
    mask and differ in the other,

and checks every step on its own:
  (oracle)  constrained entries exactly the prescribed values, all numbers finite, free-row residual of the FULL matrix
            (exact, Fractions) within the requested tolerance / at machine precision for non-singular integer blocks;
  (corr)    what `submatrix` handed out (the object itself / remembered block / fresh extraction, and the block's
            entries) equals the Lean model `submatrixM` threaded through the history (`Props/C14.lean:
            solve_history_independent`, `submatrix_history_spec`, `submatrix_hit_iff`), and the outcome equals that of
            the same step on a fresh Matrix object.
"""
import math
from fractions import Fraction as Fr
import numpy

EPS = 2.220446049250313e-16
TOLS = [(0., 0.), (0., 0.), (1e-9, 0.), (1e-9, 0.), (0., 1e-9), (1e-6, 1e-6)]


def _mask(n, free):
    m = numpy.zeros(n, dtype=bool); m[list(free)] = True
    return m


def gen_history(rng):
    """returns dict(A, nr, nc, how, steps); masks in the steps are FREE masks (True = kept row / column)"""
    nr = rng.choice([2, 3, 3, 4, 4, 5])
    square = rng.random() < .8
    nc = nr if square else rng.choice([m for m in (nr - 1, nr + 1) if 1 <= m <= 5])
    A = [[rng.choice([-3, -2, -1, 0, 1, 1, 2, 3, 4]) for _ in range(nc)] for _ in range(nr)]
    if rng.random() < .6:
        for i in range(min(nr, nc)): A[i][i] += rng.choice([6, 7, -7, 9])
    lo = min(nr, nc)
    k = rng.randint(1, lo) if rng.random() < .85 else lo
    def pool(n):
        res = []
        for _ in range(rng.choice([2, 2, 3])):
            res.append(_mask(n, rng.sample(range(n), k)))
        r = rng.random()
        if r < .12 and k > 1: res.append(_mask(n, rng.sample(range(n), k - 1)))        # other size: non-square block
        elif r < .2: res.append(_mask(n, range(n)))                                     # everything free
        elif r < .25: res.append(_mask(n, []))                                          # nothing free
        return res
    rpool = pool(nr)
    cpool = rpool if square else pool(nc)
    steps = []
    prev = None         # (rows, cols) free masks of the previous submatrix-reaching step
    for _ in range(rng.randint(3, 8)):
        rows = rng.choice(rpool); cols = rng.choice(cpool)
        if prev is not None and rng.random() < .45:
            rel = rng.choice(['rows->cols', 'cols->rows', 'swap', 'same-rows', 'same-cols', 'same'])
            pr, pc = prev
            if rel == 'rows->cols' and len(pr) == nc: cols = pr
            elif rel == 'cols->rows' and len(pc) == nr: rows = pc
            elif rel == 'swap' and square: rows, cols = pc, pr
            elif rel == 'same-rows': rows = pr
            elif rel == 'same-cols': cols = pc
            elif rel == 'same': rows, cols = pr, pc
        kind = rng.choice(['solve'] * 7 + ['sub'] * 2)
        if kind == 'sub':
            form = rng.choice(['bool', 'bool', 'int', 'mixed'])
            same = square and rng.random() < .5           # ONE array object for rows and columns
            if same: rows = cols
            steps.append(dict(op='sub', rows=rows, cols=cols, form=form, same=same))
            prev = (rows, cols)
            continue
        ctype = rng.choice(['bool', 'bool', 'bool', 'float', 'float', 'none'])
        if not square and rng.random() < .85: ctype = 'bool'
        if ctype == 'bool':
            rmode = rng.choice(['none', 'none', 'same-object', 'copy', 'other', 'other', 'other']) if square else rng.choice(['other'] * 6 + ['none'])
        else:
            rmode = rng.choice(['none'] * 7 + ['other'])  # 'other' with float / absent constrain: rejected before any selection
        if ctype == 'none': cols = _mask(nc, range(nc))
        if rmode in ('none', 'same-object', 'copy'): rows = cols
        lhs0 = None if rng.random() < (.5 if ctype != 'none' else .25) else [float(rng.choice([-2, -1, 0, 1, 2, 3, .5])) for _ in range(nc)]
        vals = [float(rng.choice([-2, -1, 0, 1, 2, .25])) for _ in range(nc)]
        r = rng.random()
        ncol = 2 if r < .12 else None
        rhs = None if r > .92 else [[float(rng.choice([-3, -2, -1, 0, 1, 2, 4])) for _ in range(ncol or 1)] for _ in range(nr)]
        atol, rtol = rng.choice(TOLS)
        steps.append(dict(op='solve', rows=rows, cols=cols, ctype=ctype, rmode=rmode, lhs0=lhs0, vals=vals, rhs=rhs, ncol=ncol, atol=atol, rtol=rtol,
                          solver=rng.choice(['direct', 'direct', 'arnoldi']), lenient=rng.random() < .1))
        if not (ctype == 'none' and lhs0 is None and rmode == 'none') and not (rmode == 'other' and ctype != 'bool') and not (rmode == 'none' and not square):
            prev = (rows, cols)
    return dict(A=A, nr=nr, nc=nc, how=rng.choice(['csr', 'coo', 'block']), steps=steps)


def step_kwargs(st, nr, nc):
    """the keyword arguments of Matrix.solve for a solve step (fresh arrays on every call; `rconstrain is constrain` for rmode same-object)"""
    kw = {}
    if st['lhs0'] is not None: kw['lhs0'] = numpy.array(st['lhs0'])
    if st['ctype'] == 'bool': kw['constrain'] = ~st['cols']
    elif st['ctype'] == 'float': kw['constrain'] = numpy.where(st['cols'], math.nan, numpy.array(st['vals']))
    if st['rmode'] == 'same-object': kw['rconstrain'] = kw['constrain']
    elif st['rmode'] == 'copy': kw['rconstrain'] = kw['constrain'].copy()
    elif st['rmode'] == 'other': kw['rconstrain'] = ~st['rows']
    rhs = None
    if st['rhs'] is not None:
        rhs = numpy.array(st['rhs'])
        if st['ncol'] is None: rhs = rhs[:, 0]
    return rhs, kw


def step_request(st):
    from .c14 import fmask, fcons
    if st['op'] == 'sub':
        return 'X,%s,%s' % (fmask(st['rows']), fmask(st['cols']))
    _, kw = step_kwargs(st, None, None)
    return 'S,%d,%d,%s,%s' % (st['rhs'] is not None, st['lhs0'] is not None, fcons(kw.get('constrain')), 'none' if 'rconstrain' not in kw else fmask(kw['rconstrain']))


def step_text(st):
    d = {k: (v.astype(int).tolist() if isinstance(v, numpy.ndarray) else v) for k, v in st.items()}
    return d


class Probe:
    """instruments ONE Matrix object: logs how every `submatrix` request was served and the block that was handed out"""

    def __init__(self, M):
        self.M = M; self.log = []; self.nextract = 0
        sub, ext = M.submatrix, M._submatrix
        def _submatrix(rows, cols):
            self.nextract += 1
            return ext(rows, cols)
        def submatrix(rows, cols):
            n0 = self.nextract
            r = sub(rows, cols)
            self.log.append(('self' if r is M else 'miss' if self.nextract > n0 else 'hit', numpy.array(r.export('dense'), dtype=float)))
            return r
        M._submatrix = _submatrix; M.submatrix = submatrix


def run_step(M, st, nr, nc, matrix, quiet):
    """performs one step on Matrix object M; returns (outcome, value) with outcome in returned / MatrixError / ToleranceNotReached / AssertionError / <other name>"""
    try:
        with quiet():
            if st['op'] == 'sub':
                rows, cols = st['rows'].copy(), st['cols'].copy()
                if st['same']: cols = rows
                if st['form'] in ('int', 'mixed'): rows = rows.nonzero()[0]
                if st['form'] == 'int': cols = cols.nonzero()[0]
                return 'returned', numpy.array(M.submatrix(rows, cols).export('dense'), dtype=float)
            rhs, kw = step_kwargs(st, nr, nc)
            args = dict(solver=st['solver'], atol=st['atol'], rtol=st['rtol'])
            return 'returned', (M.solve_leniently if st['lenient'] else M.solve)(rhs, **args, **kw)
    except matrix.ToleranceNotReached as e:
        return 'ToleranceNotReached', e.best
    except matrix.MatrixError as e:
        return 'MatrixError', str(e)
    except Exception as e:
        return type(e).__name__, str(e)


def fr_det(B):
    B = [[Fr(v) for v in row] for row in B]
    n = len(B); d = Fr(1)
    for i in range(n):
        p = next((r for r in range(i, n) if B[r][i] != 0), None)
        if p is None: return Fr(0)
        if p != i: B[i], B[p] = B[p], B[i]; d = -d
        d *= B[i][i]
        for r in range(i + 1, n):
            f = B[r][i] / B[i][i]
            if f: B[r] = [a - f * b for a, b in zip(B[r], B[i])]
    return d


ARNOLDI_COLUMNS = 'arnoldi:zero-residual-column-stops-all-columns'


def spec_solve(c, h, k, st, out, x, replay, matrix=None, quiet=None):
    """the property oracle for ONE solve step, independent of the history.  Returns True when a failing input was reported."""
    v = verdict_solve(c, h, k, st, out, x)
    if v is None:
        return False
    sig, what = v
    if matrix is not None and st.get('ncol') and sig.startswith('matrix-solver:') and st['solver'] == 'arnoldi':
        # root cause: is it the coupling of the right-hand-side columns?  every column alone, on a fresh object, is certified
        class Fixed:
            def choice(self, seq): return h['how']
        from .c14 import mk_matrix
        fresh = lambda: mk_matrix(matrix, numpy.array(h['A'], dtype=float), Fixed())
        o0, x0 = run_step(fresh(), st, h['nr'], h['nc'], matrix, quiet)
        alone = [verdict_solve(c, h, k, st, o0, x0) is not None]       # not an effect of the history: a fresh object fails alike
        for q in range(st['ncol']):
            st1 = dict(st, ncol=None, rhs=None if st['rhs'] is None else [[row[q]] for row in st['rhs']])
            o1, x1 = run_step(fresh(), st1, h['nr'], h['nc'], matrix, quiet)
            alone.append(o1 == 'returned' and verdict_solve(c, h, k, st1, o1, x1) is None)
        if all(alone):
            sig = ARNOLDI_COLUMNS
            what += ' (each right-hand-side column alone is solved correctly: one column with an exactly zero residual stops the Krylov iteration of all columns)'
            replay = dict(replay, minimal="assemble_csr([2.,1.,1.,3.],[0,2,4],[0,1,0,1],2).solve(array([[0.,2.],[0.,1.]])) -> zeros")
    return c.failing_input(sig, what, replay) or True


def verdict_solve(c, h, k, st, out, x):
    """(signature, text) when the outcome of the solve step violates the property, else None"""
    from .c14 import fr_residual, nsq
    A = numpy.array(h['A'], dtype=float); nr, nc = h['nr'], h['nc']
    if out not in ('returned', 'ToleranceNotReached'):
        if out not in ('MatrixError', 'AssertionError', 'AttributeError'):
            return ('matrix-solve:foreign-exception:' + out, 'Matrix.solve (step %d of a history on one object) raised %s instead of a matrix error' % (k, out))
        return None
    x = numpy.asarray(x, dtype=float)
    ncol = st['ncol']
    shape = (nc,) if ncol is None else (nc, ncol)
    if x.shape != shape:
        return None        # unexpected shapes are not judged here
    lhs = numpy.zeros(shape) if st['lhs0'] is None else (numpy.array(st['lhs0']) if ncol is None else numpy.repeat(numpy.array(st['lhs0'])[:, None], ncol, 1))
    J = st['cols']; I = st['rows']; pres = {}
    if st['ctype'] == 'bool': pres = {j: lhs[j] for j in range(nc) if not J[j]}
    elif st['ctype'] == 'float':
        pres = {j: st['vals'][j] for j in range(nc) if not J[j]}
        for j, v in pres.items(): lhs[j] = v
    what = 'Matrix.solve_leniently' if st['lenient'] else 'Matrix.solve'
    pre = '%s, step %d of a history on ONE Matrix object, ' % (what, k)
    if not numpy.isfinite(x).all():
        return ('matrix-solver:nonfinite-returned', pre + 'returned non-finite entries')
    if any(not numpy.array_equal(x[j], numpy.broadcast_to(v, x[j].shape)) for j, v in pres.items()):
        sig = 'matrix-solve:constraint-violated' if out == 'returned' else 'matrix-solve:best-constraint-violated'
        return (sig, pre + 'constrained entries differ from the prescribed values')
    if out != 'returned' or st['lenient']:
        return None
    rhs = numpy.zeros((nr,) + shape[1:]) if st['rhs'] is None else (numpy.array(st['rhs']) if ncol is not None else numpy.array(st['rhs'])[:, 0])
    cols = [None] if ncol is None else range(ncol)
    col = lambda v, q: v if q is None else v[:, q]
    r0n = max(math.sqrt(float(nsq([r for r, i in zip(fr_residual(A, col(lhs, q), col(rhs, q)), I) if i]))) for q in cols)
    r1n = max(math.sqrt(float(nsq([r for r, i in zip(fr_residual(A, col(x, q), col(rhs, q)), I) if i]))) for q in cols)
    tol = max(st['atol'], st['rtol'] * r0n)
    slack = 64 * max(nr, nc) * EPS * (numpy.linalg.norm(A) * (numpy.linalg.norm(x) + numpy.linalg.norm(lhs)) + numpy.linalg.norm(rhs))
    if tol > 0:
        c.count('history-mode:checked')
        if r1n > tol * (1 + 1e-9) + slack:
            return ('matrix-solver:tolerance-violated', pre + 'returned a vector whose free-row residual %.3e (full matrix, exact) exceeds the requested tolerance %.3e' % (r1n, tol))
    else:
        B = [[h['A'][i][j] for j in range(nc) if J[j]] for i in range(nr) if I[i]]
        if B and len(B) == len(B[0]) and fr_det(B) != 0:
            # integer block, |det| >= 1: the condition number is bounded (entries <= 13, size <= 5), machine precision is attainable
            c.count('history-mode:machine-precision')
            if r1n > 1e-7 * (1 + r0n) + 16 * slack:
                return ('matrix-solver:machine-precision-missed', pre + 'non-singular integer system solved with atol=rtol=0 has free-row residual %.3e (relative %.3e)' % (r1n, r1n / (1 + r0n)))
        else:
            c.count('history-mode:documented-unchecked')
    return None


def search_failing_solve(c, h, k, matrix, quiet, replay):
    """after a disagreement at step k: replay the prefix on a fresh object and ask, in every way `Matrix.solve` can state it, for a
    CHECKED solve on the selection of step k; the oracle decides.  Returns True when a failing input was reported."""
    from .c14 import mk_matrix
    st = h['steps'][k]
    rows, cols = st['rows'], st['cols']
    nr, nc = h['nr'], h['nc']
    if len(rows) != nr or len(cols) != nc or rows.sum() != cols.sum() or not rows.sum():
        return False
    variants = [('bool', 'other'), ('bool', 'other')] if not numpy.array_equal(rows, cols) or nr != nc else [('bool', 'none'), ('float', 'none'), ('bool', 'same-object'), ('bool', 'copy'), ('bool', 'other')]
    class Fixed:
        def choice(self, seq): return h['how']
    for i, (ctype, rmode) in enumerate(variants):
        M = mk_matrix(matrix, numpy.array(h['A'], dtype=float), Fixed())
        for prev in h['steps'][:k]:
            run_step(M, prev, nr, nc, matrix, quiet)
        probe = dict(op='solve', rows=cols if rmode != 'other' else rows, cols=cols, ctype=ctype, rmode=rmode, lhs0=[1.] * nc if i % 2 else None, vals=[.5] * nc,
                     rhs=[[float(1 + (q * q) % 5)] for q in range(nr)], ncol=None, atol=1e-9, rtol=0., solver='direct', lenient=False)
        out, x = run_step(M, probe, nr, nc, matrix, quiet)
        c.count('history-search:solves')
        if spec_solve(c, dict(h, steps=h['steps'][:k] + [probe]), k, probe, out, x, dict(replay, searched_step=step_text(probe), outcome=out, value=x.tolist() if isinstance(x, numpy.ndarray) else x)):
            return True
    return False


def stream_history(c, N, matrix):
    """generator stream for c14.run_streams"""
    from .c14 import mk_matrix, fmat, quiet
    rng = c.rng
    hists = [gen_history(rng) for _ in range(N)]
    ans = yield ['hist|%s|%d|%d|%s' % (fmat(h['A']), h['nr'], h['nc'], '&'.join(step_request(st) for st in h['steps'])) for h in hists]
    nbad = 0; pending = []
    class Fixed:            # mk_matrix with a fixed assembly route
        def __init__(self, how): self.how = how
        def choice(self, seq): return self.how
    for h, a in zip(hists, ans):
        nr, nc = h['nr'], h['nc']
        A = numpy.array(h['A'], dtype=float)
        M = mk_matrix(matrix, A, Fixed(h['how']))
        probe = Probe(M)
        model = a.split('&')
        replay_base = dict(op='history on one Matrix object', A=h['A'], assembled=h['how'], steps=[step_text(st) for st in h['steps']], model=a)
        if len(model) != len(h['steps']):
            pending.append(('corr:Matrix.submatrix:history', 'model answer malformed: %r' % a[:200], replay_base)); continue
        failed = False; trace = []
        for k, (st, m) in enumerate(zip(h['steps'], model)):
            n0 = len(probe.log)
            out, x = run_step(M, st, nr, nc, matrix, quiet)
            served = probe.log[n0:]
            real = 'nocall' if not served else served[-1][0] if served[-1][0] == 'self' else '%s:%s' % (served[-1][0], fmat(served[-1][1]))
            trace.append(dict(step=k, outcome=out, submatrix=real.split(':')[0]))
            pat = st['op'] if st['op'] == 'sub' else 'solve:%s%s:r=%s' % (st['ctype'], '+lhs0' if st['lhs0'] is not None else '', st['rmode'])
            c.count('history-step:' + pat); c.count('history-served:' + real.split(':')[0]); c.count('history-outcome:' + out)
            c.case(('history', fmat(h['A']), k, repr([step_text(s) for s in h['steps'][:k + 1]])), nontrivial=True)
            replay = dict(replay_base, failing_step=k, outcome=out, value=x.tolist() if isinstance(x, numpy.ndarray) else x, served=real, trace=trace)
            # ---- oracle
            if st['op'] == 'solve':
                if spec_solve(c, h, k, st, out, x, replay, matrix, quiet):
                    nbad += 1; failed = True; break
            # ---- correspondence with the Lean cache model
            good = len(served) <= 1 and real == m
            if st['op'] == 'sub' and out == 'returned':
                good = good and numpy.array_equal(x, A[numpy.ix_(st['rows'], st['cols'])])
            if not good:
                pending.append(('corr:Matrix.submatrix:history', 'step %d: submatrix served %s, the model says %s' % (k, real[:80], m[:80]), replay))
                # search for a failing input: the same prefix on a fresh object, then a CHECKED solve on the selection of this step
                if search_failing_solve(c, h, k, matrix, quiet, replay):
                    nbad += 1; failed = True; break
            # ---- the same step on a fresh object
            if st['op'] == 'solve':
                out2, x2 = run_step(mk_matrix(matrix, A, Fixed(h['how'])), st, nr, nc, matrix, quiet)
                same = out2 == out and (not isinstance(x, numpy.ndarray) or (isinstance(x2, numpy.ndarray) and x.shape == x2.shape and
                                        numpy.allclose(x, x2, rtol=1e-9, atol=1e-12 * (1 + numpy.abs(x2).max(initial=0.)), equal_nan=True)))
                if not same:
                    pending.append(('corr:Matrix.solve:history', 'step %d: outcome %s differs from that of a fresh Matrix object (%s)' % (k, out, out2),
                                    dict(replay, fresh_outcome=out2, fresh_value=x2.tolist() if isinstance(x2, numpy.ndarray) else x2)))
        c.sample(dict(op='history', A=h['A'], steps=[step_request(st) for st in h['steps']], model=a, trace=trace), limit=10)
        if not failed: c.traces += 1
    if pending and not nbad:     # disagreements for which neither the continued histories nor the targeted search produced a failing input
        for name, what, replay in pending[:3]:
            c.broken_no_input(name, what, replay)
    ndis = len(pending)
    c.obligation('oracle:history-on-one-matrix-object', nbad == 0, 'exploration', '%d histories, every solve certified independently (exact residual of the full matrix)' % N)
    c.obligation('corr:Matrix.submatrix:history', ndis == 0, 'correspondence', '%d histories vs Lean submatrixM (served-by, block entries) and vs fresh objects' % N)
