"""Numeric reading of the canonical polynomial keys printed by Core/Poly.lean (`Poly.key`).

Only used for *supporting* comparisons with a tolerance (values that are not exactly representable as
floats, or that contain uninterpreted transcendental atoms); exact verdicts never go through here.
"""
import math
from fractions import Fraction

FUNCS = {
    'sin': math.sin, 'cos': math.cos, 'tan': math.tan, 'exp': math.exp, 'log': math.log, 'arcsin': math.asin, 'arccos': math.acos,
    'arctan': math.atan, 'sinh': math.sinh, 'cosh': math.cosh, 'tanh': math.tanh, 'arctanh': math.atanh, 'sqrt': math.sqrt,
    'abs': abs, 'sign': lambda x: (x > 0) - (x < 0), 'inv': lambda x: 1 / x, 'min': min, 'max': max,
    'less': lambda x, y: float(x < y), 'greater': lambda x, y: float(x > y), 'equal': lambda x, y: float(x == y),
    'not': lambda x: float(x == 0), 'floor': math.floor, 'fdiv': lambda x, y: math.floor(x / y), 'fmod': lambda x, y: x - y * math.floor(x / y),
    'pow': lambda x, y: math.pow(x, y), 'arctan2': math.atan2,
}


def split_top(s, sep):
    parts, depth, cur = [], 0, []
    for ch in s:
        if ch in '([':
            depth += 1
        elif ch in ')]':
            depth -= 1
        if ch == sep and depth == 0:
            parts.append(''.join(cur)); cur = []
        else:
            cur.append(ch)
    parts.append(''.join(cur))
    return parts


def to_float(key, env=None):
    """env: optional dict 'name[i,j]' -> float for argument atoms"""
    total = 0.
    for term in split_top(key, '+'):
        factors = split_top(term, '*')
        val = float(Fraction(factors[0]))
        for f in factors[1:]:
            val *= atom_pow(f, env)
        total += val
    return total


def atom_pow(f, env):
    # atom or atom^n, where ^n is at top level at the very end
    depth = 0
    cut = None
    for i, ch in enumerate(f):
        if ch in '([':
            depth += 1
        elif ch in ')]':
            depth -= 1
        elif ch == '^' and depth == 0:
            cut = i
    if cut is not None:
        return atom(f[:cut], env) ** int(f[cut+1:])
    return atom(f, env)


def atom(a, env):
    if a.endswith(']'):
        if env is None or a not in env:
            raise KeyError(a)
        return env[a]
    name, rest = a.split('(', 1)
    args = [to_float(x, env) for x in split_top(rest[:-1], ',')]
    if name.startswith('sinc'):
        n = int(name[4:]); x = args[0]
        raise KeyError('sinc')
    return FUNCS[name](*args)


def close(a, b, rtol=1e-11, atol=1e-12):
    return abs(a - b) <= atol + rtol * max(abs(a), abs(b))
