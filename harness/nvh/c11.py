"""C11 — element lookup and coordinate maps are consistent.

Ties
 (X) `c11_extract`: affine tables of SimplexChild / SimplexEdge, `SimplexEdge.swap`, and every child / edge transform of every
     reference kind are regenerated from the real classes into `Generated/C11*.lean`; `Props/C11.lean` re-proves soundness of
     the tables (swap pairs compose to the same affine map and orientation, swapdown inverts swapup, children tile).
 (M) the real `nutils.transform` / `nutils.transformseq` code is run on generated items, chains and sequence nestings (real
     topology operations and synthetic ones) and compared with the Lean model (`Model/C11.lean`) through the line protocol.
 The *specification oracle* for failing inputs never uses the model: affine maps of chains are recomputed exactly with
 Fractions; lookups must return the element index and a remainder with the same affine map.
"""
import itertools, numpy, traceback
from fractions import Fraction
from .common import Infra
from . import c11_extract as X

# ---------------------------------------------------------------- exact affine maps (oracle)


def fr(x):
    return Fraction(float(x))


def item_aff(t):
    """(linear rows, offset) of a real transform item, exact"""
    lin = [[fr(v) for v in row] for row in numpy.asarray(t.linear)]
    off = [fr(v) for v in numpy.asarray(t.offset)]
    if not lin and t.todims:  # cannot happen: linear has todims rows
        lin = [[] for _ in range(t.todims)]
    return lin, off, t.todims, t.fromdims


def compose(A, B):
    """A after B: x -> A(B(x))"""
    la, oa, tda, fda = A
    lb, ob, tdb, fdb = B
    assert fda == tdb, 'dimension mismatch in chain'
    lin = [[sum(la[i][k] * lb[k][j] for k in range(fda)) for j in range(fdb)] for i in range(tda)]
    off = [sum(la[i][k] * ob[k] for k in range(fda)) + oa[i] for i in range(tda)]
    return lin, off, tda, fdb


def chain_aff(chain, fromdims=None):
    """exact affine map of a chain; for the empty chain the identity on `fromdims`"""
    if not chain:
        n = fromdims or 0
        return [[Fraction(int(i == j)) for j in range(n)] for i in range(n)], [Fraction(0)] * n, n, n
    A = item_aff(chain[0])
    for t in chain[1:]:
        A = compose(A, item_aff(t))
    return A


def chain_flip(chain):
    f = False
    for t in chain:
        f ^= bool(t.isflipped) if hasattr(t, 'isflipped') else False
    return f


def chain_dims_ok(chain):
    return all(a.fromdims == b.todims for a, b in zip(chain, chain[1:]))


# ---------------------------------------------------------------- protocol serialisation

def srat(x):
    f = fr(x)
    return '%d' % f.numerator if f.denominator == 1 else '%d/%d' % (f.numerator, f.denominator)


def smat(t):
    lin = numpy.asarray(t.linear); off = numpy.asarray(t.offset)
    return ' '.join(['%d %d' % lin.shape] + [srat(v) for v in lin.ravel()] + [srat(v) for v in off])


def ser_item(t):
    from nutils import transform as T
    ty = type(t)
    if ty is T.Identity: return 'I %d' % t.fromdims
    if ty is T.Index: return 'X %d %d' % (t.fromdims, t.index)
    if ty is T.SimplexChild: return 'C %d %d' % (t.fromdims, t.ichild)
    if ty is T.TensorChild: return 'TC %s %s' % (ser_item(t.trans1), ser_item(t.trans2))
    if ty is T.Square: return 'GS ' + smat(t)
    if ty is T.SimplexEdge: return 'E %d %d %d' % (t.todims, t.iedge, t.inverted)
    if ty is T.TensorEdge1: return 'T1 %s %d' % (ser_item(t.trans), t.fromdims - t.trans.fromdims)
    if ty is T.TensorEdge2: return 'T2 %d %s' % (t.fromdims - t.trans.fromdims, ser_item(t.trans))
    if ty is T.ScaledUpdim: return 'SU %s %s' % (ser_item(t.trans1), ser_item(t.trans2))
    if ty is T.Updim: return 'GU %s %d' % (smat(t), t.isflipped)
    if ty in (T.Matrix, T.Point): return 'M %d %s' % (t.fromdims, smat(t))
    raise Unsupported('transform item type ' + ty.__name__)


class Unsupported(Exception):
    pass


def ser_chain(ch):
    return ' '.join(['%d' % len(ch)] + [ser_item(t) for t in ch])


def ser_seq(ts):
    from nutils import transformseq as S
    ty = type(ts)
    if ty is S.EmptyTransforms: return 'empty %d %d' % (ts.todims, ts.fromdims)
    if ty is S.PlainTransforms: return 'plain %d %d %d %s' % (ts.todims, ts.fromdims, len(ts._transforms), ' '.join(ser_chain(c) for c in ts._transforms))
    if ty is S.IndexTransforms: return 'index %d %d %d' % (ts.fromdims, ts._length, ts._offset)
    if ty is S.StructuredTransforms:
        axes = []
        for a in ts._axes:
            if a.isdim: axes.append('%d %d %d 1 0 0' % (a.i, a.j, a.mod))
            else: axes.append('%d %d %d 0 %d %d' % (a.i, a.j, a.mod, a.ibound, bool(a.side)))
        return 'struct %s %d %s %d' % (ser_item(ts._root), len(axes), ' '.join(axes), ts._nrefine)
    if ty is S.MaskedTransforms: return 'masked %s %d %s' % (ser_seq(ts._parent), len(ts._indices), ' '.join('%d' % i for i in ts._indices))
    if ty is S.ReorderedTransforms: return 'reord %s %d %s' % (ser_seq(ts._parent), len(ts._indices), ' '.join('%d' % i for i in ts._indices))
    if ty is S.DerivedTransforms:
        dts = [ts._derived_transforms(ref) for ref in ts._parent_references]
        return 'derived %s %d %d %s' % (ser_seq(ts._parent), ts.fromdims, len(dts), ' '.join(ser_chain(d) for d in dts))
    if ty is S.UniformDerivedTransforms: return 'uderived %s %d %s' % (ser_seq(ts._parent), ts.fromdims, ser_chain(ts._derived_transforms))
    if ty is S.ChainedTransforms:
        items = list(ts._items)
        s = ser_seq(items[-1])
        for it in reversed(items[:-1]):
            s = 'chain %s %s' % (ser_seq(it), s)
        return s
    raise Unsupported('transforms type ' + ty.__name__)


def seq_shape(ts, depth=0):
    """class nesting of a Transforms object, e.g. Masked(Chained(Derived(Structured),...)) -- for the distribution"""
    from nutils import transformseq as S
    n = type(ts).__name__.replace('Transforms', '')
    if hasattr(ts, '_parent'): return '%s(%s)' % (n, seq_shape(ts._parent))
    if hasattr(ts, '_items'): return '%s(%s)' % (n, ','.join(sorted(set(seq_shape(i) for i in ts._items))))
    return n


# ---------------------------------------------------------------- generators

def ref_walk(rng, ref, maxlen, pedge=.35):
    """random chain of child / edge transforms starting in reference `ref`"""
    chain = []
    for _ in range(maxlen):
        if ref.ndims and rng.random() < pedge:
            k = rng.randrange(ref.nedges)
            if not ref.edge_refs[k]: break
            chain.append(ref.edge_transforms[k]); ref = ref.edge_refs[k]
        else:
            k = rng.randrange(ref.nchildren)
            if not ref.child_refs[k]: break
            chain.append(ref.child_transforms[k]); ref = ref.child_refs[k]
    return tuple(chain)


def dyadic_point(rng, n):
    return [Fraction(rng.randrange(0, 9), 8) for _ in range(n)]


def real_apply(chain, x):
    """transform.apply on a dyadic point; exact because all coefficients are dyadic"""
    from nutils import transform
    p = transform.apply(chain, numpy.array([[float(v) for v in x]], dtype=float))
    return [fr(v) for v in numpy.asarray(p)[0]]


def sfr(f):
    return '%d' % f.numerator if f.denominator == 1 else '%d/%d' % (f.numerator, f.denominator)


def saff(A):
    lin, off, td, fd = A
    return ';'.join(' '.join(sfr(v) for v in row) for row in lin) + '|' + ' '.join(sfr(v) for v in off)


# ---------------------------------------------------------------- the check

class Batch:
    """collects model requests of all streams so that the Lean driver is started once"""

    def __init__(self):
        self.lines = []
        self.handlers = []

    def add(self, line, handler):
        self.lines.append(line); self.handlers.append(handler)

    def run(self, c):
        self.dispatch(c.model(self.lines))

    def dispatch(self, ans):
        for a, h, l in zip(ans, self.handlers, self.lines):
            h(a, l)

    def start(self, c):
        """run the Lean driver in the background (the thread only waits for the subprocess); `wait` returns the answers"""
        import threading
        self._box = {}
        def bg():
            try: self._box['ans'] = c.model(self.lines)
            except BaseException as e: self._box['err'] = e
        self._thread = threading.Thread(target=bg)
        self._thread.start()

    def wait(self):
        self._thread.join()
        if 'err' in self._box: raise self._box['err']
        return self._box['ans']


def run(c):
    from . import c11_streams as ST
    c.rule = ('items: every child/edge transform of 11 reference kinds and everything the swaps produce; chains: random walks through '
              'child/edge transforms of those references (length <= 7) below optional index roots; sequences: Transforms nestings built by real '
              'topology operations (rectilinear incl. periodic, unitsquare square/triangle/mixed, tetrahedra, refined, boundary, interfaces, '
              'slices, take/compress, refined_by, unions, opposites) and synthetic nestings of all nine classes; per sequence every element (or a '
              'random subset) x random tails of child/edge transforms (length <= 4) plus foreign chains; a case is non-trivial when the chain has '
              'at least two items; distinct by serialised sequence + query; derived axes: DimAxis(0,n,mod,periodic) x random sequences of refined / '
              'explicit slices -> interface and boundary axes; sub-topologies (real code, exact chain oracle): pipelines of slice / refined / subset / take / '
              'refined_by on rectilinear meshes of 1-3 dimensions with random periodic directions, all facets of .interfaces and .boundary; locate '
              'histories (real code): 3-6 calls on the same topology objects (base, refined, slice, subset, take, with groups; structured with dyadic '
              'node spacing or simplex meshes) with the same argument dependent geometry objects (scale, per-axis scale incl. negative, shift, affine, '
              'curved), changing arguments / tol / eps / skip_missing / weights / maxdist, post-condition after every call')
    c.assumptions += ['transform items are compared structurally (interned singletons of the source are identified with their constructor arguments); '
                      'identity of equal items across construction routes is checked separately on the real objects',
                      'all coefficients of child/edge transforms are dyadic, so float arithmetic of the source is exact on the generated points',
                      'n-ary ChainedTransforms are modelled as right-nested binary chains (same lookup order and offsets)',
                      'ReorderedTransforms: argsort of a permutation is modelled as the inverse permutation',
                      'locate() is checked on the real code only (Newton iteration is numeric): order, tolerance, LocateError',
                      'locate histories: a call that raises LocateError (or skips targets) although all targets are inside is allowed by the property; it is '
                      'reported (no-failing-input-found) only when the same call on freshly built objects succeeds, i.e. when the outcome depends on earlier calls',
                      'locate histories keep curved geometries away from the zone where the affine fit error of StructuredTopology._locate is within 25% of the '
                      'tolerance (recorded known finding, re-run from its minimal input); the number of steered cases is counted',
                      'sub-topology interfaces: the owner of an interface side is decided from the chain itself (level-0 cell = Index items, dyadic box of the '
                      'items before the edge), exact rational arithmetic; root meshes are mesh.rectilinear with integer shape (geometry = index coordinates)',
                      'the theorems on derived axes assume DimAx.ok (non-empty; modulus 0 iff never periodic; a periodic axis spans exactly one period), which '
                      'is checked on every real axis generated; StructuredLine(i != 0, periodic) would violate it but is not reachable from mesh.*',
                      'the Lean lookup theorem covers Empty/Index/Masked/Reordered/Derived/UniformDerived/Chained nestings over reversible item classes '
                      '(simplex items with child+edge tails; all scale-type items with child tails); Plain and Structured sequences and tensor items with '
                      'edge tails are covered by the correspondence streams and the arithmetic theorems only (the general claim is false in >=4-D: known finding)']
    changed = c.write_generated('C11.lean', X.tables_text())
    changed |= c.write_generated('C11Refs.lean', X.refs_text())
    if changed: c.log('generated tables changed')
    broken = c.build_and_audit()
    c.log('build + audit done')
    b = Batch()
    st = ST.Streams(c, b)
    st.items()
    st.swaps()
    st.chains()
    st.sequences()
    st.axes()
    st.containers()
    c.log('%d model requests generated' % len(b.lines))
    # the real-only streams (no model involved) run while the Lean driver works on the batch
    b.start(c)
    try:
        st.real_only()
        c.log('real-only streams done')
    finally:
        ans = b.wait()
    b.dispatch(ans)
    c.log('model answers compared')
    st.finish()
    for name in broken:
        st.search_after_broken_proof(name)
