"""C14 — solvers return a certified solution or raise.

Tie: (M) mechanism correspondence on the REAL code, exact:
 * `System.solve` and the legacy `_with_solve.solve_withinfo` are driven with a scripted `method` callable that yields
   arbitrary generated residual-norm streams (finite / NaN / inf / exactly tol / raising / exhausted; tuple and iterator
   path); outcome class, number of iterates consumed and the identity of the returned iterate are compared with the Lean
   model (`Drivers/C14.lean`), about which `Props/C14.lean` proves the unbounded statements.
 * `Matrix._solver` / `Matrix.solve` / `solve_leniently` are driven with a scripted `solver=` callable (exact solution,
   perturbed, NaN, inf, wrong length, raising) on small integer / dyadic matrices with every constraint pattern
   (boolean and NaN-float `constrain`, `rconstrain`, `lhs0`, absent rhs) and compared with the rational model.
 * `System.step` (forced failures, bisection), `System.solve_constraints` (droptol mask), `System.deconstruct/construct`
   and the relaxation loop of `LinesearchNewton` (scripted strategy) likewise.
Specification oracle (decides failing inputs; never "model != code" alone): independent dense recomputation in Python
Fractions / numpy of what the property demands of a returned answer — constrained entries exactly equal to the prescribed
values, residual of the free equations within the requested tolerance, all numbers finite, NaN exactly on dropped
entries, time advanced by exactly the requested step — applied to the scripted streams and to end-to-end streams
(dense systems x every numpy-backend solver/preconditioner x tolerances x constraint patterns; nonlinear systems through
Direct/Newton/ReuseNewton/LinesearchNewton/Minimize/Arnoldi/Pseudotime and the legacy wrappers; theta method;
Topology.project).
"""
import math, warnings, itertools, contextlib
from fractions import Fraction as Fr
import numpy, treelog

QUIET = None


@contextlib.contextmanager
def quiet():
    with treelog.set(treelog.NullLog()), warnings.catch_warnings(), numpy.errstate(all='ignore'):
        warnings.simplefilter('ignore')
        yield


# ---------------------------------------------------------------- encoding

def fnum(x):
    """exact text of a Python/numpy float or Fraction for the Lean driver"""
    if isinstance(x, Fr):
        return '%d/%d' % (x.numerator, x.denominator) if x.denominator != 1 else str(x.numerator)
    x = float(x)
    if math.isnan(x): return 'nan'
    if math.isinf(x): return 'inf' if x > 0 else '-inf'
    p, q = x.as_integer_ratio()
    return '%d/%d' % (p, q) if q != 1 else str(p)


def fvec(v):
    return ' '.join(fnum(x) for x in v)


def fmat(A):
    return ';'.join(fvec(r) for r in A)


def fmask(m):
    return ' '.join('1' if b else '0' for b in m)


def fopt(v, f=fvec):
    return 'none' if v is None else f(v)


def fcons(c):
    if c is None: return 'none'
    c = numpy.asarray(c)
    return 'm:' + fmask(c) if c.dtype == bool else 'v:' + fvec(c)


def parse_num(s):
    if s == 'nan': return math.nan
    if s == 'inf': return math.inf
    if s == '-inf': return -math.inf
    return Fr(s)


def parse_vec(s):
    return [parse_num(w) for w in s.split()]


def same_num(a, b):
    """exact equality of two numbers (float or Fraction), NaN == NaN"""
    fa = isinstance(a, float) and not math.isfinite(a); fb = isinstance(b, float) and not math.isfinite(b)
    if fa or fb:
        return fa and fb and (math.isnan(a) and math.isnan(b) or a == b)
    return Fr(a) == Fr(b)


def same_vec(a, b):
    return len(a) == len(b) and all(same_num(x, y) for x, y in zip(a, b))


def exc_name(e):
    return type(e).__name__


# ================================================================================================ scripted System.solve

class Scripted:
    """a `method` for System.solve: direct (returns a tuple) or iterative (returns an iterator over scripted events)"""

    def __init__(self, kind, events, make_exc, npfloat):
        self.kind, self.events, self.make_exc, self.np = kind, events, make_exc, npfloat
        self.consumed = 0
        self.yielded = []
        self.nyield = 0

    def __str__(self):
        return 'scripted'

    def _num(self, r):
        return numpy.float64(r) if self.np else float(r)

    def __call__(self, system, *, arguments, constrain):
        if self.kind == 'tuple':
            a = {'k': 0}
            self.yielded.append(a)
            return a, self._num(self.events[0][1])
        return self._gen()

    def _gen(self):
        for i, ev in enumerate(self.events):
            self.consumed = i + 1
            if ev[0] == 'y':
                a = {'k': i}
                self.yielded.append(a)
                self.nyield += 1
                yield a, self._num(ev[1])
            else:
                raise self.make_exc(ev[1])


def gen_norm(rng, tol):
    t = tol if isinstance(tol, float) and math.isfinite(tol) and tol > 0 else 1.
    return rng.choice([t, t, t / 2, t * 2, t * 4, 0., t * 1.5, 8., 1 / 1024, math.nan, math.inf, -math.inf, -1., t / 4, 1e-3, 3.])


def gen_events(rng, tol):
    n = rng.choice([0, 1, 1, 2, 3, 4, 5, 6, 8])
    style = rng.choice(['random', 'converge', 'converge', 'nanmid', 'raise', 'diverge'])
    t = tol if isinstance(tol, float) and math.isfinite(tol) and tol > 0 else 1.
    evs = []
    for i in range(n):
        if style == 'random':
            evs.append(('y', gen_norm(rng, tol)))
        elif style == 'converge':
            evs.append(('y', t * 2. ** (n - 2 - i - rng.choice([0, 0, 1]))))
        elif style == 'diverge':
            evs.append(('y', t * 2. ** (i + 1)))
        elif style == 'nanmid':
            evs.append(('y', math.nan if i == n // 2 else t * 2. ** (n - 1 - i)))
        else:
            evs.append(('r', rng.randrange(4)) if i == n // 2 else ('y', t * 2. ** (n - 2 - i)))
    return evs


def ev_text(evs):
    return ' '.join('y:' + fnum(e[1]) if e[0] == 'y' else 'r:%d' % e[1] for e in evs)


def classify_solve_exc(e, m, solver, exc_types):
    k = max(m.nyield - 1, 0)
    msg = 'scripted' if e.args == ('scripted',) else str(e)
    if isinstance(e, solver.SolverError) and msg != 'scripted':
        why = 'nan' if 'not a number' in msg else 'tol' if 'desired tolerance' in msg else \
              'maxiter' if 'failed to converge' in msg or 'failed to reach target tolerance' in msg else 'other:' + msg
        return 'solverError %d %s' % (k, why)
    if isinstance(e, ValueError) and msg != 'scripted':
        return 'valueError'
    if isinstance(e, StopIteration) or (isinstance(e, RuntimeError) and 'StopIteration' in msg):
        return 'stopIteration %d' % k
    if msg == 'scripted':
        return 'raised %d %d' % (k, exc_types.index(type(e)))
    return 'foreign %s: %s' % (exc_name(e), msg[:80])


def spec_check_solve(c, what, sig_prefix, tol, miniter, maxiter, m, k, r, replay, iterpath, need_tol_positive=True):
    """property oracle for a RETURNED solve: last norm not NaN and within tol, no NaN before it, iteration bounds"""
    norms = [e[1] for e in m.events[:k + 1] if e[0] == 'y']
    bad = None
    if any(math.isnan(x) for x in norms) or math.isnan(r):
        bad = (sig_prefix + ':nan-residual-accepted', 'returned although a residual norm was NaN')
    elif (iterpath or tol > 0) and not r <= tol:
        bad = (sig_prefix + ':unconverged-accepted', 'returned with residual norm above the tolerance')
    elif iterpath and k < miniter:
        bad = (sig_prefix + ':miniter-ignored', 'returned before miniter iterations')
    elif iterpath and maxiter is not None and k > max(maxiter, 0):
        bad = (sig_prefix + ':maxiter-exceeded', 'returned after more than maxiter iterations')
    if bad:
        c.failing_input(bad[0], '%s %s (tol=%r miniter=%r maxiter=%r, accepted iterate %d with norm %r)' % (what, bad[1], tol, miniter, maxiter, k, r), replay)
    return bad is not None


def stream_system_solve(c, N, solver, matrix, function):
    rng = c.rng
    u = function.Argument('u', (1,))
    S = solver.System([u * 2. - 1.], trial='u')
    exc_types = [solver.SolverError, matrix.MatrixError, RuntimeError, KeyError]
    excs = lambda tag: exc_types[tag]('scripted')
    cases = []
    corpus = [('iter', .5, 0, None, [('y', 5.), ('y', math.nan), ('y', 1.)]), ('tuple', .5, 0, None, [('y', math.nan)]),
              ('iter', .5, 0, None, [('y', math.nan)]), ('iter', .5, 2, 5, [('y', 0.), ('y', 3.), ('y', .5)]),
              ('iter', .5, 0, 1, [('y', 1.), ('y', 1.), ('y', .25)]), ('iter', .5, 0, 2, [('y', 1.), ('y', 1.), ('y', .5)]),
              ('iter', 0., 0, None, [('y', 0.)]), ('tuple', 0., 0, None, [('y', math.inf)]), ('tuple', 1., 0, None, [('y', 1.)]),
              ('iter', .5, 3, 2, [('y', .25), ('y', .25), ('y', .25), ('y', .25)]), ('iter', .5, 0, None, [('y', 1.), ('y', math.inf), ('y', .5)])]
    cases += corpus
    for _ in range(N):
        tol = rng.choice([.5, .5, 1., 1e-3, 2., .25, 0., -1., math.nan, math.inf]) if rng.random() < .3 else rng.choice([.5, 1., 1e-3, 2.])
        miniter = rng.choice([0, 0, 0, 1, 2, 3, -1])
        maxiter = rng.choice([None, None, 0, 1, 2, 3, 5, -1])
        if rng.random() < .2:
            cases.append(('tuple', tol, miniter, maxiter, [('y', gen_norm(rng, tol))]))
        else:
            cases.append(('iter', tol, miniter, maxiter, gen_events(rng, tol)))
    req = ['sys|%s|%d|%s|%s' % (fnum(tol), mi, 'none' if ma is None else str(ma), ('tuple:' + fnum(evs[0][1])) if kind == 'tuple' else 'iter:' + ev_text(evs))
           for kind, tol, mi, ma, evs in cases]
    cases1 = cases
    cases = [(.5, 0, None, [('y', 5.), ('y', math.nan), ('y', 1.)]), (.5, 0, None, [('y', math.nan)]), (.5, 1, 3, [('y', .25), ('y', 1.), ('y', .5)]),
             (.5, 3, 2, [('y', .25)]), (0., 0, None, [('y', 1.), ('y', 0.)])]
    for _ in range(N // 2):
        tol = rng.choice([.5, 1., 1e-3, 2., 0., math.inf]) if rng.random() < .2 else rng.choice([.5, 1., 1e-3, 2.])
        cases.append((tol, rng.choice([0, 0, 0, 1, 2, 3]), rng.choice([None, None, 0, 1, 2, 3, 5]), gen_events(rng, tol)))
    cases2 = cases
    allans = yield req + ['legacy|%s|%d|%s|%s' % (fnum(tol), mi, 'none' if ma is None else str(ma), ev_text(evs)) for tol, mi, ma, evs in cases2]
    ans = allans[:len(cases1)]; cases = cases1
    ndis = 0
    for (kind, tol, mi, ma, evs), a in zip(cases, ans):
        m = Scripted(kind, evs, excs, rng.random() < .5)
        try:
            with quiet():
                ret = S.solve(tol=tol, miniter=mi, maxiter=ma, method=m)
            k = ret.get('k', -1) if isinstance(ret, dict) else -1
            ok_identity = any(ret is y for y in m.yielded) and ret is m.yielded[k] if 0 <= k < len(m.yielded) else False
            r = float(evs[k][1]) if 0 <= k < len(evs) and evs[k][0] == 'y' else math.nan
            real = 'returned %d %s' % (k, fnum(r)) if ok_identity else 'returned-foreign-object %r' % (ret,)
        except BaseException as e:
            if isinstance(e, (KeyboardInterrupt, SystemExit)): raise
            real = classify_solve_exc(e, m, solver, exc_types)
            k = r = None
        c.case(('sys', kind, fnum(tol), mi, ma, ev_text(evs)), nontrivial=len(evs) > 0)
        c.count('sys:' + real.split()[0]); c.count('sys-path:' + kind)
        c.sample(dict(op='System.solve', kind=kind, tol=repr(tol), miniter=mi, maxiter=ma, events=ev_text(evs), real=real, model=a), limit=4)
        replay = dict(op='System.solve', path=kind, tol=repr(tol), miniter=mi, maxiter=ma, events=ev_text(evs), real=real, model=a)
        if real.startswith('returned ') and spec_check_solve(c, 'System.solve', 'system-solve', tol, mi, ma, m, k, r, replay, kind == 'iter'):
            ndis += 1; continue
        if real != a:
            ndis += 1
            c.broken_no_input('corr:System.solve', 'model and System.solve disagree (no property violation found: the code may raise where it could return)', replay)
        else:
            c.traces += 1
    c.obligation('corr:System.solve', ndis == 0, 'correspondence', '%d scripted residual-norm streams' % len(cases))

    # ---- legacy wrapper: _with_solve.solve_withinfo
    cases = cases2; ans = allans[len(cases1):]
    ndis = 0
    for (tol, mi, ma, evs), a in zip(cases, ans):
        m = Scripted('iter', evs, excs, True)
        w = solver._with_solve(S, m, {}, {})
        kw = dict(tol=tol, miniter=mi)
        if ma is not None: kw['maxiter'] = ma
        try:
            with quiet():
                if rng.random() < .5:
                    ret, info = w.solve_withinfo(**kw)
                    niter = info.niter
                else:
                    ret = w.solve(**kw); niter = None
            k = ret.get('k', -1) if isinstance(ret, dict) else -1
            good = 0 <= k < len(m.yielded) and ret is m.yielded[k] and (niter is None or niter == k)
            r = float(evs[k][1]) if good else math.nan
            real = 'returned %d %s' % (k, fnum(r)) if good else 'returned-foreign-object %r niter=%r' % (ret, niter)
        except BaseException as e:
            if isinstance(e, (KeyboardInterrupt, SystemExit)): raise
            real = classify_solve_exc(e, m, solver, exc_types)
            k = r = None
        c.case(('legacy', fnum(tol), mi, ma, ev_text(evs)), nontrivial=len(evs) > 0)
        c.count('legacy:' + real.split()[0])
        replay = dict(op='_with_solve.solve', tol=repr(tol), miniter=mi, maxiter=ma, events=ev_text(evs), real=real, model=a)
        if real.startswith('returned ') and spec_check_solve(c, 'legacy .solve(tol)', 'with-solve', tol, mi, ma, m, k, r, replay, True):
            ndis += 1; continue
        if real != a:
            ndis += 1
            c.broken_no_input('corr:_with_solve.solve_withinfo', 'model and legacy solve loop disagree', replay)
        else:
            c.traces += 1
    c.obligation('corr:_with_solve.solve_withinfo', ndis == 0, 'correspondence', '%d scripted streams' % len(cases))


# ================================================================================================ scripted Matrix._solver / solve

def mk_matrix(matrix, A, rng=None):
    A = numpy.asarray(A, dtype=float)
    nr, nc = A.shape
    how = rng.choice(['csr', 'coo', 'block']) if rng else 'csr'
    i, j = A.nonzero()
    if how == 'coo' or A.size == 0 or not len(i):
        return matrix.assemble_coo(A[i, j], i, nr, j, nc)
    rowptr = numpy.searchsorted(i, numpy.arange(nr + 1))
    if how == 'csr':
        return matrix.assemble_csr(A[i, j], rowptr, j, nc)
    return matrix.assemble_block_csr([[(A[i, j], rowptr, j, nc)]])


def nsq(v):
    return sum((Fr(x) * Fr(x) for x in v), Fr(0))


def fr_matvec(A, x):
    return [sum((Fr(a) * Fr(b) for a, b in zip(row, x)), Fr(0)) for row in A]


def safe_cmp(p_sq, t_sq):
    """is the float comparison sqrt(p) <=> t guaranteed to agree with the exact one?  exact ties are fine by construction
    (dyadic tolerances, power-of-two rtol), near ties are not."""
    if p_sq == t_sq: return True
    big = max(p_sq, t_sq)
    return abs(p_sq - t_sq) > big * Fr(1, 10**9)


class ScriptedSolver:
    def __init__(self, kind, vec, matrix):
        self.kind, self.vec, self.matrix = kind, vec, matrix
        self.calls = []
        self.__name__ = 'scripted'

    def __call__(self, mat, rhs, atol, **kw):
        self.calls.append((mat.shape, numpy.array(rhs), atol))
        if self.kind == 'merr': raise self.matrix.MatrixError('scripted')
        if self.kind == 'oerr': raise RuntimeError('scripted')
        return numpy.array(self.vec, dtype=float)

    def text(self):
        return self.kind if self.kind in ('merr', 'oerr') else 'vec:' + fvec(self.vec)


def classify_matrix_exc(e, matrix):
    msg = str(e)
    if isinstance(e, matrix.ToleranceNotReached):
        return 'err|tolNotReached|' + fvec(e.best)
    if isinstance(e, matrix.MatrixError):
        for key, tag in (('not square', 'notSquare'), ('right-hand size shape', 'rhsShape'), ('right-hand side is not finite', 'rhsNonFinite'),
                         ('residual is not finite', 'resNonFinite'), ('solver failed with error', 'solverFailed'),
                         ('non-finite left hand side', 'nonFinite')):
            if key in msg: return 'err|' + tag
        if msg == 'scripted': return 'err|solverMatrixError'
        if msg == '': return 'err|matmulShape'
        return 'err|MatrixError:' + msg[:60]
    if isinstance(e, AssertionError): return 'err|assertion'
    if isinstance(e, AttributeError): return 'err|attribute'
    return 'foreign|%s: %s' % (exc_name(e), msg[:80])


def same_answer(real, model):
    fr, fm = real.split('|'), model.split('|')
    if fr[:1] != fm[:1]: return False
    if fr[0] == 'ok':
        return same_vec(parse_vec(fr[1]), parse_vec(fm[1]))
    if fr[1] != fm[1]: return False
    if fr[1] == 'tolNotReached':
        return same_vec(parse_vec(fr[2]), parse_vec(fm[2]))
    return True


TOLS = [0., 0., .25, .5, 1., 2., 5., 10., 1 / 64]
RTOLS = [0., 0., 0., .5, .25, 1., 1 / 8, 2.]


def gen_int_matrix(rng, nr, nc):
    kind = rng.choice(['dense', 'dense', 'diag', 'singular', 'sparse'])
    A = [[rng.choice([-3, -2, -1, 0, 1, 2, 3, 4]) for _ in range(nc)] for _ in range(nr)]
    if kind == 'diag':
        A = [[(rng.choice([1, 2, -2, 4]) if i == j else 0) for j in range(nc)] for i in range(nr)]
    elif kind == 'singular' and nr > 1:
        A[-1] = list(A[0])
    elif kind == 'sparse':
        A = [[a if rng.random() < .4 else 0 for a in row] for row in A]
    return A


def gen_solver_vec(rng, n, exact):
    """scripted solver output for a system with `n` unknowns whose exact solution is `exact` (list of Fractions)"""
    kind = rng.choice(['exact', 'exact', 'perturbed', 'perturbed', 'zeros', 'nan', 'inf', 'wronglen', 'merr', 'oerr', 'random'])
    if kind in ('merr', 'oerr'):
        return kind, None
    v = [float(x) for x in exact]
    if kind == 'perturbed' and n:
        k = rng.randrange(n); v[k] += rng.choice([1., -1., .5, .25, -1 / 8, 1 / 1024])
    elif kind == 'zeros':
        v = [0.] * n
    elif kind == 'nan' and n:
        v[rng.randrange(n)] = math.nan
    elif kind == 'inf' and n:
        v[rng.randrange(n)] = rng.choice([math.inf, -math.inf])
    elif kind == 'wronglen':
        v = v + [1.] if rng.random() < .5 or not n else v[:-1]
    elif kind == 'random':
        v = [float(rng.choice([-2, -1, 0, 1, 2, .5])) for _ in range(n)]
    return 'vec', v


def spec_check_linear(c, what, A, rhs, x, lhs, I, J, prescribed, atol, rtol, replay, checked=True):
    """property oracle for a RETURNED linear solve, exact in Fractions.
    A: full matrix (lists), rhs: list, x: returned vector (floats), lhs: vector before the inner solve (constraints applied),
    I/J: free rows / columns, prescribed: {j: value}.  Returns True when a failing input was reported."""
    if not all(math.isfinite(v) for v in x):
        return c.failing_input('matrix-solver:nonfinite-returned', what + ' returned a non-finite vector', replay) or True
    for j, v in prescribed.items():
        if not same_num(float(x[j]), float(v)):
            return c.failing_input('matrix-solve:constraint-violated', what + ' returned a vector whose constrained entry %d is %r, prescribed %r' % (j, x[j], v), replay) or True
    if not checked:
        return False
    r0 = [a - b for a, b in zip(map(Fr, rhs), fr_matvec(A, lhs))]
    r0 = [r for r, i in zip(r0, I) if i]
    r1 = [a - b for a, b in zip(map(Fr, rhs), fr_matvec(A, x))]
    r1 = [r for r, i in zip(r1, I) if i]
    tol_sq = max(Fr(atol) ** 2, Fr(rtol) ** 2 * nsq(r0))
    if tol_sq > 0 and nsq(r1) > tol_sq and safe_cmp(nsq(r1), tol_sq) and not (nsq(r0) <= tol_sq and same_vec(list(x), list(lhs))):
        return c.failing_input('matrix-solver:tolerance-violated', what + ' returned a vector whose free-row residual norm^2 %s exceeds the requested tolerance^2 %s' % (float(nsq(r1)), float(tol_sq)), replay) or True
    return False


def stream_matrix_solver(c, N, matrix):
    rng = c.rng
    # ---------------- _solver, exact mode (squared 2-norm in the model)
    cases = []
    for _ in range(N):
        nr = rng.choice([0, 1, 2, 2, 3, 3, 4]); nc = nr if rng.random() < .9 else rng.choice([1, 2, 3])
        A = gen_int_matrix(rng, nr, nc)
        x0 = [rng.choice([-2, -1, 0, 1, 2, 3]) for _ in range(nc)]
        b = [float(v) for v in fr_matvec(A, x0)] if rng.random() < .8 else [float(rng.choice([-3, 0, 1, 4])) for _ in range(nr)]
        if rng.random() < .1: b = [0.] * nr
        if rng.random() < .05: b = b + [1.]
        atol = rng.choice(TOLS); rtol = rng.choice(RTOLS)
        kind, vec = gen_solver_vec(rng, nc, x0)
        cases.append((A, nc, b, atol, rtol, kind, vec))
    req = []
    for A, nc, b, atol, rtol, kind, vec in cases:
        s = ScriptedSolver(kind, vec, matrix)
        req.append('solver|sq|%s|%d|%s|%s|%s|%s' % (fmat(A), nc, fvec(b), fnum(atol), fnum(rtol), s.text()))
    req1, cases1 = req, cases
    # ---------------- _solver, IEEE corner cases of the decision logic (observed norms)
    cases = []
    FV = [0., .5, 1., 2., -1., math.nan, math.inf, -math.inf, 1 / 64, 8.]
    for _ in range(N // 2):
        n = rng.choice([1, 2, 3])
        A = numpy.array(gen_int_matrix(rng, n, n), dtype=float)
        b = numpy.array([float(rng.choice([-3, 0, 1, 4, 2])) for _ in range(n)])
        r = rng.random()
        if r < .15: b[rng.randrange(n)] = rng.choice([math.nan, math.inf, -math.inf])
        elif r < .3: A[rng.randrange(n), rng.randrange(n)] = rng.choice([math.nan, math.inf])
        atol = rng.choice(FV); rtol = rng.choice(FV)
        kind, vec = gen_solver_vec(rng, n, [rng.choice([-1, 0, 1, 2]) for _ in range(n)])
        cases.append((A, b, atol, rtol, kind, vec))
    req = []; keep = []
    for A, b, atol, rtol, kind, vec in cases:
        with numpy.errstate(all='ignore'):
            rhsnorm = numpy.linalg.norm(b, axis=0).max()
            resnorm = numpy.linalg.norm(b - numpy.einsum('ij,j->i', A, numpy.array(vec)), axis=0).max() if kind == 'vec' and len(vec) == len(b) and numpy.isfinite(vec).all() else numpy.float64(0)
        # surrogate rational data for the model: the decisions only depend on the observed norms
        As = numpy.where(numpy.isfinite(A), A, 7.); bs = numpy.where(numpy.isfinite(b), b, 7.)
        if kind == 'vec' and len(vec) == len(b) and numpy.isfinite(vec).all():
            rs = [p - q for p, q in zip(map(Fr, bs), fr_matvec(As.tolist(), vec))]
            if rs == list(map(Fr, bs)) and not same_num(float(rhsnorm), float(resnorm)):
                continue  # the surrogate cannot tell the two norms apart
        s = ScriptedSolver(kind, vec, matrix)
        keep.append((A, b, atol, rtol, kind, vec))
        req.append('solver|obs:%s:%s|%s|%d|%s|%s|%s|%s' % (fnum(rhsnorm), fnum(resnorm), fmat(As.tolist()), len(b), fvec(bs), fnum(atol), fnum(rtol), s.text()))
    allans = yield req1 + req
    ans = allans[:len(req1)]; cases = cases1
    ndis = nskip = 0
    for (A, nc, b, atol, rtol, kind, vec), a in zip(cases, ans):
        nr = len(A)
        M = mk_matrix(matrix, numpy.array(A, dtype=float).reshape(nr, nc), rng)
        s = ScriptedSolver(kind, vec, matrix)
        # are all float comparisons of this case guaranteed exact?
        safe = True
        if nr == nc and len(b) == nr:
            tol_sq = max(Fr(atol) ** 2, Fr(rtol) ** 2 * nsq(b))
            safe = safe_cmp(nsq(b), tol_sq)
            if kind == 'vec' and len(vec) == nc and all(math.isfinite(v) for v in vec):
                safe = safe and safe_cmp(nsq([p - q for p, q in zip(map(Fr, b), fr_matvec(A, vec))]), tol_sq)
        if not safe:
            nskip += 1; c.count('solver:skipped-borderline'); continue
        try:
            with quiet():
                x = M._solver(numpy.array(b, dtype=float), s, atol=atol, rtol=rtol) if rng.random() < .5 else M.solve(numpy.array(b, dtype=float), solver=s, atol=atol, rtol=rtol)
            real = 'ok|' + fvec(x)
        except Exception as e:
            x = None
            real = classify_matrix_exc(e, matrix)
        c.case(('solver', fmat(A), fvec(b), atol, rtol, s.text()), nontrivial=nr > 0)
        c.count('solver:' + '|'.join(real.split('|')[:2] if real.startswith('err') else real.split('|')[:1]))
        c.sample(dict(op='Matrix._solver', A=A, b=b, atol=atol, rtol=rtol, solver=s.text(), real=real, model=a), limit=5)
        replay = dict(op='Matrix._solver', A=A, ncols=nc, b=b, atol=atol, rtol=rtol, solver=s.text(), real=real, model=a)
        if x is not None and spec_check_linear(c, 'Matrix._solver', A, b, list(x), [0.] * nc, [True] * nr, [True] * nc, {}, atol, rtol, replay):
            ndis += 1; continue
        if not same_answer(real, a):
            ndis += 1
            c.broken_no_input('corr:Matrix._solver', 'model and Matrix._solver disagree', replay)
        else:
            c.traces += 1
    c.obligation('corr:Matrix._solver', ndis == 0, 'correspondence', '%d scripted solver cases (%d borderline skipped)' % (len(cases), nskip))

    ans = allans[len(req1):]
    ndis = 0
    for (A, b, atol, rtol, kind, vec), a in zip(keep, ans):
        M = matrix._numpy.NumpyMatrix(A.copy()) if hasattr(matrix, '_numpy') else mk_matrix(matrix, A)
        s = ScriptedSolver(kind, vec, matrix)
        try:
            with quiet():
                x = M._solver(b.copy(), s, atol=atol, rtol=rtol)
            real = 'ok|' + fvec(x)
        except Exception as e:
            x = None
            real = classify_matrix_exc(e, matrix)
        c.case(('solver-obs', fmat(A.tolist()), fvec(b), fnum(atol), fnum(rtol), s.text()))
        c.count('solver-obs:' + '|'.join(real.split('|')[:2] if real.startswith('err') else real.split('|')[:1]))
        replay = dict(op='Matrix._solver(obs)', A=A.tolist(), b=b.tolist(), atol=repr(atol), rtol=repr(rtol), solver=s.text(), real=real, model=a)
        if x is not None:
            with numpy.errstate(all='ignore'):
                res = numpy.linalg.norm(b - numpy.einsum('ij,j->i', A, x))
            if not numpy.isfinite(x).all():
                c.failing_input('matrix-solver:nonfinite-returned', 'Matrix._solver returned a non-finite vector', replay); ndis += 1; continue
            if not numpy.isfinite(b).all() or s.calls and (math.isnan(res) or not numpy.isfinite(A).all()):
                c.failing_input('matrix-solver:nan-residual-accepted', 'Matrix._solver returned although the residual norm is not finite (non-finite right-hand side or matrix)', replay); ndis += 1; continue
        if not same_answer(real, a):
            ndis += 1
            c.broken_no_input('corr:Matrix._solver:ieee', 'model and Matrix._solver disagree on non-finite / negative tolerance or norm handling', replay)
        else:
            c.traces += 1
    c.obligation('corr:Matrix._solver:ieee', ndis == 0, 'correspondence', '%d cases with NaN/inf/negative tolerances, right-hand sides and matrix entries' % len(keep))


def gen_constraints(rng, nr, nc):
    """(lhs0, cons, rcons) with numpy arrays or None"""
    lhs0 = None if rng.random() < .35 else numpy.array([float(rng.choice([-2, -1, 0, 1, 2, 3])) for _ in range(nc)])
    r = rng.random()
    if r < .15: cons = None
    elif r < .55: cons = numpy.array([rng.random() < .4 for _ in range(nc)], dtype=bool)
    else: cons = numpy.array([float(rng.choice([-2, -1, 0, 1, 2])) if rng.random() < .4 else math.nan for _ in range(nc)])
    rcons = None
    if nr != nc or rng.random() < .25:
        if cons is not None and cons.dtype == bool:
            nfree = int((~cons).sum())
            rows = [True] * nr
            for i in rng.sample(range(nr), min(nr, nfree)): rows[i] = False
            if rng.random() < .15 and nr: rows[rng.randrange(nr)] ^= True
            rcons = numpy.array(rows, dtype=bool)
        elif rng.random() < .3:
            rcons = numpy.array([rng.random() < .5 for _ in range(nr)], dtype=bool)
    return lhs0, cons, rcons


def stream_matrix_solve(c, N, matrix):
    rng = c.rng
    cases = []
    for _ in range(N):
        if cases and rng.random() < .5:     # same matrix (and, below, the same Matrix object with its submatrix cache) as the previous case
            A, nr, nc = cases[-1][:3]
        else:
            nr = rng.choice([1, 2, 2, 3, 3, 4]); nc = nr if rng.random() < .85 else rng.choice([1, 2, 3, 4])
            A = gen_int_matrix(rng, nr, nc)
        lhs0, cons, rcons = gen_constraints(rng, nr, nc)
        if cases and A is cases[-1][0] and rng.random() < .5:
            # same Matrix object, same row selection, different column selection (or vice versa): the submatrix cache must notice
            pc, pr = cases[-1][5], cases[-1][6]
            if pc is not None and pc.dtype == bool and pr is not None:
                if rng.random() < .5:
                    perm = list(pc); rng.shuffle(perm); cons, rcons = numpy.array(perm, dtype=bool), pr.copy()
                else:
                    perm = list(pr); rng.shuffle(perm); cons, rcons = pc.copy(), numpy.array(perm, dtype=bool)
                c.count('solve:cache-probe')
        if lhs0 is None and cons is None and rcons is None and rng.random() < .7:
            lhs0 = numpy.zeros(nc)
        # a target solution that respects the constraints, so that an exact inner solution exists
        xs = [Fr(rng.choice([-2, -1, 0, 1, 2, 3])) for _ in range(nc)]
        lhs = [Fr(0)] * nc if lhs0 is None else [Fr(float(v)) for v in lhs0]
        J = [True] * nc
        if cons is not None and cons.dtype == bool: J = [not b for b in cons]
        elif cons is not None:
            J = [math.isnan(v) for v in cons]
            lhs = [l if j else Fr(float(v)) for l, j, v in zip(lhs, J, cons)]
        xs = [x if j else l for x, j, l in zip(xs, J, lhs)]
        r = rng.random()
        if r < .1: rhs = None
        elif r < .8: rhs = numpy.array([float(v) for v in fr_matvec(A, xs)])
        else: rhs = numpy.array([float(rng.choice([-3, 0, 1, 4])) for _ in range(nr)])
        y = [x - l for x, l, j in zip(xs, lhs, J) if j]
        kind, vec = gen_solver_vec(rng, len(y), y)
        atol = rng.choice(TOLS); rtol = rng.choice(RTOLS)
        cases.append((A, nr, nc, rhs, lhs0, cons, rcons, atol, rtol, kind, vec, rng.random() < .3))
    req = []
    for A, nr, nc, rhs, lhs0, cons, rcons, atol, rtol, kind, vec, lenient in cases:
        s = ScriptedSolver(kind, vec, matrix)
        req.append('solve|%s|%d|%d|%s|%s|%s|%s|%s|%s|%s|%d' % (fmat(A), nr, nc, fopt(rhs), fopt(lhs0), fcons(cons), fopt(rcons, fmask), fnum(atol), fnum(rtol), s.text(), lenient))
    ans = yield req
    ndis = nskip = 0
    prevA = prevM = None
    for icase, ((A, nr, nc, rhs, lhs0, cons, rcons, atol, rtol, kind, vec, lenient), a) in enumerate(zip(cases, ans)):
        if A is prevA:
            M = prevM; c.count('solve:matrix-object-reused')
        else:
            M = mk_matrix(matrix, numpy.array(A, dtype=float).reshape(nr, nc), rng)
        prevA, prevM = A, M
        s = ScriptedSolver(kind, vec, matrix)
        kw = {}
        if lhs0 is not None: kw['lhs0'] = lhs0.copy()
        if cons is not None: kw['constrain'] = cons.copy()
        if rcons is not None: kw['rconstrain'] = rcons.copy()
        # independent description of the problem (specification side)
        lhs = [Fr(0)] * nc if lhs0 is None else [Fr(float(v)) for v in lhs0]
        J = [True] * nc; prescribed = {}
        if cons is not None and cons.dtype == bool:
            J = [not b for b in cons]; prescribed = {j: lhs[j] for j in range(nc) if cons[j]}
        elif cons is not None:
            J = [math.isnan(v) for v in cons]; prescribed = {j: Fr(float(cons[j])) for j in range(nc) if not J[j]}
            lhs = [l if j else prescribed[k] for k, (l, j) in enumerate(zip(lhs, J))]
        I = J if rcons is None else [not b for b in rcons]
        rhsv = [Fr(0)] * nr if rhs is None else [Fr(float(v)) for v in rhs]
        safe = True
        if len(I) == nr and sum(I) == sum(J):
            r0 = [p - q for p, q in zip(rhsv, fr_matvec(A, lhs))]; r0 = [v for v, i in zip(r0, I) if i]
            tol_sq = max(Fr(atol) ** 2, Fr(rtol) ** 2 * nsq(r0))
            safe = safe_cmp(nsq(r0), tol_sq)
            if kind == 'vec' and len(vec) == sum(J) and all(math.isfinite(v) for v in vec):
                it = iter(vec); x1 = [l + Fr(next(it)) if j else l for l, j in zip(lhs, J)]
                r1 = [p - q for p, q in zip(rhsv, fr_matvec(A, x1))]; r1 = [v for v, i in zip(r1, I) if i]
                safe = safe and safe_cmp(nsq(r1), tol_sq)
        if not safe:
            nskip += 1; c.count('solve:skipped-borderline'); continue
        try:
            with quiet():
                x = (M.solve_leniently if lenient else M.solve)(None if rhs is None else rhs.copy(), solver=s, atol=atol, rtol=rtol, **kw)
            real = 'ok|' + fvec(x)
        except Exception as e:
            x = None
            real = classify_matrix_exc(e, matrix)
            if isinstance(e, matrix.ToleranceNotReached) and len(e.best) == nc:
                for j, v in prescribed.items():
                    if not same_num(float(e.best[j]), float(v)):
                        c.failing_input('matrix-solve:best-constraint-violated', 'ToleranceNotReached.best does not carry the prescribed value in constrained entry %d' % j, dict(op='Matrix.solve', request=req[icase]))
        pat = ('lhs0' if lhs0 is not None else '') + ('+bool' if cons is not None and cons.dtype == bool else '+float' if cons is not None else '') + ('+rcons' if rcons is not None else '') + ('+norhs' if rhs is None else '')
        c.case(('solve', fmat(A), fopt(rhs), fopt(lhs0), fcons(cons), fopt(rcons, fmask), atol, rtol, s.text(), lenient), nontrivial=cons is not None or lhs0 is not None)
        c.count('solve:' + '|'.join(real.split('|')[:2] if real.startswith('err') else real.split('|')[:1])); c.count('solve-pattern:' + (pat or 'plain'))
        c.sample(dict(op='Matrix.solve', A=A, rhs=fopt(rhs), lhs0=fopt(lhs0), constrain=fcons(cons), rconstrain=fopt(rcons, fmask), atol=atol, rtol=rtol, solver=s.text(), lenient=lenient, real=real, model=a), limit=8)
        replay = dict(op='Matrix.solve_leniently' if lenient else 'Matrix.solve', A=A, rhs=fopt(rhs), lhs0=fopt(lhs0), constrain=fcons(cons), rconstrain=fopt(rcons, fmask), atol=atol, rtol=rtol, solver=s.text(), real=real, model=a)
        if x is not None and len(x) == nc and len(I) == nr:
            # a lenient return is allowed to miss the tolerance (documented), but never the constraints / finiteness
            if spec_check_linear(c, 'Matrix.solve_leniently' if lenient else 'Matrix.solve', A, rhsv, list(x), lhs, I, J, prescribed, atol, rtol, replay, checked=not lenient):
                ndis += 1; continue
        if not same_answer(real, a):
            ndis += 1
            c.broken_no_input('corr:Matrix.solve', 'model and Matrix.solve disagree on the constraint algebra / error handling', replay)
        else:
            c.traces += 1
    c.obligation('corr:Matrix.solve', ndis == 0, 'correspondence', '%d scripted constrained solves (%d borderline skipped)' % (len(cases), nskip))



# ================================================================================================ System.step

class StepMethod:
    """fails (raises SolverError / MatrixError) according to a script, otherwise delegates to Direct"""

    def __init__(self, script, excs, solver):
        self.script, self.excs, self.solver = list(script), excs, solver
        self.calls = []

    def __str__(self):
        return 'scripted-step'

    def __call__(self, system, *, arguments, constrain):
        ok = self.script.pop(0) if self.script else False
        g = lambda k: None if k not in arguments else float(arguments[k])
        self.calls.append((g('t0'), g('t'), g('dt'), ok))
        if not ok:
            raise self.excs[len(self.calls) % len(self.excs)]('forced')
        return self.solver.Direct()(system, arguments=arguments, constrain=constrain)


def stream_step(c, N, solver, matrix, function):
    rng = c.rng
    A = function.Argument
    u, u0, t, t0, dt = A('u', (1,)), A('u0', (1,)), A('t', ()), A('t0', ()), A('dt', ())
    systems = {'time': (solver.System([u - u0 - (t - t0)], trial='u'), dict(timearg='t'), True),
               'timestep': (solver.System([u - u0 - dt], trial='u'), dict(timesteparg='dt'), True),
               'both': (solver.System([u - u0 - (t - t0) - dt + dt], trial='u'), dict(timearg='t', timesteparg='dt'), True),
               'indep': (solver.System([u - u0 - 1.], trial='u'), dict(timearg='t'), False)}
    cases = [('time', 1, 10., 1., [False, True, True]), ('time', 2, 0., 1., [False, True, False, True, True]), ('time', 0, 0., 1., [False]),
             ('timestep', 1, 0., 1., [False, True, True]), ('indep', 2, 0., 1., [False, True]), ('time', 1, 0., 1., [False, False, True])]
    for _ in range(N):
        n = rng.choice([0, 1, 1, 2, 2, 3, -1])
        script = [rng.random() < rng.choice([.3, .6, .9]) for _ in range(rng.randint(0, 2 ** (max(n, 0) + 1)))]
        cases.append((rng.choice(['time', 'time', 'timestep', 'both', 'indep']), n, rng.choice([0., 10., .5, -2.]), rng.choice([1., .5, 2., .25]), script))
    ans = yield ['step|%d|%d|%s|%s|%s' % (max(n, 0), systems[k][2], fnum(ts), fnum(h), fmask(script)) for k, n, ts, h, script in cases]
    ndis = 0
    for (kind, n, ts, h, script), a in zip(cases, ans):
        S, targs, dep = systems[kind]
        m = StepMethod(script, [solver.SolverError, matrix.MatrixError, matrix.ToleranceNotReached], solver)
        m.excs = [solver.SolverError, matrix.MatrixError, lambda msg: matrix.ToleranceNotReached(numpy.zeros(1))]
        ustart = float(rng.choice([0, 1, -3]))
        try:
            with quiet():
                ret = S.step(arguments={'u': numpy.array([ustart]), 't': ts}, suffix='0', timestep=h, maxretry=n, method=m, **targs)
            out = 'ok'
        except (solver.SolverError, matrix.MatrixError) as e:
            out = 'fail' if str(e) in ('forced', 'solver failed to reach tolerance') else 'foreign %s: %s' % (exc_name(e), e)
            ret = None
        except Exception as e:
            out = 'foreign %s: %s' % (exc_name(e), e); ret = None
        mf = a.split('|')
        mcalls = [tuple(parse_num(x) for x in cl.split(',')) for cl in mf[1].split(';')] if mf[1] else []
        c.case(('step', kind, n, ts, h, tuple(script)), nontrivial=len(m.calls) > 1)
        c.count('step:%s:%s' % (kind, out.split()[0])); c.count('step-solves:%d' % len(m.calls))
        replay = dict(op='System.step', system=kind, maxretry=n, t=ts, timestep=h, script=script, real=[out, m.calls], model=a)
        c.sample(replay, limit=10)
        # ---- property oracle
        good = [cl for cl in m.calls if cl[3]]
        bad = None
        if len(m.calls) > 2 ** (max(n, 0) + 1) - 1:
            bad = ('step-retry:too-many-solves', 'more than 2^(maxretry+1)-1 solves')
        elif ret is not None:
            if 't' in targs.values() and (float(ret['t']) != ts + h or not good or good[0][0] != ts or good[-1][1] != ts + h or any(p[1] != q[0] for p, q in zip(good, good[1:]))):
                bad = ('step-retry:time-not-bisected', 'the successful solves do not bridge [t, t+timestep]: %r, returned t=%r' % ([cl[:2] for cl in good], float(ret['t'])))
            elif 'dt' in targs.values() and kind != 'both' and sum(cl[2] for cl in good) != h:
                bad = ('step-retry:time-not-bisected', 'the successful sub-steps do not add up to timestep: %r' % [cl[2] for cl in good])
            elif kind != 'indep' and float(ret['u'][0]) != ustart + h:
                bad = ('step-retry:solution-wrong', 'returned u=%r after a step of %r from %r (du/dt=1)' % (float(ret['u'][0]), h, ustart))
        if bad:
            ndis += 1; c.failing_input(bad[0], 'System.step: ' + bad[1], replay); continue
        # ---- correspondence
        same = out == mf[0] and len(m.calls) == len(mcalls)
        if same:
            for (rt0, rt1, rdt, rok), (mt0, mt1, mok) in zip(m.calls, mcalls):
                same = same and rok == bool(mok) and (rt0 is None or (rt0 == mt0 and rt1 == mt1)) and (rdt is None or rdt == mt1 - mt0)
        if not same:
            ndis += 1; c.broken_no_input('corr:System.step', 'model and System.step disagree on the retry schedule', replay)
        else:
            c.traces += 1
    c.obligation('corr:System.step', ndis == 0, 'correspondence', '%d scripted failure schedules' % len(cases))


# ================================================================================================ solve_constraints / deconstruct / linesearch

def gen_droptol_matrix(rng, n, d, symmetric):
    """returns (A, clean): a well-conditioned block on a random index set K, entries below droptol (or zero) elsewhere;
    with small probability a larger entry outside the block (then `clean` is False: the kept block may be singular)"""
    tiny = [0., 0., 2. ** -20, -2. ** -20, 2. ** -30] if d >= 2. ** -10 else [0.]
    K = [rng.random() < .6 for _ in range(n)]
    A = [[0.] * n for _ in range(n)]
    clean = True
    for i in range(n):
        for j in range(n):
            if K[i] and K[j]:
                A[i][j] = 4. if i == j else float(rng.choice([-1, 0, 0, 1]))
            elif rng.random() < .93:
                A[i][j] = rng.choice(tiny)
            else:
                A[i][j] = float(rng.choice([1, 2, .5])); clean = False
    if symmetric:
        for i in range(n):
            for j in range(i):
                A[i][j] = A[j][i]
    return A, clean


def stream_constraints(c, N, solver, matrix, function):
    rng = c.rng
    # ---------------- solve_constraints: droptol mask
    cases = []
    for _ in range(N):
        n = rng.choice([1, 2, 3, 3, 4, 5]); sym = rng.random() < .5
        d = rng.choice([0., 2. ** -10, 1e-12, 1e-12, 1., -1., 2. ** -25])
        A, clean = gen_droptol_matrix(rng, n, d, sym)
        b = [float(rng.choice([-2, 0, 1, 3])) for _ in range(n)]
        r = rng.random()
        cons = None if r < .5 else numpy.array([rng.random() < .3 for _ in range(n)], dtype=bool) if r < .6 else \
            numpy.array([float(rng.choice([-1, 0, 2])) if rng.random() < .3 else math.nan for _ in range(n)])
        cases.append((n, sym, d, A, b, cons, clean))
    req1 = []
    for n, sym, d, A, b, cons, clean in cases:
        free = [True] * n if cons is None else [not x for x in cons] if cons.dtype == bool else [math.isnan(x) for x in cons]
        Af = [[A[i][j] for j in range(n) if free[j]] for i in range(n) if free[i]]
        req1.append('droptol|%s|%d|%s' % (fmat(Af), sum(free), fnum(d)))
    # ---------------- deconstruct / construct
    dcases = []
    shapes = {'u': 3, 'v': 2}
    for _ in range(N):
        args = {}; cons = {}
        for tname, n in shapes.items():
            if rng.random() < .6: args[tname] = numpy.array([float(rng.choice([-2, -1, 0, 1, 5])) for _ in range(n)])
            r = rng.random()
            if r < .35: cons[tname] = numpy.array([rng.random() < .5 for _ in range(n)], dtype=bool)
            elif r < .7: cons[tname] = numpy.array([float(rng.choice([-3, 0, 7])) if rng.random() < .5 else math.nan for _ in range(n)])
        dcases.append((args, cons))
    req2 = ['decon|%d|%s|%s' % (n, fopt(args.get(tn)), fcons(cons.get(tn))) for args, cons in dcases for tn, n in shapes.items()]
    # ---------------- LinesearchNewton relaxation loop
    lcases = [(2. ** -6, 1., [(.5, False), (.5, False), (2., True)]), (2. ** -3, 1., [(.25, False), (.25, False)]), (2. ** -6, 1., [(1., False)])]
    for _ in range(N):
        lcases.append((rng.choice([2. ** -3, 2. ** -6, 2. ** -20]), rng.choice([1., 1., .5]),
                       [(rng.choice([.5, .25, .75, .125, 2., 1., 1.5, .5, .5]), rng.random() < .3) for _ in range(rng.randint(0, 6))]))
    req3 = ['ls|%s|%s|%s' % (fnum(fr), fnum(r0), ' '.join('%s:%d' % (fnum(sc), ac) for sc, ac in script)) for fr, r0, script in lcases]
    allans = yield req1 + req2 + req3
    ans1, ans2, ans3 = allans[:len(req1)], allans[len(req1):len(req1) + len(req2)], allans[len(req1) + len(req2):]

    # ---- droptol
    ndis = 0
    for (n, sym, d, A, b, cons, clean), a in zip(cases, ans1):
        u = function.Argument('u', (n,))
        An = numpy.array(A); bn = numpy.array(b)
        S = solver.System(.5 * (u @ (An @ u)) - bn @ u, trial='u') if sym else solver.System([An @ u - bn], trial='u')
        free = [True] * n if cons is None else [not x for x in cons] if cons.dtype == bool else [math.isnan(x) for x in cons]
        cval = [0.] * n if cons is None or cons.dtype == bool else [0. if math.isnan(x) else float(x) for x in cons]
        try:
            with quiet():
                ret = S.solve_constraints(droptol=d, constrain={} if cons is None else {'u': cons.copy()})
            x = ret['u']; real = fmask(numpy.isnan(x)[numpy.array(free, dtype=bool)])
        except (matrix.MatrixError, solver.SolverError) as e:
            x = None; real = 'raised ' + exc_name(e)
        except Exception as e:
            x = None; real = 'foreign %s: %s' % (exc_name(e), str(e)[:80])
        if sym and x is not None:
            try:
                with quiet():
                    xo = solver.optimize('u', .5 * (u @ (An @ u)) - bn @ u, droptol=d, constrain=None if cons is None else cons.copy())
                if not same_vec([float(v) for v in xo], [float(v) for v in x]):
                    ndis += 1; c.failing_input('optimize:droptol-differs', 'legacy optimize(droptol=) returns %r, System.solve_constraints %r' % (list(xo), list(x)), dict(op='optimize', A=A, b=b, droptol=repr(d), constrain=fcons(cons)))
                c.count('droptol:optimize-wrapper-compared')
            except Exception as e:
                ndis += 1; c.failing_input('optimize:droptol-differs', 'legacy optimize(droptol=) raised %s: %s where System.solve_constraints returned' % (exc_name(e), str(e)[:80]), dict(op='optimize', A=A, b=b, droptol=repr(d), constrain=fcons(cons)))
        c.case(('droptol', fmat(A), fnum(d), fcons(cons), sym), nontrivial=n > 1)
        c.count('droptol:' + ('returned' if x is not None else real.split(':')[0]))
        replay = dict(op='System.solve_constraints', A=A, b=b, droptol=repr(d), constrain=fcons(cons), symmetric=sym, real=real, model=a)
        c.sample(replay, limit=12)
        if x is not None:
            # specification: NaN exactly where the influence is below droptol; constraints kept; kept equations solved
            want = [free[j] and not any(free[i] and A[i][j] != 0 and abs(A[i][j]) > d for i in range(n)) for j in range(n)]
            got = [bool(math.isnan(v)) for v in x]
            bad = None
            if [g for g, f in zip(got, free) if f] != [w for w, f in zip(want, free) if f]:
                bad = ('solve-constraints:droptol-mask-wrong', 'NaN pattern %s differs from the entries whose influence is below droptol %s' % (fmask(got), fmask(want)))
            elif any((not f) and not same_num(float(v), cv) for v, f, cv in zip(x, free, cval)) and cons is not None and cons.dtype != bool:
                bad = ('solve-constraints:constraint-violated', 'constrained entries changed: %r' % list(x))
            else:
                x0 = [0. if g else float(v) for v, g in zip(x, got)]
                res = [sum(Fr(A[i][j]) * Fr(x0[j]) for j in range(n)) - Fr(b[i]) for i in range(n)]
                kept = [i for i in range(n) if free[i] and not got[i]]
                if clean and any(abs(res[i]) > Fr(1, 10**8) * (1 + max(abs(Fr(v)) for v in b)) for i in kept):
                    bad = ('solve-constraints:residual', 'kept equations are not satisfied: residual %r' % [float(res[i]) for i in kept])
            if bad:
                ndis += 1; c.failing_input(bad[0], 'System.solve_constraints: ' + bad[1], replay); continue
        if x is not None and real != a:
            ndis += 1; c.broken_no_input('corr:solve_constraints', 'model and System.solve_constraints disagree on the drop-tolerance mask', replay)
        elif x is not None:
            c.traces += 1
    c.obligation('corr:solve_constraints:droptol', ndis == 0, 'correspondence', '%d systems' % len(cases))

    # ---- deconstruct / construct
    ndis = 0
    uu, vv = function.Argument('u', (3,)), function.Argument('v', (2,))
    S2 = solver.System([uu * 2. - 1., vv * 3. - 1.], trial='u,v')
    it = iter(ans2)
    for args, cons in dcases:
        model = {tn: next(it).split('|') for tn in shapes}
        try:
            a2, x = S2.deconstruct({k: v.copy() for k, v in args.items()}, {k: v.copy() for k, v in cons.items()})
            full = S2.construct(a2, x.copy())
            real = 'ok'
        except Exception as e:
            real = 'foreign %s: %s' % (exc_name(e), str(e)[:80]); a2 = x = full = None
        key = tuple((tn, fopt(args.get(tn)), fcons(cons.get(tn))) for tn in shapes)
        c.case(('decon',) + key); c.count('decon:' + real.split()[0])
        replay = dict(op='System.deconstruct/construct', arguments={k: fvec(v) for k, v in args.items()}, constrain={k: fcons(v) for k, v in cons.items()}, real=real,
                      model={k: '|'.join(v) for k, v in model.items()})
        if full is None:
            ndis += 1; c.broken_no_input('corr:deconstruct', 'deconstruct/construct raised on valid input', replay); continue
        pos = 0; okc = True; spec_bad = None
        for tn, n in shapes.items():
            tmpl, mx, mcon, mexp = model[tn]
            nfree = int(numpy.isnan(a2[tn]).sum())
            xr = x[pos:pos + nfree]; pos += nfree
            a_, c_ = args.get(tn), cons.get(tn)
            want = [float(c_[j]) if c_ is not None and c_.dtype != bool and not math.isnan(c_[j]) else float(a_[j]) if a_ is not None else 0. for j in range(n)]
            if not same_vec(list(full[tn]), want):
                spec_bad = 'trial %s: round trip gives %r, expected %r' % (tn, list(full[tn]), want)
            okc = okc and same_vec(list(a2[tn]), parse_vec(tmpl)) and same_vec(list(xr), parse_vec(mx)) and same_vec(list(full[tn]), parse_vec(mcon)) and mcon == mexp
        if spec_bad:
            ndis += 1; c.failing_input('deconstruct:roundtrip-wrong', 'System.deconstruct/construct: ' + spec_bad, replay); continue
        if not okc or pos != len(x):
            ndis += 1; c.broken_no_input('corr:deconstruct', 'model and System.deconstruct/construct disagree', dict(replay, got=[{k: fvec(v) for k, v in a2.items() if k in shapes}, fvec(x)]))
        else:
            c.traces += 1
    c.obligation('corr:deconstruct-construct', ndis == 0, 'correspondence', '%d argument/constraint combinations on a two-trial system' % len(dcases))

    # ---- LinesearchNewton
    class Exhausted(Exception):
        pass

    class Proxy:
        def __init__(self, system):
            self._s = system; self.xs = []

        def __getattr__(self, name):
            return getattr(self._s, name)

        def assemble_jacobian_residual(self, arguments, x=None):
            self.xs.append(None if x is None else float(x[0]))
            return self._s.assemble_jacobian_residual(arguments, x)

    w = function.Argument('u', (1,))
    S1 = solver.System([w - 8.], trial='u')
    ndis = 0
    for (fr, r0, script), a in zip(lcases, ans3):
        log = []; state = dict(probe=False)

        def strat(res0, dres0, res1, dres1):
            if state['probe']:           # one extra accepted step to observe the next relaxation value
                state['probe'] = False
                return 1., True
            if len(log) >= len(script): raise Exhausted()
            log.append(script[len(log)])
            return log[-1]
        P = Proxy(S1)
        real = None; used = nxt = None
        try:
            with quiet():
                it2 = solver.LinesearchNewton(strategy=strat, failrelax=fr, relax0=r0)(P, arguments={'u': numpy.array([0.])}, constrain={})
                next(it2)
                n0 = len(P.xs)
                a1, _ = next(it2)
                ncalls = len(P.xs) - n0
                used = float(a1['u'][0]) / 8.
                relaxes = [x / 8. for x in P.xs[n0:]]
                if used != 1.:
                    try:
                        state['probe'] = True
                        n1 = len(P.xs); next(it2)
                    except Exhausted:
                        pass
                    if len(P.xs) > n1:
                        nxt = (P.xs[n1] - 8. * used) / (8. - 8. * used)
                real = 'accepted'
        except Exhausted:
            real = 'exhausted'; ncalls = len(log)
        except solver.SolverError as e:
            real = 'stuck'; ncalls = len(log)
        except AssertionError:
            real = 'assertion'; ncalls = len(log)
        except Exception as e:
            real = 'foreign %s: %s' % (exc_name(e), str(e)[:60]); ncalls = len(log)
        mf = a.split()
        c.case(('ls', fr, r0, tuple(script)), nontrivial=len(script) > 0); c.count('linesearch:' + real.split()[0])
        replay = dict(op='LinesearchNewton', failrelax=fr, relax0=r0, script=script, real=[real, used, nxt, ncalls], model=a)
        c.sample(replay, limit=14)
        if real == 'accepted':
            # specification: the step that became the iterate was accepted by the strategy, earlier ones were rejected
            if not script[ncalls - 1][1] if ncalls - 1 < len(script) else False:
                ndis += 1; c.failing_input('linesearch:rejected-step-accepted', 'LinesearchNewton turned a step that the strategy rejected into the next iterate', replay); continue
            want = Fr(r0)
            okr = True
            for i, rx in enumerate(relaxes):
                okr = okr and Fr(rx) == want
                want *= Fr(script[i][0]) if i < len(script) else 1
            same = mf[0] == 'accepted' and Fr(used) == Fr(mf[1]) and int(mf[3]) == ncalls and okr and (nxt is None or Fr(nxt) == Fr(mf[2]))
        else:
            same = mf[0] == real and (real == 'exhausted' or int(mf[1]) == ncalls)
        if not same:
            ndis += 1; c.broken_no_input('corr:LinesearchNewton', 'model and LinesearchNewton disagree on the relaxation bookkeeping', replay)
        else:
            c.traces += 1
    # ---- the shipped strategies must never accept a step to a non-finite residual (specification, exact)
    for strat in (solver.NormBased(), solver.MedianBased(), solver.NormBased(minscale=.125, acceptscale=.5, maxscale=4.), solver.MedianBased(quantile=.25)):
        for _ in range(8):
            n = rng.choice([1, 2, 4])
            res0 = numpy.array([float(rng.choice([-2, -1, 1, 3])) for _ in range(n)]); dres0 = -res0
            res1 = res0 * .5; res1[rng.randrange(n)] = rng.choice([math.nan, math.inf, -math.inf]); dres1 = -res0
            try:
                with quiet():
                    scale, accept = strat(res0, dres0, res1, dres1)
                got = (float(scale), bool(accept))
            except Exception as e:
                got = exc_name(e)
            c.case(('strategy-nonfinite', repr(strat), fvec(res0), fvec(res1))); c.count('linesearch-strategy:nonfinite')
            if got != (strat.minscale, False):
                ndis += 1
                c.failing_input('linesearch:nonfinite-step-accepted', '%r answers %r for a step to a non-finite residual (must reject with minscale)' % (strat, got),
                                dict(op='linesearch strategy', strategy=repr(strat), res0=fvec(res0), res1=fvec(res1)))
    c.obligation('corr:LinesearchNewton', ndis == 0, 'exploration', '%d scripted strategies + non-finite rule of NormBased / MedianBased' % len(lcases))



# ================================================================================================ end-to-end oracle streams

EPS = 2.220446049250313e-16


def fr_residual(A, x, rhs):
    """exact residual rhs - A x of float data (one column), as Fractions"""
    return [Fr(float(r)) - sum((Fr(float(a)) * Fr(float(v)) for a, v in zip(row, x)), Fr(0)) for row, r in zip(A, rhs)]


def gen_dense(rng, n):
    kind = rng.choice(['well', 'well', 'spd', 'nonsym', 'illcond', 'singular', 'scaled'])
    R = numpy.array([[rng.uniform(-1, 1) for _ in range(n)] for _ in range(n)])
    if kind == 'well': A = R + numpy.diag([n + 1.] * n)
    elif kind == 'spd': A = R @ R.T + numpy.eye(n)
    elif kind == 'nonsym': A = R + numpy.triu(numpy.ones((n, n))) * 3
    elif kind == 'illcond': A = numpy.array([[1. / (i + j + 1) for j in range(n)] for i in range(n)]) + 1e-10 * R
    elif kind == 'scaled': A = numpy.diag([10. ** rng.randint(-6, 6) for _ in range(n)]) @ (R + numpy.diag([n + 1.] * n))
    else:
        A = R + numpy.diag([n + 1.] * n)
        if n > 1 and rng.random() < .5: A[-1] = A[0]
        else: A[rng.randrange(n)] = 0.
    return kind, A


def e2e_linear(c, N, matrix):
    rng = c.rng
    probe = mk_matrix(matrix, numpy.eye(2))
    solvers = sorted(n[len('_solver_'):] for n in dir(probe) if n.startswith('_solver_'))
    precons = sorted(n[len('_precon_'):] for n in dir(probe) if n.startswith('_precon_') and not n.startswith('_precon_sym_') and callable(getattr(probe, n)))
    c.extra['numpy_backend_solvers'] = solvers; c.extra['numpy_backend_precons'] = precons
    nbad = 0
    follow = None
    TOL = [(0., 0.), (0., 0.), (1e-10, 0.), (0., 1e-8), (1e-6, 1e-3), (1e3, 0.), (0., 1.), (1e-14, 0.), (0., 1e-13)]
    for _ in range(N):
        if follow is not None:
            # same Matrix object (submatrix cache!), same rows, other columns
            n, kind, A, M, ncol, shape, rhs, atol, rtol, sol, args, lhs0, cons, rcons = follow; follow = None
            c.count('e2e-linear:matrix-object-reused')
        else:
            n = rng.choice([1, 2, 3, 4, 5, 6])
            kind, A = gen_dense(rng, n)
            M = mk_matrix(matrix, A, rng)
            ncol = rng.choice([None, None, None, 2])
            shape = (n,) if ncol is None else (n, ncol)
            rk = rng.choice(['random', 'range', 'zero', 'tiny', 'random'])
            rhs = numpy.array([rng.uniform(-2, 2) for _ in range(int(numpy.prod(shape)))]).reshape(shape)
            if rk == 'range': rhs = numpy.einsum('ij,j...->i...', A, rhs)
            elif rk == 'zero': rhs = numpy.zeros(shape)
            elif rk == 'tiny': rhs = rhs * 1e-14
            atol, rtol = rng.choice(TOL)
            sol = rng.choice(solvers)
            args = dict(solver=sol, atol=atol, rtol=rtol)
            if sol == 'arnoldi':
                if rng.random() < .4: args['precon'] = rng.choice(precons)
                if rng.random() < .2: args['truncate'] = rng.choice([1, 2, 5])
            elif (atol or rtol) and rng.random() < .2: args['precon'] = rng.choice(precons)
            if kind == 'spd' and rng.random() < .3: args['symmetric'] = True
            # constraints
            lhs0 = cons = rcons = None
            r = rng.random()
            if r < .25: pass
            elif r < .45 and ncol is None: lhs0 = numpy.array([rng.uniform(-1, 1) for _ in range(n)])
            elif r < .7:
                cons = numpy.array([rng.random() < .35 for _ in range(n)], dtype=bool)
                if rng.random() < .7 and ncol is None: lhs0 = numpy.array([rng.uniform(-1, 1) for _ in range(n)])
                if rng.random() < .3:
                    rows = list(cons); rng.shuffle(rows); rcons = numpy.array(rows, dtype=bool)
            else:
                cons = numpy.array([rng.uniform(-1, 1) if rng.random() < .35 else math.nan for _ in range(n)])
                if rng.random() < .5 and ncol is None: lhs0 = numpy.array([rng.uniform(-1, 1) for _ in range(n)])
            if cons is not None and cons.dtype == bool and 0 < cons.sum() < n and rng.random() < .6:
                perm = list(cons); rng.shuffle(perm)
                follow = (n, kind, A, M, ncol, shape, rhs, atol, rtol, sol, args, lhs0, numpy.array(perm, dtype=bool), (cons if rcons is None else rcons).copy())
        kw = {k: v.copy() for k, v in (('lhs0', lhs0), ('constrain', cons), ('rconstrain', rcons)) if v is not None}
        lenient = rng.random() < .15
        # ---- independent description
        lhs = numpy.zeros(shape) if lhs0 is None else (lhs0.copy() if ncol is None else numpy.repeat(lhs0[:, None], ncol, 1))
        J = numpy.ones(n, dtype=bool); pres = {}
        if cons is not None and cons.dtype == bool:
            J = ~cons; pres = {j: lhs[j] for j in range(n) if cons[j]}
        elif cons is not None:
            J = numpy.isnan(cons); pres = {j: cons[j] for j in range(n) if not J[j]}
            for j, v in pres.items(): lhs[j] = v
        I = J if rcons is None else ~rcons
        replay = dict(op='Matrix.solve end-to-end', kind=kind, A=A.tolist(), rhs=rhs.tolist(), args={k: v for k, v in args.items()}, lhs0=fopt(lhs0), constrain=fcons(cons), rconstrain=fopt(rcons, fmask), lenient=lenient)
        try:
            with quiet():
                x = (M.solve_leniently if lenient else M.solve)(rhs.copy(), **args, **kw)
            out = 'returned'
        except matrix.MatrixError as e:
            x = None; out = 'ToleranceNotReached' if isinstance(e, matrix.ToleranceNotReached) else 'MatrixError'
        except Exception as e:
            x = None; out = 'foreign'
            nbad += 1; c.failing_input('matrix-solve:foreign-exception:' + exc_name(e), 'Matrix.solve raised %s: %s instead of a matrix error' % (exc_name(e), str(e)[:80]), replay)
        c.case(('e2e-linear', kind, n, repr(A.tolist()), repr(rhs.tolist()), repr(sorted(args.items())), fopt(lhs0), fcons(cons), fopt(rcons, fmask)))
        c.count('e2e-linear:%s:%s' % (kind, out)); c.count('e2e-linear-solver:%s/%s' % (sol, args.get('precon', '-')))
        if x is None: continue
        cols = [None] if ncol is None else range(ncol)
        col = lambda v, k: v if k is None else v[:, k]
        r0n = max(math.sqrt(float(nsq([r for r, i in zip(fr_residual(A, col(lhs, k), col(rhs, k)), I) if i]))) for k in cols)
        tol = max(atol, rtol * r0n)
        bad = None
        if not numpy.isfinite(x).all():
            bad = ('matrix-solver:nonfinite-returned', 'non-finite entries in the returned vector')
        elif any(not numpy.array_equal(x[j], numpy.broadcast_to(v, x[j].shape)) for j, v in pres.items()):
            bad = ('matrix-solve:constraint-violated', 'constrained entries differ from the prescribed values')
        else:
            r1n = max(math.sqrt(float(nsq([r for r, i in zip(fr_residual(A, col(x, k), col(rhs, k)), I) if i]))) for k in cols)
            slack = 64 * n * EPS * (numpy.linalg.norm(A) * (numpy.linalg.norm(x) + numpy.linalg.norm(lhs)) + numpy.linalg.norm(rhs))
            if tol > 0 and not lenient:
                c.count('e2e-linear-mode:checked')
                if r1n > tol * (1 + 1e-9) + slack:
                    bad = ('matrix-solver:tolerance-violated', 'free-row residual %.3e exceeds the requested tolerance %.3e' % (r1n, tol))
            elif tol == 0:
                c.count('e2e-linear-mode:documented-unchecked')
                if kind in ('well', 'spd', 'nonsym') and args.get('precon', 'direct') == 'direct' and r1n > 1e-8 * (1 + r0n):
                    bad = ('matrix-solver:machine-precision-missed', 'well-conditioned system solved with atol=rtol=0 has relative residual %.3e' % (r1n / (1 + r0n)))
        if bad is None and lhs0 is not None and kind in ('well', 'spd', 'nonsym') and not lenient and args.get('precon', 'direct') == 'direct' and J.any():
            # linear problems: the result does not depend on the initial guess (free entries of lhs0)
            l2 = lhs0.copy(); l2[J] = [rng.uniform(-3, 3) for _ in range(int(J.sum()))]
            try:
                with quiet():
                    x2 = M.solve(rhs.copy(), **args, **dict(kw, lhs0=l2))
                scale = 1 + numpy.linalg.norm(x)
                lhs2 = l2.copy()
                for j, v in pres.items(): lhs2[j] = v
                tol2 = max(atol, rtol * math.sqrt(float(nsq([r for r, i in zip(fr_residual(A, lhs2, rhs), I) if i]))))
                # both answers are within their tolerance of the exact solution (each tolerance is relative to its own initial residual)
                lim = 1e-6 * scale + 1.01 * (tol + tol2) * numpy.linalg.norm(numpy.linalg.inv(A[numpy.ix_(I, J)]), 2)
                c.count('e2e-linear:initial-guess-compared')
                if numpy.linalg.norm(x2 - x) > lim:
                    bad = ('matrix-solve:initial-guess-dependence', 'result changes by %.3e when only the initial guess changes' % numpy.linalg.norm(x2 - x))
            except matrix.MatrixError:
                pass
        if bad:
            nbad += 1; c.failing_input(bad[0], 'Matrix.solve (%s, %s): %s' % (kind, sol, bad[1]), dict(replay, x=x.tolist()))
        else:
            c.traces += 1
    c.obligation('oracle:linear-end-to-end', nbad == 0, 'exploration', '%d dense systems x solvers %s x precons %s' % (N, solvers, precons))


def e2e_nonlinear(c, N, solver, matrix, function):
    rng = c.rng
    nbad = 0
    for _ in range(N):
        fam = rng.choice(['cubic', 'cubic', 'cubic', 'linear', 'linear', 'sqrt', 'square', 'atan'])
        if fam in ('cubic', 'linear'):
            n = rng.choice([1, 2, 3, 4])
            R0 = numpy.array([[rng.uniform(-1, 1) for _ in range(n)] for _ in range(n)])
            A = R0 @ R0.T + numpy.eye(n) * (n + 1)
            b = numpy.array([rng.uniform(-3, 3) for _ in range(n)])
            cc = rng.choice([.5, 2., 10.]) if fam == 'cubic' else 0.
            f = lambda x: A @ x + cc * x ** 3 - b
            u = function.Argument('u', (n,))
            Rf = A @ u + cc * u ** 3 - b if cc else A @ u - b
            Ef = .5 * (u @ (A @ u)) + .25 * cc * numpy.sum(u ** 4) - b @ u if cc else .5 * (u @ (A @ u)) - b @ u
            u0 = numpy.array([rng.uniform(-2, 2) for _ in range(n)])
            scale = numpy.linalg.norm(A) + numpy.linalg.norm(b) + 1
        else:
            n = 1
            u = function.Argument('u', (1,))
            if fam == 'sqrt':
                f = lambda x: numpy.sqrt(x) - 2.; Rf = numpy.sqrt(u) - 2.; u0 = numpy.array([rng.choice([100., 1., 4.5, .5, 30., 16.1])])
            elif fam == 'square':
                f = lambda x: x ** 2 - 4.; Rf = u ** 2 - 4.; u0 = numpy.array([rng.choice([0., 1., -3., 1e-9, 50.])])
            else:
                f = lambda x: numpy.arctan(x); Rf = numpy.arctan(u); u0 = numpy.array([rng.choice([.5, 1.2, 1.5, 3., -10.])])
            Ef = None; scale = 10.
        r = rng.random()
        cons = None
        if n > 1 and r < .3: cons = numpy.array([rng.random() < .4 for _ in range(n)], dtype=bool)
        elif n > 1 and r < .6: cons = numpy.array([rng.uniform(-1, 1) if rng.random() < .4 else math.nan for _ in range(n)])
        tol = rng.choice([1e-6, 1e-10, 1e-3])
        maxiter = rng.choice([60, 60, 5])
        sym = Ef is not None and rng.random() < .5
        names = ['default', 'newton', 'reuse', 'ls-norm', 'ls-median', 'pseudo', 'legacy-newton', 'legacy-newton-nols', 'legacy-pseudo']
        if fam == 'linear': names += ['direct', 'arnoldi', 'solve_linear', 'direct-tol0']
        if sym: names += ['minimize', 'legacy-minimize', 'legacy-optimize']
        how = rng.choice(names)
        free = numpy.ones(n, dtype=bool) if cons is None else ~cons if cons.dtype == bool else numpy.isnan(cons)
        want = u0.copy()
        if cons is not None and cons.dtype != bool: want[~free] = cons[~free]
        use_guess = rng.random() < .8 or fam in ('sqrt', 'square', 'atan') or (cons is not None and cons.dtype == bool)
        if not use_guess: want[free] = 0.; want[~free] = cons[~free] if cons is not None else want[~free]
        arguments = {'u': u0.copy()} if use_guess else {}
        constrain = {} if cons is None else {'u': cons.copy()}
        replay = dict(op='nonlinear solve', family=fam, how=how, tol=tol, maxiter=maxiter, u0=u0.tolist(), use_guess=use_guess, constrain=fcons(cons),
                      A=A.tolist() if fam in ('cubic', 'linear') else None, b=b.tolist() if fam in ('cubic', 'linear') else None, c=cc if fam in ('cubic', 'linear') else None)
        checked_tol = tol
        try:
            with quiet():
                if how.startswith('legacy') or how == 'solve_linear':
                    kw = dict(constrain=None if cons is None else cons.copy(), lhs0=u0.copy() if use_guess else None)
                    if how == 'legacy-newton': x = solver.newton('u', Rf, **kw).solve(tol=tol, maxiter=maxiter)
                    elif how == 'legacy-newton-nols': x = solver.newton('u', Rf, linesearch=None, **kw).solve(tol=tol, maxiter=maxiter)
                    elif how == 'legacy-pseudo': x = solver.pseudotime('u', Rf, u, 1., **kw).solve(tol=tol, maxiter=maxiter)
                    elif how == 'legacy-minimize': x = solver.minimize('u', Ef, **kw).solve(tol=tol, maxiter=maxiter)
                    elif how == 'legacy-optimize': x = solver.optimize('u', Ef, tol=tol, **kw)
                    else: x = solver.solve_linear('u', Rf, **kw); checked_tol = 0.
                else:
                    S = solver.System(Ef, trial='u') if sym else solver.System([Rf], trial='u')
                    m = dict(default=None, newton=solver.Newton(), reuse=solver.ReuseNewton(), pseudo=solver.Pseudotime(inertia=(u.as_evaluable_array,), timestep=1.),
                             direct=solver.Direct(), arnoldi=solver.Arnoldi(), minimize=solver.Minimize(), **{'ls-norm': solver.LinesearchNewton(), 'ls-median': solver.LinesearchNewton(strategy=solver.MedianBased()),
                             'direct-tol0': solver.Direct()})[how]
                    if how == 'direct-tol0': checked_tol = 0.
                    x = S.solve(arguments=arguments, constrain=constrain, tol=checked_tol, maxiter=maxiter, method=m)['u']
            out = 'returned'
        except (solver.SolverError, matrix.MatrixError) as e:
            x = None; out = exc_name(e)
        except Exception as e:
            x = None; out = 'foreign'
            sig = 'solve_linear:lhs0-rejected' if how == 'solve_linear' and 'lhs0 argument is invalid' in str(e) else 'nonlinear-solve:foreign-exception:' + exc_name(e)
            nbad += 1; c.failing_input(sig, '%s via %s raised %s: %s instead of a solver/matrix error' % (fam, how, exc_name(e), str(e)[:80]), replay)
        c.case(('e2e-nonlinear', repr(replay)), nontrivial=True); c.count('e2e-nonlinear:%s:%s' % (fam, out)); c.count('e2e-nonlinear-how:%s:%s' % (how, out))
        if x is None: continue
        x = numpy.asarray(x, dtype=float)
        with numpy.errstate(all='ignore'):
            res = numpy.linalg.norm(f(x)[free]) if numpy.isfinite(x).all() else math.nan
        bad = None
        if not numpy.isfinite(x).all():
            bad = ('nonlinear-solve:nonfinite-returned', 'non-finite solution %r' % x.tolist())
        elif not numpy.array_equal(x[~free], want[~free]):
            bad = ('nonlinear-solve:constraint-violated', 'constrained entries %r differ from the prescribed %r' % (x[~free].tolist(), want[~free].tolist()))
        elif math.isnan(res):
            bad = (('with-solve' if how.startswith('legacy') else 'system-solve') + ':nan-residual-accepted', 'residual at the returned solution %r is NaN' % x.tolist())
        elif checked_tol > 0 and res > checked_tol * (1 + 1e-6) + 1e-12 * scale * (1 + numpy.linalg.norm(x) ** 3):
            bad = ('nonlinear-solve:unconverged-accepted', 'residual norm %.3e at the returned solution exceeds tol %.1e' % (res, checked_tol))
        elif checked_tol == 0 and res > 1e-8 * scale * (1 + numpy.linalg.norm(x)):
            bad = ('nonlinear-solve:machine-precision-missed', 'direct solve with tol=0 leaves residual %.3e' % res)
        if bad:
            nbad += 1; c.failing_input(bad[0], '%s via %s: %s' % (fam, how, bad[1]), dict(replay, x=x.tolist()))
        else:
            c.traces += 1
    c.obligation('oracle:nonlinear-end-to-end', nbad == 0, 'exploration', '%d nonlinear / linear systems through System methods and legacy wrappers' % N)


def e2e_arnoldi_reuse(c, N, solver, matrix, function):
    """the Arnoldi method object is reused for a sequence of nearby linear systems A(y) u = b(y): every answer must still be certified"""
    rng = c.rng
    nbad = 0
    for _ in range(N):
        n = rng.choice([2, 3, 4])
        R0 = numpy.array([[rng.uniform(-1, 1) for _ in range(n)] for _ in range(n)])
        A = R0 + numpy.eye(n) * (n + 1); B = numpy.array([[rng.uniform(-1, 1) for _ in range(n)] for _ in range(n)])
        b = numpy.array([rng.uniform(-2, 2) for _ in range(n)])
        u = function.Argument('u', (n,)); y = function.Argument('y', ())
        S = solver.System([(A + B * y) @ u - b * (1. + y)], trial='u')
        m = solver.Arnoldi(maxiter=rng.choice([1, 2, 3]))
        tol = rng.choice([1e-6, 1e-10, 1e-3])
        cons = numpy.array([rng.uniform(-1, 1) if rng.random() < .3 else math.nan for _ in range(n)]) if rng.random() < .5 else None
        free = numpy.ones(n, dtype=bool) if cons is None else numpy.isnan(cons)
        for yv in [0.] + [rng.choice([.01, .1, -.05, 1., 0.]) for _ in range(3)]:
            replay = dict(op='Arnoldi reuse', A=A.tolist(), B=B.tolist(), b=b.tolist(), y=yv, tol=tol, constrain=fcons(cons))
            try:
                with quiet():
                    x = S.solve(arguments={'y': yv}, constrain={} if cons is None else {'u': cons.copy()}, tol=tol, maxiter=20, method=m)['u']
                out = 'returned'
            except (solver.SolverError, matrix.MatrixError) as e:
                x = None; out = exc_name(e)
            except Exception as e:
                x = None; out = 'foreign'
                nbad += 1; c.failing_input('arnoldi:foreign-exception:' + exc_name(e), 'reused Arnoldi raised %s: %s' % (exc_name(e), str(e)[:80]), replay)
            c.case(('arnoldi', repr(replay))); c.count('e2e-arnoldi-reuse:' + out)
            if x is None: continue
            res = numpy.linalg.norm(((A + B * yv) @ x - b * (1. + yv))[free]) if numpy.isfinite(x).all() else math.nan
            if not numpy.isfinite(x).all() or math.isnan(res) or res > tol * (1 + 1e-6) + 1e-12 or (cons is not None and not numpy.array_equal(x[~free], cons[~free])):
                nbad += 1; c.failing_input('arnoldi:uncertified-answer', 'reused Arnoldi returned %r with free residual %.3e (tol %.0e)' % (x.tolist(), res, tol), replay)
            else:
                c.traces += 1
    c.obligation('oracle:arnoldi-reuse', nbad == 0, 'exploration', '%d sequences of 4 nearby systems' % N)


def e2e_time(c, N, solver, matrix, function):
    rng = c.rng
    nbad = 0
    for _ in range(N):
        n = rng.choice([1, 2, 3])
        R0 = numpy.array([[rng.uniform(-1, 1) for _ in range(n)] for _ in range(n)])
        K = R0 @ R0.T + numpy.eye(n); Mm = numpy.diag([rng.uniform(.5, 2) for _ in range(n)])
        fv = numpy.array([rng.uniform(-1, 1) for _ in range(n)])
        u = function.Argument('u', (n,))
        theta = rng.choice([1., .5, .75]); dt = rng.choice([.5, .125, 1.])
        u0 = numpy.array([rng.uniform(-1, 1) for _ in range(n)])
        replay = dict(op='thetamethod', K=K.tolist(), M=Mm.tolist(), f=fv.tolist(), theta=theta, timestep=dt, u0=u0.tolist())
        try:
            with quiet():
                it = solver.thetamethod('u', K @ u - fv, Mm @ u, dt, theta, lhs0=u0.copy())
                got = list(itertools.islice(it, 4))
        except Exception as e:
            nbad += 1; c.failing_input('thetamethod:exception:' + exc_name(e), 'theta method raised %s: %s on a linear well-posed problem' % (exc_name(e), str(e)[:80]), replay); continue
        x = u0.copy(); ok = numpy.array_equal(got[0], u0)
        for g in got[1:]:
            x = numpy.linalg.solve(Mm / dt + theta * K, (Mm / dt - (1 - theta) * K) @ x + fv)
            ok = ok and numpy.isfinite(g).all() and numpy.linalg.norm(g - x) <= 1e-9 * (1 + numpy.linalg.norm(x))
        c.case(('theta', repr(replay))); c.count('e2e-time:theta=%s:%s' % (theta, 'ok' if ok else 'wrong'))
        if not ok:
            nbad += 1; c.failing_input('thetamethod:wrong-step', 'theta method iterates differ from the exact recurrence', dict(replay, got=[g.tolist() for g in got]))
        else:
            c.traces += 1
    # a nonlinear time-dependent system whose Newton solve fails for large steps (maxiter): step() must bisect or raise
    u, u0, t, t0 = function.Argument('u', (1,)), function.Argument('u0', (1,)), function.Argument('t', ()), function.Argument('t0', ())
    S = solver.System([u - u0 - (t - t0) * (1. - 50. * u ** 3)], trial='u')
    for _ in range(4 * N):
        ts = rng.choice([0., 1.]); h = rng.choice([.5, .25, .125, 1.]); us = rng.choice([0., .5, 2., -3.]); mr = rng.choice([0, 1, 2, 3]); mi = rng.choice([3, 4, 6, 10])
        replay = dict(op='System.step nonlinear', t=ts, timestep=h, u=us, maxretry=mr, maxiter=mi)
        try:
            with quiet():
                ret = S.step(arguments={'u': numpy.array([us]), 't': ts}, suffix='0', timearg='t', timestep=h, maxretry=mr, tol=1e-9, maxiter=mi, method=solver.Newton())
            out = 'returned'
        except (solver.SolverError, matrix.MatrixError) as e:
            ret = None; out = exc_name(e)
        except Exception as e:
            ret = None; out = 'foreign'
            nbad += 1; c.failing_input('step:foreign-exception:' + exc_name(e), 'System.step raised %s: %s' % (exc_name(e), str(e)[:80]), replay)
        c.case(('step-nl', repr(replay))); c.count('e2e-step-nonlinear:' + out)
        if ret is None: continue
        tt, ut, tp, up = float(ret['t']), float(ret['u'][0]), float(ret['t0']), float(ret['u0'][0])
        res = ut - up - (tt - tp) * (1. - 50. * ut ** 3)
        if tt != ts + h or not (ts <= tp < tt) or not math.isfinite(ut) or abs(res) > 1e-9 * (1 + 1e-6) + 1e-13:
            nbad += 1; c.failing_input('step-retry:time-not-bisected' if tt != ts + h else 'step:unconverged-accepted',
                                       'System.step returned t=%r (want %r), last sub-step from t0=%r, residual of the last sub-step %.3e' % (tt, ts + h, tp, res), dict(replay, ret={k: numpy.asarray(v).tolist() for k, v in ret.items()}))
        else:
            c.traces += 1
    c.obligation('oracle:time-stepping', nbad == 0, 'exploration', '%d theta-method runs and %d nonlinear steps' % (N, N))


def e2e_project(c, N, matrix):
    from nutils import mesh, function as fn
    rng = c.rng
    nbad = 0
    for _i in range(N):
        dim = rng.choice([1, 1, 2])
        shape = [rng.choice([1, 2, 3]) for _ in range(dim)]
        btype, deg = rng.choice([('std', 1), ('std', 2), ('spline', 2), ('spline', 1)])
        with quiet():
            topo, geom = mesh.rectilinear(shape)
            basis = topo.basis(btype, degree=deg)
        coef = [rng.choice([-1., .5, 2.]) for _ in range(dim)]
        p = rng.choice([1, deg])
        fun = sum(cf * geom[k] ** p for k, cf in enumerate(coef)) + 1.
        what = ['interior', 'boundary', 'constrained', 'nanfun', 'ptypes', 'boundary'][_i % 6]
        ptype = 'lsqr' if what != 'ptypes' else rng.choice(['convolute', 'nodal'])
        dom = topo
        if what == 'boundary':
            dom = topo.boundary[rng.choice(['left', 'right'] + (['top', 'bottom'] if dim == 2 else []))]
        cons = None
        if what == 'constrained':
            with quiet():
                cons = topo.boundary['left'].project(rng.choice([0., 3.]), onto=basis, geometry=geom, degree=2 * deg)
        if what == 'nanfun':
            fun = numpy.sqrt(geom[0] - .5 * shape[0])
        replay = dict(op='Topology.project', shape=shape, basis=[btype, deg], coef=coef, power=p, what=what, ptype=ptype)
        kw = dict(onto=basis, geometry=geom, degree=2 * deg, ptype=ptype)
        if ptype == 'nodal': kw.pop('degree')
        try:
            with quiet():
                r = dom.project(fun, constrain=cons, **kw)
                J = fn.J(geom)
                smp = dom.sample('gauss', 2 * deg)
                Am, bm = smp.integrate([numpy.einsum('i,j', basis, basis) * J, basis * fun * J])
            out = 'returned'
        except matrix.MatrixError as e:
            r = None; out = 'MatrixError'
        except Exception as e:
            r = None; out = 'foreign %s' % exc_name(e)
            if what != 'ptypes':
                nbad += 1; c.failing_input('project:foreign-exception:' + exc_name(e), 'Topology.project raised %s: %s' % (exc_name(e), str(e)[:80]), replay)
        c.case(('project', repr(replay))); c.count('e2e-project:%s:%s' % (what, out.split()[0]))
        if r is None: continue
        r = numpy.asarray(r, dtype=float)
        bad = None
        if what == 'nanfun':
            if numpy.isfinite(r).all() and not numpy.isfinite(bm).all():
                bad = ('project:nan-function-accepted', 'projection of a function that evaluates to NaN returned finite coefficients %r' % r.tolist())
        elif ptype == 'lsqr':
            supp = (abs(Am) > 1e-12).any(1)
            prescribed = numpy.zeros(len(r), dtype=bool) if cons is None else ~numpy.isnan(numpy.asarray(cons, dtype=float))
            if not numpy.array_equal(numpy.isnan(r), ~(supp | prescribed)):
                bad = ('project:droptol-mask-wrong', 'NaN pattern %s, but the dofs with support on the domain are %s' % (fmask(numpy.isnan(r)), fmask(supp)))
            elif cons is not None and not numpy.array_equal(r[prescribed], numpy.asarray(cons, dtype=float)[prescribed]):
                bad = ('project:constraint-violated', 'prescribed coefficients changed')
            else:
                x = numpy.where(numpy.isnan(r), 0., r)
                free = supp & ~prescribed
                res = (Am @ x - bm)[free]
                if free.any() and numpy.linalg.norm(res) > 1e-9 * (1 + numpy.linalg.norm(bm)):
                    bad = ('project:residual', 'normal equations of the free dofs are not satisfied: %.3e' % numpy.linalg.norm(res))
        else:
            if numpy.isinf(r).any():
                bad = ('project:nonfinite-returned', 'infinite coefficients')
        if bad:
            nbad += 1; c.failing_input(bad[0], 'Topology.project (%s, %s): %s' % (what, ptype, bad[1]), dict(replay, result=r.tolist()))
        else:
            c.traces += 1
    c.obligation('oracle:Topology.project', nbad == 0, 'exploration', '%d projections' % N)



def corpus_regressions(c, solver, matrix, function):
    """the recorded failing inputs of the pinned tree, re-run first on every run (root-cause signatures)"""
    from nutils import mesh
    u = function.Argument('u', (1,))
    sq = numpy.sqrt(u) - 2.
    M2 = lambda vals: matrix.assemble_csr(numpy.array(vals), numpy.array([0, 2, 4]), numpy.array([0, 1, 0, 1]), 2)
    nbad = 0

    def attempt(sig, what, fn, ok):
        nonlocal nbad
        try:
            with quiet():
                r = fn()
        except (solver.SolverError, matrix.MatrixError):
            c.count('corpus:raised'); c.case(('corpus', sig, what)); return
        except Exception as e:
            r = e
        c.case(('corpus', sig, what))
        if isinstance(r, Exception) or not ok(r):
            nbad += 1
            c.failing_input(sig, what + ' -> %s' % (repr(r)[:120],), dict(op='corpus', input=what, got=repr(r)[:300]))
        else:
            c.count('corpus:returned-ok')

    good_root = lambda x: numpy.isfinite(x).all() and float(numpy.ravel(x)[0]) >= 0 and abs(math.sqrt(float(numpy.ravel(x)[0])) - 2.) <= 1e-7
    attempt('system-solve:nan-residual-accepted', "System([sqrt(u)-2],trial='u').solve(arguments={'u':[100.]},tol=1e-8,method=Newton())",
            lambda: solver.System([sq], trial='u').solve(arguments={'u': numpy.array([100.])}, tol=1e-8, method=solver.Newton())['u'], good_root)
    attempt('with-solve:nan-residual-accepted', "newton('u',sqrt(u)-2,lhs0=[100.],linesearch=None).solve(tol=1e-8)",
            lambda: solver.newton('u', sq, lhs0=numpy.array([100.]), linesearch=None).solve(tol=1e-8), good_root)
    for vals, rhs, kw in (([2., 1., 1., 3.], [math.nan, 1.], {}), ([2., 1., 1., 3.], [math.nan, 1.], dict(atol=1e-8)), ([math.nan, 1., 1., 3.], [1., 1.], {}),
                          ([math.inf, 1., 1., 3.], [1., 1.], dict(solver='direct', atol=1e-8)), ([2., 1., 1., 3.], [math.inf, 1.], dict(rtol=1e-8))):
        attempt('matrix-solver:nan-residual-accepted', 'assemble_csr(%r,[0,2,4],[0,1,0,1],2).solve(%r,%r)' % (vals, rhs, kw),
                lambda: M2(vals).solve(numpy.array(rhs), **kw), lambda x: False)
    attempt('matrix-solve:constraint-violated', 'matrix.eye(3).solve(zeros((3,2)),constrain=[1.,2.,nan])',
            lambda: matrix.eye(3).solve(numpy.zeros((3, 2)), constrain=numpy.array([1., 2., math.nan])), lambda x: numpy.array_equal(x, [[1, 1], [2, 2], [0, 0]]))
    attempt('matrix-solve:foreign-exception:ValueError', 'matrix.eye(3).solve(zeros((3,2)),constrain=[nan,nan,nan])',
            lambda: matrix.eye(3).solve(numpy.zeros((3, 2)), constrain=numpy.full(3, math.nan)), lambda x: numpy.array_equal(x, numpy.zeros((3, 2))))
    v = function.Argument('v', (2,))
    attempt('solve_linear:lhs0-rejected', "solve_linear('v', eye(2)@v-1, lhs0=zeros(2))",
            lambda: solver.solve_linear('v', numpy.eye(2) @ v - 1., lhs0=numpy.zeros(2)), lambda x: numpy.allclose(x, 1.))

    from .c14_hist import ARNOLDI_COLUMNS
    if any(e.get('signature') == ARNOLDI_COLUMNS for e in c.findings):
        # recorded minimal input of the finding of the history stream (re-run on every run once it is registered, open or fixed)
        attempt(ARNOLDI_COLUMNS, 'assemble_csr([2.,1.,1.,3.],[0,2,4],[0,1,0,1],2).solve(array([[0.,2.],[0.,1.]]))  (default solver arnoldi, atol=rtol=0)',
                lambda: M2([2., 1., 1., 3.]).solve(numpy.array([[0., 2.], [0., 1.]])), lambda x: numpy.allclose(x, [[0., 1.], [0., 0.]], atol=1e-12))

    def project_nan():
        topo, geom = mesh.rectilinear([2])
        return topo.project(numpy.sqrt(geom[0] - 1.5), onto=topo.basis('std', degree=1), geometry=geom, degree=2)
    attempt('project:nan-function-accepted', "rectilinear([2]).project(sqrt(x-1.5), onto=std1, degree=2)", project_nan, lambda r: not numpy.isfinite(numpy.asarray(r, dtype=float)).all())
    c.obligation('oracle:recorded-failing-inputs', nbad == 0, 'exploration', 'recorded defects of the pinned tree re-run')


def guarded(c, name, fn, *args):
    """run an oracle stream; an unexpected exception while processing what the real code returned is reported as a broken
    correspondence (the unchanged tree never gets here), not as an infrastructure failure"""
    import traceback
    from .common import Infra
    try:
        return fn(c, *args)
    except Infra:
        raise
    except Exception as e:
        c.obligation('stream:' + name, False, 'correspondence', 'stream crashed')
        c.broken_no_input('stream-crashed:' + name, 'processing the results of the real code failed: %s: %s' % (exc_name(e), str(e)[:200]), dict(traceback=traceback.format_exc()[-2000:]))


def run_streams(c, gens):
    """drive generator streams: every `yield requests` is answered by the Lean model; all streams share one driver run per round"""
    import traceback
    from .common import Infra

    def advance(name, g, val=None, first=False):
        try:
            return next(g) if first else g.send(val)
        except StopIteration:
            return None
        except Infra:
            raise
        except Exception as e:
            c.obligation('stream:' + name, False, 'correspondence', 'stream crashed')
            c.broken_no_input('stream-crashed:' + name, 'processing the results of the real code failed: %s: %s' % (exc_name(e), str(e)[:200]), dict(traceback=traceback.format_exc()[-2000:]))
            return None
    pending = []
    for name, g in gens:
        req = advance(name, g, first=True)
        if req is not None: pending.append((name, g, req))
    while pending:
        flat = [l for _, _, req in pending for l in req]
        ans = c.model(flat)
        nxt = []; pos = 0
        for name, g, req in pending:
            a = ans[pos:pos + len(req)]; pos += len(req)
            r = advance(name, g, a)
            if r is not None: nxt.append((name, g, r))
        pending = nxt


def run(c):
    import nutils.matrix as matrix, nutils.solver as solver, nutils.function as function
    from .c14_hist import stream_history
    quick = c.tier == 'quick'
    c.rule = ('scripted streams: residual-norm event lists (finite / NaN / +-inf / exactly tol / raising / exhausted) x tol (also 0, negative, NaN, inf) x miniter x maxiter, '
              'tuple and iterator path; small integer matrices (dense / diagonal / singular / sparse / non-square / 0x0) x right-hand sides x scripted solver results '
              '(exact, perturbed, zero, NaN, inf, wrong length, MatrixError, other error) x dyadic atol/rtol x every constraint pattern (lhs0, boolean / NaN-float constrain, rconstrain, no rhs); '
              'failure scripts for System.step; matrices with entries around droptol; argument/constraint combinations for deconstruct; (scale, accept) scripts for the line search. '
              'end-to-end streams: random well / spd / non-symmetric / ill-conditioned / badly scaled / singular dense systems x every numpy-backend solver and preconditioner x tolerance modes x constraint patterns '
              'x 1 or 2 right-hand-side columns; histories of 3-8 solves / submatrix requests on ONE Matrix object (selections from a small pool shared by rows and columns, steps related to the previous one, '
              'rconstrain absent / the same array object as constrain / an equal copy / another mask, boolean and NaN-float constrain, integer index arrays), every step certified on its own; cubic / sqrt / square / atan / linear systems through every System method and legacy wrapper; theta method; projections. '
              'a case is distinct by its full input data; non-trivial when it has at least one event / row / constraint')
    c.assumptions += ['only the numpy matrix backend exists in this sandbox (no scipy, no mkl): solvers direct and arnoldi, preconditioners direct and diag',
                      'the Lean model takes the vector norm as a parameter; the driver uses the squared 2-norm with squared tolerances (exact in Q, decides like the 2-norm for tolerances >= 0); '
                      'cases whose float comparison is not provably on the same side as the exact one (relative gap < 1e-9, not an exact tie) are skipped and counted',
                      'scripted data is integer / dyadic so that NumPy float arithmetic is exact; end-to-end oracles recompute residuals exactly in Fractions and allow 64 n eps (|A|(|x|+|lhs|)+|b|) for the code\'s own float evaluation',
                      'atol = rtol = 0 is the documented "machine precision, unchecked" mode: only finiteness and constraints are demanded there (plus 1e-8 relative residual on well-conditioned systems)',
                      'overflow and signed zeros of IEEE floats are not modelled', 'multi-column right-hand sides are explored end-to-end only (the model is single-column)']
    broken = c.build_and_audit()
    with matrix.backend('numpy'):
        guarded(c, 'corpus', corpus_regressions, solver, matrix, function)
        run_streams(c, [('system-solve', stream_system_solve(c, 300 if quick else 20000, solver, matrix, function)),
                        ('matrix-solver', stream_matrix_solver(c, 300 if quick else 10000, matrix)),
                        ('matrix-solve', stream_matrix_solve(c, 400 if quick else 10000, matrix)),
                        ('step', stream_step(c, 150 if quick else 4000, solver, matrix, function)),
                        ('constraints', stream_constraints(c, 120 if quick else 3000, solver, matrix, function)),
                        ('history', stream_history(c, 500 if quick else 12000, matrix))])
        guarded(c, 'linear', e2e_linear, 150 if quick else 12000, matrix)
        guarded(c, 'nonlinear', e2e_nonlinear, 50 if quick else 4000, solver, matrix, function)
        guarded(c, 'arnoldi', e2e_arnoldi_reuse, 6 if quick else 400, solver, matrix, function)
        guarded(c, 'time', e2e_time, 6 if quick else 150, solver, matrix, function)
        guarded(c, 'project', e2e_project, 18 if quick else 480, matrix)
    for b in broken:
        c.broken_no_input('proof', b, dict(detail=b))
