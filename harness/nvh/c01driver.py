"""C01 (driver) — correspondence between the REAL `nutils._util.deep_replace_property` and its Lean model.

`stream(c, n)` is called from the C01 check.

Stream 1 (`corr:simplify-driver`): the real descriptor is installed on a harness-defined class hierarchy (plain
Python classes with `__reduce__`, interned through a dict so that `is` is structural equality; one subclass per
label so the loop message names the label).  A table-driven rewrite function (exact entries + one action per root
label: to a child, relabel, wrap = grow, swap, drop, constant) is generated from `c.rng`; tables deliberately
contain cycles, rewrites to subterms, to bigger terms and identities.  The same terms and table go to the Lean
model `Model/C01Driver.lean` (through `Drivers/C01Driver.lean`); compared exactly, per root (several roots are
accessed one after the other so the memo left in `__dict__` matters): outcome (result term | 'loop' + class of
the looping object | call budget exceeded), the number of calls of the rewrite function, and finally the complete
memo (every object's `__dict__` entry incl. the identity marker).  Constructor arguments are passed flat, or
wrapped in a tuple / list / dict next to an int label: such non-owner containers are transparent for the driver
(branches `_reduce` / terminal of the real code) and are not part of the model.

Stream 2 (`corr:simplify-memo`): on random evaluable DAGs from nvh.genexpr the real `Evaluable.simplified` must
behave as the model's theorems say for a pure rewrite function (`driver_idempotent`, `driver_fixpoint`, memo
validity): `e.simplified.simplified is e.simplified`, every Evaluable below a simplified tree is its own
simplified form, every original sub-object has a memo entry afterwards and that entry is a fixed point.
"""
import collections
from nutils import _util as util

LABELS = 6
FUEL = 200000


class Budget(Exception):
    pass


_world = [None]


class Owner:
    """base class carrying the real property"""

    def __init__(self, world, label, children):
        self.world = world
        self.label = label
        self.children = children

    def __reduce__(self):
        return self.world.reduce(self)

    @util.deep_replace_property
    def simp(obj):
        return _world[0].func(obj)


_classes = {}


def cls_of(label):
    if label not in _classes:
        _classes[label] = type('T%d' % label, (Owner,), {})
    return _classes[label]


class World:
    """one intern pool, one reduce style per label, one rewrite table"""

    def __init__(self, styles, maxcalls):
        self.pool = {}
        self.styles = styles
        self.maxcalls = maxcalls
        self.calls = 0
        self.exact = {}
        self.rules = {}
        self._flat = {}
        self._ser = {}

    # ---- interning
    def mk(self, label, children=()):
        children = tuple(children)
        key = (label,) + tuple(id(ch) for ch in children)
        obj = self.pool.get(key)
        if obj is None:
            for ch in children:
                assert isinstance(ch, Owner) and ch.world is self
            obj = self.pool[key] = cls_of(label)(self, label, children)
        return obj

    def flat_ctor(self, label):
        if label not in self._flat:
            self._flat[label] = lambda *ch: self.mk(label, ch)
        return self._flat[label]

    def seq_ctor(self, label, children):
        return self.mk(label, children)

    def dict_ctor(self, d):
        return self.mk(d['l'], d['c'])

    def reduce(self, obj):
        style = self.styles[obj.label % len(self.styles)]
        if style == 'flat':
            return self.flat_ctor(obj.label), obj.children
        if style == 'tuple':
            return self.seq_ctor, (obj.label, obj.children)
        if style == 'list':
            return self.seq_ctor, (obj.label, list(obj.children))
        if style == 'dict':
            return self.dict_ctor, ({'l': obj.label, 'c': obj.children},)
        raise AssertionError(style)

    # ---- the one-step function (mirror of Model/C01Driver.applyRules)
    def func(self, obj):
        self.calls += 1
        if self.calls > self.maxcalls:
            raise Budget()
        r = self.exact.get(obj)
        if r is not None:
            return r
        a = self.rules.get(obj.label)
        if a is None:
            return obj
        kind = a[0]
        if kind == 'arg':
            return obj.children[a[1]] if a[1] < len(obj.children) else obj
        if kind == 'relabel':
            return self.mk(a[1], obj.children)
        if kind == 'wrap':
            return self.mk(a[1], (obj,))
        if kind == 'swap':
            return self.mk(obj.label, obj.children[::-1])
        if kind == 'drop':
            return self.mk(obj.label, obj.children[1:])
        if kind == 'const':
            return a[1]
        raise AssertionError(kind)

    # ---- serialisation (prefix tokens `label nargs child...`)
    def ser(self, obj):
        s = self._ser.get(obj)
        if s is None:
            s = self._ser[obj] = ' '.join(['%d %d' % (obj.label, len(obj.children))] + [self.ser(ch) for ch in obj.children])
        return s


def gen_term(w, rng, depth, made):
    if made and rng.random() < .3:
        return rng.choice(made)
    if depth <= 0 or rng.random() < .25:
        t = w.mk(rng.randrange(LABELS))
    else:
        n = rng.choice([0, 1, 1, 2, 2, 3])
        t = w.mk(rng.randrange(LABELS), [gen_term(w, rng, depth-1, made) for _ in range(n)])
    made.append(t)
    return t


def subterms(t, acc=None):
    acc = [] if acc is None else acc
    if t not in acc:
        acc.append(t)
        for ch in t.children:
            subterms(ch, acc)
    return acc


def gen_case(rng):
    styles = [rng.choice(['flat', 'tuple', 'list', 'dict']) for _ in range(rng.choice([1, 2, 3]))]
    w = World(styles, maxcalls=rng.choice([3, 10, 40, 40]))
    made = []
    roots = [gen_term(w, rng, rng.choice([1, 2, 3, 4]), made) for _ in range(rng.choice([1, 1, 2, 3]))]
    if rng.random() < .3:
        roots.append(rng.choice(roots))           # second access of the same object: pure memo hit
    if rng.random() < .3:
        roots.append(rng.choice(made))            # access of a sub-object
    subs = [s for r in roots for s in subterms(r)]
    # rules per label
    profile = rng.choice(['shrinking', 'shrinking', 'mixed', 'mixed', 'wild'])
    rules = []
    for l in rng.sample(range(LABELS), rng.choice([0, 1, 2, 3, 4])):
        if profile == 'shrinking':
            kind = rng.choice(['arg', 'arg', 'drop', 'const0'])
        elif profile == 'mixed':
            kind = rng.choice(['arg', 'arg', 'drop', 'drop', 'relabel', 'swap', 'const', 'const0', 'const0'])
        else:
            kind = rng.choice(['arg', 'drop', 'relabel', 'relabel', 'swap', 'wrap', 'const'])
        if kind == 'arg':
            rules.append((l, ('arg', rng.choice([0, 0, 1, 2]))))
        elif kind == 'relabel':
            rules.append((l, ('relabel', rng.randrange(LABELS))))
        elif kind == 'wrap':
            rules.append((l, ('wrap', rng.randrange(LABELS))))
        elif kind == 'const':
            rules.append((l, ('const', rng.choice(subs))))
        elif kind == 'const0':
            rules.append((l, ('const', w.mk(rng.randrange(LABELS)))))
        else:
            rules.append((l, (kind,)))
    # exact entries
    exact = []
    for _ in range(rng.choice([0, 0, 1, 2, 3])):
        lhs = rng.choice(subs)
        k = rng.random()
        if k < .3 and lhs.children:
            rhs = rng.choice(subterms(lhs)[1:])            # to a proper subterm
        elif k < .4:
            rhs = w.mk(rng.randrange(LABELS), [lhs] * rng.choice([1, 2]))   # to a bigger term containing it: cycle
        elif k < .55:
            rhs = rng.choice(subs)                          # to some other term of the DAG (may close a cycle)
        elif k < .85:
            rhs = gen_term(w, rng, 2, made)                 # to a fresh term
        else:
            rhs = lhs                                       # identity
        exact.append((lhs, rhs))
    for l, a in rules:
        w.rules.setdefault(l, a)
    for lhs, rhs in exact:
        w.exact.setdefault(lhs, rhs)
    return w, roots, rules, exact, profile


def request(w, roots, rules, exact):
    def rule(l, a):
        if a[0] == 'const':
            return '%d const %s' % (l, w.ser(a[1]))
        return ' '.join(str(x) for x in (l,) + a)
    return 'run|%d|%d|%s|%s|%s' % (w.maxcalls, FUEL, ' ; '.join('%s , %s' % (w.ser(a), w.ser(b)) for a, b in exact),
                                   ' ; '.join(rule(l, a) for l, a in rules), ' ; '.join(w.ser(r) for r in roots))


def run_real(w, roots):
    """access the real property on every root in turn; returns (outcomes, memo)"""
    outs = []
    _world[0] = w
    try:
        for r in roots:
            w.calls = 0
            try:
                s = r.simp
                outs.append('done %s calls=%d' % (w.ser(s), w.calls))
            except Budget:
                outs.append('budget calls=%d' % w.maxcalls)
            except Exception as e:
                msg = str(e)
                if msg.endswith('.simp is caught in a loop') and msg.startswith('T'):
                    outs.append('loop %s calls=%d' % (msg[1:msg.index('.')], w.calls))
                else:
                    outs.append('exception %s: %s' % (type(e).__name__, msg[:80]))
    finally:
        _world[0] = None
    memo = set()
    identity = util.deep_replace_property.identity
    for obj in list(w.pool.values()):
        if 'simp' in obj.__dict__:
            v = obj.__dict__['simp']
            memo.add((w.ser(obj), '=' if v is identity else w.ser(v)))
    return outs, memo


def parse_answer(a):
    outs, _, memo = a.partition('|memo=')
    m = set()
    for e in memo.split('&'):
        if e:
            k, _, v = e.partition('>')
            m.add((k, v))
    return outs.split(';'), m


CORPUS = [
    # (styles, maxcalls, roots, rules, exact) in serialised form, built by hand: sharing, 2-cycle, growth, loop on own child
    (['flat'], 40, ['2 3 1 1 0 0 3 2 1 1 0 0 7 0 1 1 1 1 0 0'], [(1, ('arg', 0))], []),
    (['tuple', 'dict'], 40, ['5 2 4 0 1 1 0 0', '4 0'], [(1, ('relabel', 2)), (2, ('relabel', 1))], []),
    (['list'], 5, ['1 0'], [(1, ('wrap', 1))], []),
    (['dict'], 40, ['2 2 4 0 4 0'], [(1, ('arg', 0))], [('4 0', '3 2 1 1 0 0 1 1 0 0')]),
]


def parse_term(w, s):
    toks = s.split()
    def rec(i):
        l, n = int(toks[i]), int(toks[i+1]); i += 2
        ch = []
        for _ in range(n):
            t, i = rec(i); ch.append(t)
        return w.mk(l, ch), i
    t, i = rec(0)
    assert i == len(toks)
    return t


def corpus_case(entry):
    styles, maxcalls, roots, rules, exact = entry
    w = World(styles, maxcalls)
    roots = [parse_term(w, r) for r in roots]
    exact = [(parse_term(w, a), parse_term(w, b)) for a, b in exact]
    for l, a in rules: w.rules.setdefault(l, a)
    for a, b in exact: w.exact.setdefault(a, b)
    return w, roots, rules, exact, 'corpus'


def stream_driver(c, n):
    from . import exprcheck as X
    cases = [corpus_case(e) for e in CORPUS] + [gen_case(c.rng) for _ in range(n)]
    reqs = [request(w, roots, rules, exact) for w, roots, rules, exact, _ in cases]
    ans = c.model(reqs, driver='C01Driver')
    nbad = 0
    for (w, roots, rules, exact, profile), req, a in zip(cases, reqs, ans):
        kind, val = X.guarded(lambda: run_real(w, roots), 30)
        real_outs, real_memo = val if kind == 'ok' else ([kind + ' ' + repr(val)[:80]], set())
        if a == 'bad-request' or 'fuel' in a.split('|')[0].split(';') :
            from .common import Infra
            raise Infra('C01Driver model driver could not run request %r -> %r' % (req[:200], a[:100]))
        model_outs, model_memo = parse_answer(a)
        kinds = [o.split()[0] for o in real_outs]
        for k in kinds: c.count('driver:' + k)
        c.count('driver-profile:' + profile)
        rewrote = any(o.startswith('done') and o.split(' calls=')[0][5:] != w.ser(r) for o, r in zip(real_outs, roots))
        if rewrote: c.count('driver:done-with-rewrite')
        if any(v != '=' for _, v in real_memo): c.count('driver:memo-has-nonidentity')
        c.case(('driver', req), nontrivial=rewrote or 'loop' in kinds or 'budget' in kinds)
        if len(c.samples) < 8 and (rewrote or 'loop' in kinds):
            c.sample(dict(stream='simplify-driver', request=req, outcomes=real_outs, memo_entries=len(real_memo)), limit=8)
        if real_outs != model_outs or real_memo != model_memo:
            nbad += 1
            c.broken_no_input('corr:simplify-driver', 'real deep_replace_property and the Lean stack machine disagree (outcome, number of calls of func, or memo)',
                              dict(request=req, styles=w.styles, real=real_outs, model=model_outs,
                                   memo_only_real=sorted(real_memo - model_memo)[:10], memo_only_model=sorted(model_memo - real_memo)[:10]))
        else:
            c.traces += 1
    c.obligation('corr:simplify-driver', nbad == 0, 'correspondence', '%d tables x roots, outcomes/calls/memo compared exactly' % len(cases))


# ---------------------------------------------------------------- stream 2: real Evaluable.simplified

def sub_objects(root, owner):
    """all instances of `owner` reachable from root through constructor arguments (the traversal of the driver)"""
    seen, out, stack = set(), [], [root]
    while stack:
        obj = stack.pop()
        if id(obj) in seen:
            continue
        seen.add(id(obj))
        if isinstance(obj, owner):
            out.append(obj)
            _, args = obj.__reduce__()
            stack.extend(args)
        else:
            red = util._reduce(obj)
            if red:
                stack.extend(red[1])
    return out


def stream_memo(c, n):
    from nutils import evaluable as ev
    from . import genexpr, exprcheck as X
    identity = util.deep_replace_property.identity
    nbad = nok = 0
    for _ in range(n):
        try:
            e, g = genexpr.random_case(c.rng, depth=c.rng.choice([1, 2, 3, 4]))
        except Exception as ex:
            c.count('memo:generator-exception'); continue
        kind, s = X.guarded(lambda: e.simplified, 20)
        if kind != 'ok':
            c.count('memo:simplify-' + kind)      # loops / hangs / exceptions are judged by the C01 check proper
            continue
        problems = []
        def check(cond, what):
            if not cond: problems.append(what)
        def body():
            check(s.simplified is s, 'e.simplified.simplified is not e.simplified')
            check(e.simplified is s, 'second access of e.simplified returns another object')
            m = e.__dict__.get('simplified')
            check((m is identity) if s is e else (m is s), 'memo of e is not its simplified form')
            below = sub_objects(s, ev.Evaluable)
            for a in below:
                check(a.simplified is a, 'sub-object %s of a simplified tree is not simplified' % type(a).__name__)
            for a in sub_objects(e, ev.Evaluable):
                m = a.__dict__.get('simplified')
                check(m is not None, 'original sub-object %s has no memo after the access' % type(a).__name__)
                if m is not None:
                    r = a if m is identity else m
                    check(r.simplified is r, 'memo of sub-object %s is not a fixed point' % type(a).__name__)
            return len(below)
        kind2, val = X.guarded(body, 40)
        c.case(('memo', e.__nutils_hash__), nontrivial=s is not e)
        c.count('memo:changed' if s is not e else 'memo:unchanged')
        if kind2 != 'ok':
            problems.append('re-simplification of simplified objects: %s %r' % (kind2, val))
        if problems:
            nbad += 1
            c.broken_no_input('corr:simplify-memo', 'real Evaluable.simplified violates a consequence of the driver theorems: ' + problems[0],
                              dict(expr=X.describe(e, g.args), problems=problems[:10]))
        else:
            nok += 1; c.traces += 1
    c.obligation('corr:simplify-memo', nbad == 0 and nok > 0, 'correspondence', '%d real trees: idempotence, hereditary normality, memo fixed points' % nok)


def stream(c, n):
    stream_driver(c, n)
    stream_memo(c, max(10, n // 4))
