"""Serialiser of nutils evaluable DAGs for the Lean specification-level evaluator (Drivers/Expr.lean).

Every DataClass node is reduced with its own __reduce__ to (ClassName, args...) and emitted as one
entry of a topologically ordered node table with explicit sharing.  Nothing is interpreted here:
the meaning of each class lives in lean/NutilsVerif/Model/Expr.lean.
"""
import json, numbers
from fractions import Fraction
import numpy


def rat(x):
    if isinstance(x, (bool, numpy.bool_)):
        return '1' if x else '0'
    if isinstance(x, (int, numpy.integer)):
        return str(int(x))
    if isinstance(x, (float, numpy.floating)):
        if not numpy.isfinite(x):
            raise ValueError('non-finite value')
        f = Fraction(float(x))
        return str(f.numerator) if f.denominator == 1 else '%d/%d' % (f.numerator, f.denominator)
    if isinstance(x, Fraction):
        return str(x.numerator) if x.denominator == 1 else '%d/%d' % (x.numerator, x.denominator)
    raise ValueError('cannot serialise %r' % type(x))


def array_json(a):
    a = numpy.asarray(a)
    if a.dtype.kind == 'c':
        raise ValueError('complex data')
    return dict(shape=list(a.shape), data=[rat(x) for x in a.reshape(-1).tolist()] if a.dtype.kind != 'f' else [rat(x) for x in a.reshape(-1)])


class Serializer:
    def __init__(self):
        from nutils import evaluable, types
        self.ev, self.types = evaluable, types
        self.nodes = []
        self.ids = {}
        self.classes = set()

    def arg(self, a):
        ev, types = self.ev, self.types
        if isinstance(a, ev.Evaluable):
            return {'r': self.node(a)}
        if a is None:
            return None
        if isinstance(a, (bool, numpy.bool_)):
            return bool(a)
        if isinstance(a, (int, numpy.integer)):
            return int(a)
        if isinstance(a, str):
            return a
        if isinstance(a, (tuple, list)):
            return [self.arg(x) for x in a]
        if isinstance(a, types.frozenmultiset):
            return {'ms': [self.arg(x) for x in a]}
        if isinstance(a, types.arraydata):
            v = numpy.asarray(a)
            if v.dtype.kind == 'c':
                return {'o': 'complex-arraydata'}
            return {'a': dict(dtype={'b': 'bool', 'i': 'int', 'f': 'float'}[v.dtype.kind], **array_json(v))}
        if a in (bool, int, float, complex):
            return {'t': a.__name__}
        if type(a).__name__ == 'MulVar':
            return repr(a).split('.')[-1]
        if type(a).__name__ == '_LoopId':
            return {'loop': repr(a)}
        return {'o': type(a).__name__}

    def node(self, e):
        i = self.ids.get(id(e))
        if i is not None:
            return i
        cls, args = e.__reduce__()
        name = cls.__name__
        if name in ('Add', 'Sum', 'Inflate', 'LoopSum') and getattr(e, 'dtype', None) == bool:
            name += '@bool'   # boolean addition is logical or (Multiply/Product on bool are and = the numeric product)
        entry = [name] + [self.arg(a) for a in args]
        self.classes.add(cls.__name__)
        self.nodes.append(entry)
        self._keep = getattr(self, '_keep', []); self._keep.append(e)  # keep alive so id() stays unique
        i = self.ids[id(e)] = len(self.nodes) - 1
        return i


def request(exprs, arguments, symbolic=(), cmp=()):
    """exprs: list of evaluable arrays; arguments: name -> ndarray (concrete) ; symbolic: name -> shape"""
    s = Serializer()
    roots = [s.node(e) for e in exprs]
    args = {k: array_json(v) for k, v in arguments.items()}
    for k, shape in dict(symbolic).items():
        args[k] = dict(shape=list(shape), sym=True)
    return json.dumps(dict(nodes=s.nodes, roots=roots, args=args, cmp=[list(p) for p in cmp]), separators=(',', ':')), s


def result_matches(res, value):
    """compare one Lean result object with a numpy array exactly"""
    if 'error' in res:
        return False
    v = numpy.asarray(value)
    if list(v.shape) != res['shape']:
        return False
    try:
        return array_json(v)['data'] == res['data']
    except ValueError:
        return False
