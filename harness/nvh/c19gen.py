"""C19 helper: source ASTs of the documented expression grammar, printers (v2 / v1 syntax), the
index-notation *reading* of an AST on exact data (the specification oracle), single-character edits.

AST nodes (plain tuples):
  ('num', text)                         integer or decimal literal (text as printed)
  ('var', name, idx)                    idx: string of letters / single numerals
  ('call', name, idx, expr)             function call with generated-axes indices
  ('paren', expr) ('jump', expr) ('mean', expr)
  ('pow', item, ('int', k) | ('paren', expr))
  ('term', [factor, ...])               factor = item or pow
  ('frac', term, term)
  ('expr', neg, [(sub, frac_or_term), ...])     sub of the first entry is ignored
"""
from fractions import Fraction
import re
import itertools
import numpy

LETTERS = 'ijklmnpq'


class Reject(Exception):
    """the reading rejects the AST: a documented rule is violated"""


class Degenerate(Exception):
    """division by zero or similar: no value to compare"""


# ---------------------------------------------------------------------------------------------- first-order jets

class Jet:
    """value and gradient (exact): enough to read one gradient operator"""
    __slots__ = ('v', 'g')

    def __init__(self, v, g=None):
        self.v = Fraction(v); self.g = tuple(Fraction(x) for x in (g if g is not None else (0, 0)))

    @staticmethod
    def of(x):
        if isinstance(x, numpy.ndarray) and x.ndim == 0: x = x[()]
        return x if isinstance(x, Jet) else Jet(x)

    def __add__(self, o): o = Jet.of(o); return Jet(self.v + o.v, [a + b for a, b in zip(self.g, o.g)])
    __radd__ = __add__
    def __neg__(self): return Jet(-self.v, [-a for a in self.g])
    def __sub__(self, o): return self + (-Jet.of(o))
    def __rsub__(self, o): return Jet.of(o) + (-self)
    def __mul__(self, o): o = Jet.of(o); return Jet(self.v * o.v, [a * o.v + self.v * b for a, b in zip(self.g, o.g)])
    __rmul__ = __mul__
    def __truediv__(self, o):
        o = Jet.of(o)
        return Jet(self.v / o.v, [(a * o.v - self.v * b) / (o.v * o.v) for a, b in zip(self.g, o.g)])
    def __rtruediv__(self, o): return Jet.of(o) / self
    def ipow(self, e):
        if e == 0: return Jet(1)
        return Jet(self.v ** e, [e * self.v ** (e - 1) * a for a in self.g])
    def __eq__(self, o): o = Jet.of(o); return self.v == o.v and self.g == o.g
    def __hash__(self): return hash((self.v, self.g))
    def __abs__(self): return max([abs(self.v)] + [abs(a) for a in self.g])
    def __float__(self): return float(self.v)
    def __repr__(self): return 'Jet(%s;%s)' % (self.v, ','.join(map(str, self.g)))


def _div(a, b):
    if isinstance(b, Jet):
        if b.v == 0: raise Degenerate('division by zero')
        return Jet.of(a) / b
    if b == 0: raise Degenerate('division by zero')
    if isinstance(a, Jet): return a / b
    return Fraction(a) / b


# ---------------------------------------------------------------------------------------------- context

class Context:
    """variables (name -> integer array), functions (name -> (generated shape, exact function))"""

    def __init__(self, rng):
        self.vars = {}
        self.fns = {}
        shapes = [()]
        for nd in (1, 2, 3):
            shapes += list(itertools.product((2, 3), repeat=nd))
        shapes += [(2, 2, 3, 2), (3, 2, 2, 3)]
        pretty = {(): ['s', 'r', 'μ'], (2,): ['a', 'b'], (3,): ['c', 'basis'], (2, 2): ['A', 'E'], (2, 3): ['B'], (3, 2): ['C'], (3, 3): ['D'],
                  (2, 2, 2): ['T']}
        self.by_shape = {}
        for sh in shapes:
            names = list(pretty.get(sh, [])) + ['v' + ''.join(map(str, sh)) if sh else 'v']
            for n in names:
                vals = [rng.choice([1, -1, 2, -2, 3, -3, 4, 5, -5, 7]) for _ in range(int(numpy.prod(sh, dtype=int)))]
                self.vars[n] = numpy.array(vals, dtype=object).reshape(sh)
            self.by_shape[sh] = names
        # functions: generated shape, exact pointwise definition  out[..., *gen] = fn(u, gen-multi-index)
        self.fns = {
            'f': ((), lambda u, k: 2 * u + 1),
            'h': ((), lambda u, k: u * u),
            'g': ((2,), lambda u, k: u * (1, 10)[k[0]] + k[0]),
            'w': ((3,), lambda u, k: u * (k[0] + 2) - 1),
            'G': ((2, 3), lambda u, k: u * (k[0] + 1) + k[1]),
        }

    def shape_of(self, name):
        v = self.vars.get(name)
        return None if v is None else v.shape


class SidedContext(Context):
    """every variable is  c0 + c1 x0 + c2 x1 + c3 x0 x1 + J[element]  with integer coefficient arrays, on the
    two-element mesh rectilinear([2, 1]); it is read at the interface point X = (1, 1/2) from either side"""
    X = (Fraction(1), Fraction(1, 2))

    def __init__(self, rng):
        super().__init__(rng)
        self.coef = {}
        for n, arr in self.vars.items():
            cs = [numpy.array([rng.choice([0, 1, -1, 2, -2, 3]) for _ in range(arr.size)], dtype=object).reshape(arr.shape) for _ in range(2)]
            cs.append(numpy.zeros(arr.shape, dtype=int).astype(object))    # no bilinear term: keeps the real evaluation cheap
            js = [numpy.array([rng.choice([0, 1, -1, 2, 4]) for _ in range(arr.size)], dtype=object).reshape(arr.shape) for _ in range(2)]
            self.coef[n] = (arr, cs[0], cs[1], cs[2], js[0], js[1])
        self.normal = None      # filled with the evaluated normal of side 0 (a leaf: not what C19 is about)
        self.elem_of_side = (0, 1)

    def jets(self, name, side):
        c0, c1, c2, c3, j0, j1 = self.coef[name]
        x0, x1 = self.X
        e = self.elem_of_side[side]
        out = numpy.empty(c0.shape, dtype=object)
        for i in itertools.product(*map(range, c0.shape)):
            v = c0[i] + c1[i] * x0 + c2[i] * x1 + c3[i] * x0 * x1 + (j0, j1)[e][i]
            out[i] = Jet(v, (c1[i] + c3[i] * x1, c2[i] + c3[i] * x0))
        return out


# ---------------------------------------------------------------------------------------------- generator

class Gen:
    def __init__(self, rng, ctx, maxdepth=6, sides=False, gradient=False, v1=False, core=False):
        self.rng, self.ctx, self.maxdepth, self.sides, self.gradient, self.v1, self.core = rng, ctx, maxdepth, sides, gradient, v1, core
        self.budget = 20

    def top(self, free, depth):
        """a fresh expression with a random size budget (number of items)"""
        self.budget = self.rng.choice([2, 4, 6, 8, 12, 16, 24, 40])
        return self.expr(free, depth, set())

    def fresh(self, avoid, n=None):
        c = [l for l in LETTERS if l not in avoid]
        return self.rng.choice(c) if c else None

    def expr(self, free, depth, avoid):
        """free: list of (letter, length); returns (ast, summed letters)"""
        r = self.rng
        nterms = r.choice([1, 1, 1, 2, 2, 3]) if depth > 0 and self.budget > 0 else 1
        neg = r.random() < .2
        terms, summed = [], set()
        for k in range(nterms):
            fr = list(free)
            if k: r.shuffle(fr)
            t, s = self.frac(fr, depth, set(avoid))
            terms.append((bool(k) and r.random() < .4, t)); summed |= s
        return ('expr', neg, terms), summed

    def frac(self, free, depth, avoid):
        if depth > 0 and self.budget > 0 and self.rng.random() < .2:
            n, s1 = self.term(free, depth - 1, avoid)
            d, s2 = self.term([], depth - 1, avoid | s1 | {l for l, _ in free})
            return ('frac', n, d), s1 | s2
        return self.term(free, depth, avoid)

    def term(self, free, depth, avoid):
        r = self.rng
        k = r.choice([1, 1, 2, 2, 3]) if depth > 0 else r.choice([1, 1, 2])
        if self.budget <= 0: k = 1
        slots = [[] for _ in range(k)]
        for ix in free:
            slots[r.randrange(k)].append(ix)
        avoid = set(avoid) | {l for l, _ in free}
        mine = set()
        for _ in range(r.choice([0, 0, 1, 1, 2]) if self.budget > 0 else 0):
            l = self.fresh(avoid)
            if l is None: break
            n = r.choice([2, 2, 3])
            avoid.add(l); mine.add(l)
            a, b = r.randrange(k), r.randrange(k)
            slots[a].append((l, n)); slots[b].append((l, n))
        factors = []
        if r.random() < .25:
            factors.append(('num', r.choice(['2', '3', '1', '0', '10', '007', '42'] if self.core else
                                            ['2', '3', '1', '0', '10', '1.5', '.5', '2.', '1e1', '2.5e-1'] + ([] if self.v1 else ['1_0', '007']))))
        summed = set(mine)
        for sl in slots:
            r.shuffle(sl)
            f, s = self.power(sl, depth, avoid)
            factors.append(f); summed |= s; avoid |= s
        return ('term', factors), summed

    def power(self, idx, depth, avoid):
        r = self.rng
        if r.random() < .2:
            base, s = self.item(idx, depth, avoid)
            if depth > 0 and r.random() < .35:
                e, s2 = self.expr([], depth - 1, avoid | s | {l for l, _ in idx})
                return ('pow', base, ('paren', e)), s | s2
            return ('pow', base, ('int', r.choice([2, 2, 3, 1, 0, -1, -2]))), s
        return self.item(idx, depth, avoid)

    def item(self, idx, depth, avoid):
        r = self.rng
        self.budget -= 1
        if self.budget <= 0: depth = 0
        letters = [l for l, _ in idx]
        dups = {l for l in letters if letters.count(l) > 1}
        opts = ['var', 'var']
        if depth > 0 and not dups and self.core:
            opts += ['paren', 'paren', 'jump', 'mean']
        elif depth > 0 and not dups:
            opts += ['paren', 'paren', 'call0']
            if self.sides: opts += ['jump', 'mean']
            if any(n == 2 for _, n in idx) and not self.v1: opts += ['call1']
            if any(n == 3 for _, n in idx) and not self.v1: opts += ['call1w']
            if self.gradient and any(n == 2 for _, n in idx): opts += ['grad', 'grad']
            if r.random() < .3 and not self.v1: opts += ['call1num', 'call2']
        if depth > 0 and not self.core and len(dups) == 1 and letters.count(next(iter(dups))) == 2 and dict(idx)[next(iter(dups))] == 2:
            opts += ['calltrace', 'calltrace']
        if self.sides and not idx and not self.core: opts += ['normalsq']
        kind = r.choice(opts)
        if kind == 'var':
            entries = [(l, n) for l, n in idx]
            # numerals selecting an element of an extra axis
            pos = 0
            while len(entries) < 4 and r.random() < .15:
                entries.insert(r.randint(0, len(entries)), (None, r.choice([2, 3])))
            shape = tuple(n for _, n in entries)
            names = self.ctx.by_shape.get(shape)
            if names is None:
                entries = [(l, n) for l, n in idx]; shape = tuple(n for _, n in entries); names = self.ctx.by_shape.get(shape)
            if names is None:   # no variable of this shape: a parenthesised product of two smaller ones
                h = len(idx) // 2
                a, s1 = self.item(idx[:h], 0, avoid); b, s2 = self.item(idx[h:], 0, avoid)
                cross = {l for l, _ in idx[:h]} & {l for l, _ in idx[h:]}
                return ('paren', ('expr', False, [(False, ('term', [a, b]))])), s1 | s2 | cross
            s = ''.join(l if l is not None else str(r.randrange(n)) for l, n in entries)
            return ('var', r.choice(names), s), set(letters) & dups
        sub = depth - 1
        if kind in ('paren', 'jump', 'mean'):
            e, s = self.expr(list(idx), sub, avoid)
            return (kind, e), s
        if kind == 'call0':
            e, s = self.expr(list(idx), sub, avoid)
            return ('call', r.choice(['f', 'h']), '', e), s
        if kind in ('call1', 'call1w', 'grad'):
            n = 3 if kind == 'call1w' else 2
            cand = [ix for ix in idx if ix[1] == n]
            gi = r.choice(cand)
            rest = list(idx); rest.remove(gi)
            saved = self.sides, self.gradient
            if kind == 'grad': self.sides = self.gradient = False     # first-order jets: nothing non-smooth below a gradient
            try:
                e, s = self.expr(rest, sub, avoid | {gi[0]})
            finally:
                self.sides, self.gradient = saved
            return ('call', {'call1': 'g', 'call1w': 'w', 'grad': '∇'}[kind], gi[0], e), s
        if kind == 'call1num':
            e, s = self.expr(list(idx), sub, avoid)
            name, n = r.choice([('g', 2), ('w', 3)])
            return ('call', name, str(r.randrange(n)), e), s
        if kind == 'call2':
            e, s = self.expr(list(idx), sub, avoid)
            return ('call', 'G', '%d%d' % (r.randrange(2), r.randrange(3)), e), s
        if kind == 'calltrace':
            d = next(iter(dups))
            rest = list(idx); rest.remove((d, 2))
            name = r.choice(['g', '∇'] if self.gradient else ['g'])
            saved = self.sides, self.gradient
            if name == '∇': self.sides = self.gradient = False
            try:
                e, s = self.expr(rest, sub, avoid | {d})
            finally:
                self.sides, self.gradient = saved
            return ('call', name, d, e), s | {d}
        if kind == 'normalsq':
            l = self.fresh(avoid)
            if l is None: return ('var', 's', ''), set()
            return ('paren', ('expr', False, [(False, ('term', [('var', 'n', l), ('var', 'n', l)]))])), {l}
        raise AssertionError(kind)


# ---------------------------------------------------------------------------------------------- printers

class Style:
    """whitespace decisions; `plain` prints the canonical form"""

    def __init__(self, rng=None):
        self.rng = rng

    def sp(self):  # separator between factors
        return ' ' if self.rng is None or self.rng.random() < .9 else '  '

    def pad(self):  # optional blanks at scope borders / string ends
        return '' if self.rng is None or self.rng.random() < .9 else ' '

    def op(self, o):
        if self.rng is None or self.rng.random() < .9: return ' %s ' % o
        return self.rng.choice(['  %s ' % o, ' %s  ' % o, '  %s  ' % o])


class BadOpStyle(Style):
    """canonical printing, except that the k-th binary operator is not surrounded by blanks on both sides"""

    def __init__(self, k, variant):
        super().__init__(None); self.k, self.variant, self.n = k, variant, 0

    def op(self, o):
        self.n += 1
        if self.n - 1 != self.k: return ' %s ' % o
        return [' %s' % o, '%s ' % o, o][self.variant]


def bad_operator_spacing(ast, rng, v1=False):
    """a printing of `ast` that violates the rule that + - / must be surrounded by whitespace (None if no operator)"""
    probe = BadOpStyle(-1, 0); pr(ast, probe, v1)
    if probe.n == 0: return None
    return pr(ast, BadOpStyle(rng.randrange(probe.n), rng.randrange(3)), v1)


def pr(node, st=None, v1=False):
    st = st or Style()
    k = node[0]
    if k == 'num':
        return node[1]
    if k == 'var':
        return node[1] + ('_' + node[2] if node[2] else '')
    if k == 'call':
        if v1 and node[1] == '∇':
            a = node[3]
            if a[0] == 'expr' and not a[1] and len(a[2]) == 1 and a[2][0][1][0] == 'term' and len(a[2][0][1][1]) == 1 and a[2][0][1][1][0][0] == 'var':
                var = a[2][0][1][1][0]
                return var[1] + '_' + var[2] + ',' + node[2]
            return '(' + pr(a, st, v1) + ')_,' + node[2]
        return node[1] + ('_' + node[2] if node[2] else '') + '(' + st.pad() + pr(node[3], st, v1) + st.pad() + ')'
    if k == 'paren':
        return '(' + st.pad() + pr(node[1], st, v1) + st.pad() + ')'
    if k == 'jump':
        return '[' + st.pad() + pr(node[1], st, v1) + st.pad() + ']'
    if k == 'mean':
        return '{' + st.pad() + pr(node[1], st, v1) + st.pad() + '}'
    if k == 'pow':
        e = node[2]
        return pr(node[1], st, v1) + '^' + (str(e[1]) if e[0] == 'int' else '(' + st.pad() + pr(e[1], st, v1) + st.pad() + ')')
    if k == 'term':
        s = pr(node[1][0], st, v1)
        for f in node[1][1:]:
            s += st.sp() + pr(f, st, v1)
        return s
    if k == 'frac':
        return pr(node[1], st, v1) + st.op('/') + pr(node[2], st, v1)
    if k == 'expr':
        s = ('-' + st.pad() if node[1] else '') + pr(node[2][0][1], st, v1)
        for sub, t in node[2][1:]:
            s += st.op('-' if sub else '+') + pr(t, st, v1)
        return s
    raise AssertionError(k)


def depth_of(node):
    k = node[0]
    if k in ('num', 'var'): return 0
    if k == 'call': return 1 + depth_of(node[3])
    if k in ('paren', 'jump', 'mean'): return 1 + depth_of(node[1])
    if k == 'pow': return max(depth_of(node[1]), 1 + depth_of(node[2][1]) if node[2][0] == 'paren' else 0)
    if k == 'term': return max(depth_of(f) for f in node[1])
    if k == 'frac': return max(depth_of(node[1]), depth_of(node[2]))
    if k == 'expr': return max(depth_of(t) for _, t in node[2])


def constructs(node, acc=None):
    acc = set() if acc is None else acc
    k = node[0]
    if k == 'num': acc.add('float' if any(c in node[1] for c in '.e') else 'int')
    elif k == 'var':
        acc.add('var%d' % len(node[2]))
        if any(c.isdigit() for c in node[2]): acc.add('numeral-index')
        if len(set(node[2])) < len(node[2]): acc.add('var-trace')
    elif k == 'call':
        acc.add('call%d' % len(node[2])); constructs(node[3], acc)
        if node[1] == '∇': acc.add('gradient')
    elif k in ('paren', 'jump', 'mean'): acc.add(k); constructs(node[1], acc)
    elif k == 'pow':
        acc.add('pow-' + node[2][0]); constructs(node[1], acc)
        if node[2][0] == 'paren': constructs(node[2][1], acc)
    elif k == 'term':
        if len(node[1]) > 1: acc.add('product')
        for f in node[1]: constructs(f, acc)
    elif k == 'frac': acc.add('fraction'); constructs(node[1], acc); constructs(node[2], acc)
    elif k == 'expr':
        if node[1]: acc.add('leading-minus')
        if len(node[2]) > 1: acc.add('sum')
        if any(s for s, _ in node[2][1:]): acc.add('subtract')
        for _, t in node[2]: constructs(t, acc)
    return acc


# ---------------------------------------------------------------------------------------------- the reading (oracle)

TRACK = {'max': 1}


class Val:
    """labels: free index letters in documented order; arr: object array of exact values, axes = labels;
    summed: letters summed somewhere inside (they count as used twice)"""

    def __init__(self, labels, arr, summed):
        self.labels, self.arr, self.summed = list(labels), arr, set(summed)
        for x in arr.flat:      # largest intermediate magnitude: scale of the rounding errors of the float evaluation
            try:
                m = abs(x)
                if m > TRACK['max']: TRACK['max'] = m
            except TypeError:
                pass


def _literal(text):
    t = text.replace('_', '')
    if any(c in t for c in '.eE'):
        m, _, e = t.lower().partition('e')
        return Fraction(m if m != '.' else '0') * Fraction(10) ** int(e or 0)
    return Fraction(int(t))


def _contract(factors, summed_sets):
    """einsum-style reading of a product: factors = [(arr, labels)], an index occurring twice is summed, the
    others stay in order of first occurrence; more than two occurrences (counting indices summed inside a
    factor twice) is a violation of the documented rule"""
    count = {}
    for _, labels in factors:
        for l in labels: count[l] = count.get(l, 0) + 1
    seen = set()
    for s in summed_sets:
        for l in s:
            if l in seen or l in count: raise Reject('index %s occurs more than twice' % l)
        seen |= set(s)
    length = {}
    for arr, labels in factors:
        for ax, l in enumerate(labels):
            if length.setdefault(l, arr.shape[ax]) != arr.shape[ax]:
                raise Reject('index %s is assigned to axes with different lengths' % l)
    for l, c in count.items():
        if c > 2: raise Reject('index %s occurs more than twice' % l)
    free = []
    for _, labels in factors:
        for l in labels:
            if count[l] == 1 and l not in free: free.append(l)
    dummy = [l for l, c in count.items() if c == 2]
    out = numpy.empty([length[l] for l in free], dtype=object)
    for fi in itertools.product(*[range(length[l]) for l in free]):
        env = dict(zip(free, fi)); tot = 0
        for di in itertools.product(*[range(length[l]) for l in dummy]):
            env.update(zip(dummy, di)); p = 1
            for arr, labels in factors:
                p = p * arr[tuple(env[l] for l in labels)]
            tot = tot + p
        out[fi] = tot
    return free, out, seen | set(dummy)


class Reader:
    """reads an AST on one data set.  `leaf(name)` gives the exact array of a variable, `fn(name)` a pair
    (generated shape, function(arr) -> arr with generated axes appended), `jump`/`mean` act on Val arrays via
    the two-sided reader (see Sided)."""

    def __init__(self, ctx):
        self.ctx = ctx

    def leaf(self, name):
        return self.ctx.vars.get(name)

    def call(self, name, arr):
        if name in ('abs', 'sign'):
            out = numpy.empty(arr.shape, dtype=object)
            for i in itertools.product(*map(range, arr.shape)):
                u = arr[i]; v = u.v if isinstance(u, Jet) else u
                if isinstance(u, Jet) and v == 0 and any(u.g): raise Degenerate('kink')
                sg = (v > 0) - (v < 0)
                out[i] = (u * sg if name == 'abs' else (Jet(sg) if isinstance(u, Jet) else Fraction(sg)))
            return (), out
        if name not in self.ctx.fns: return None
        gen, fn = self.ctx.fns[name]
        out = numpy.empty(arr.shape + gen, dtype=object)
        for i in itertools.product(*map(range, arr.shape)):
            for k in itertools.product(*map(range, gen)):
                out[i + k] = fn(arr[i], k)
        return gen, out

    def flipped(self):
        return self     # constants look the same from both sides

    def jump(self, node):
        a, b = self.read(node), self.flipped().read(node)
        return Val(a.labels, _o(b.arr - a.arr), a.summed)

    def mean(self, node):
        a, b = self.read(node), self.flipped().read(node)
        return Val(a.labels, _o((a.arr + b.arr) * Fraction(1, 2)), a.summed)

    def indexed(self, arr, labels0, idx, summed):
        """attach index entries `idx` to the trailing len(idx) axes of arr (leading axes carry labels0)"""
        if arr.ndim - len(labels0) != len(idx): raise Reject('wrong number of indices')
        labels = list(labels0); sel = [slice(None)] * len(labels0)
        for ax, ch in enumerate(idx, len(labels0)):
            if ch.isdigit() and ch in '0123456789':
                if int(ch) >= arr.shape[ax]: raise Reject('numeral out of range')
                sel.append(int(ch))
            elif 'a' <= ch <= 'z':
                sel.append(slice(None)); labels.append(ch)
            else:
                raise Reject('bad index symbol')
        arr = arr[tuple(sel)]
        if not isinstance(arr, numpy.ndarray):
            a = numpy.empty((), dtype=object); a[()] = arr; arr = a
        free, out, s = _contract([(arr, labels)], [summed])
        return Val(free, out, s)

    def read(self, node):
        k = node[0]
        if k == 'num':
            a = numpy.empty((), dtype=object); a[()] = _literal(node[1])
            return Val([], a, ())
        if k == 'var':
            arr = self.leaf(node[1])
            if arr is None: raise Reject('unknown variable')
            return self.indexed(arr, [], node[2], ())
        if k == 'call':
            arg = self.read(node[3])
            r = self.call(node[1], arg.arr)
            if r is None: raise Reject('unknown function')
            return self.indexed(r[1], arg.labels, node[2], arg.summed)
        if k == 'paren':
            return self.read(node[1])
        if k == 'jump':
            return self.jump(node[1])
        if k == 'mean':
            return self.mean(node[1])
        if k == 'pow':
            base = self.read(node[1])
            if node[2][0] == 'int':
                e = Val([], _o(Fraction(node[2][1])), ())
            else:
                e = self.read(node[2][1])
            if e.labels: raise Reject('exponent must be a scalar')
            if base.summed & e.summed or set(base.labels) & (base.summed | e.summed): raise Reject('index occurs more than twice')
            ev = e.arr[()]
            out = numpy.empty(base.arr.shape, dtype=object)
            for i in itertools.product(*map(range, base.arr.shape)):
                out[i] = _pow(base.arr[i], ev)
            return Val(base.labels, out, base.summed | e.summed)
        if k == 'term':
            vals = [self.read(f) for f in node[1]]
            for f in node[1][1:]:
                if f[0] == 'num' or (f[0] == 'pow' and f[1][0] == 'num'): raise Reject('number not at the start of a term')
            if len(vals) == 1: return vals[0]
            free, out, s = _contract([(v.arr, v.labels) for v in vals], [v.summed for v in vals])
            return Val(free, out, s)
        if k == 'frac':
            n, d = self.read(node[1]), self.read(node[2])
            if d.labels: raise Reject('denominator must be a scalar')
            if n.summed & d.summed or set(n.labels) & (n.summed | d.summed): raise Reject('index occurs more than twice')
            dv = d.arr[()]
            out = numpy.empty(n.arr.shape, dtype=object)
            for i in itertools.product(*map(range, n.arr.shape)):
                out[i] = _div(n.arr[i], dv)
            return Val(n.labels, out, n.summed | d.summed)
        if k == 'expr':
            vals = [self.read(t) for _, t in node[2]]
            first = vals[0]
            tot = _o(-first.arr) if node[1] else first.arr
            summed = set(first.summed)
            for (sub, _), v in zip(node[2][1:], vals[1:]):
                if set(v.labels) != set(first.labels) or len(v.labels) != len(first.labels):
                    raise Reject('terms have different indices')
                a = v.arr.transpose([v.labels.index(l) for l in first.labels])
                if a.shape != first.arr.shape: raise Reject('terms have different lengths')
                tot = _o(tot - a) if sub else _o(tot + a)
                summed |= v.summed
            return Val(first.labels, _o(tot), summed)
        raise AssertionError(k)


def _o(x):
    if isinstance(x, numpy.ndarray) and x.dtype == object: return x
    a = numpy.empty((), dtype=object); a[()] = x
    return a


def _pow(b, e):
    if isinstance(e, Jet):
        if any(e.g): raise Degenerate('exponent depends on position under a gradient')
        e = e.v
    e = Fraction(e)
    if isinstance(b, Jet):
        if e.denominator != 1 or abs(e) > 24 or abs(b.v.numerator) > 10**9 or b.v.denominator > 10**9: raise Degenerate('power')
        if e < 0 and b.v == 0: raise Degenerate('zero to a negative power')
        if e <= 0 and b.v == 0 and any(b.g): raise Degenerate('gradient of 0^0')
        return b.ipow(int(e))
    if e.denominator != 1: raise Degenerate('non-integer exponent')
    e = int(e)
    if e < 0 and b == 0: raise Degenerate('zero to a negative power')
    b = Fraction(b)
    if abs(e) > 24 or abs(b.numerator) > 10**9 or b.denominator > 10**9: raise Degenerate('power too large for an exact comparison')
    return b ** e


def aligned(val, order):
    """the array of `val` with axes in the order of the letters `order`"""
    return val.arr.transpose([val.labels.index(l) for l in order])


# ---------------------------------------------------------------------------------------------- core grammar: tokens for the Lean `Src` reader

def src_tokens(node):
    """prefix tokens of an AST of the `Src` grammar of Model/C19Src.lean (None if the tree is outside it, e.g. `1_0`)"""
    def item(n):
        if n[0] == 'num':
            if n[1].isdigit() and n[1].isascii(): return ['num'] + list(n[1]) + [';']
            m = re.fullmatch(r'(\d*)(?:\.(\d*))?(?:e(-?)(\d+))?', n[1])
            if not m or not n[1].isascii(): return None
            ip, fp, neg, ex = m.groups()
            return (['dec'] + list(ip) + [';'] + (['nofp'] if fp is None else ['fp'] + list(fp) + [';'])
                    + (['noex'] if ex is None else ['ex', '1' if neg else '0'] + list(ex) + [';']))
        if n[0] == 'call':
            if not n[1] or ' ' in n[1]: return None
            e = expr(n[3])
            return None if e is None else ['call', n[1], n[2] or '-'] + e
        if n[0] == 'var':
            if not n[1] or ' ' in n[1] or (n[2] and ' ' in n[2]): return None
            return ['var', n[1], n[2] or '-']
        if n[0] in ('paren', 'jump', 'mean'):
            e = expr(n[1])
            return None if e is None else [n[0]] + e
        return None
    def power(n):
        if n[0] != 'pow': return item(n)
        b = item(n[1])
        if b is None: return None
        if n[2][0] == 'int':
            return ['powint'] + b + ['1' if n[2][1] < 0 else '0'] + list(str(abs(n[2][1]))) + [';']
        e = expr(n[2][1])
        return None if e is None else ['powexpr'] + b + e
    def term(n):
        if n[0] != 'term': return None
        out = []
        for k, f in enumerate(n[1]):
            i = power(f)
            if i is None: return None
            out += (['prod'] if k == 0 else ['pcons']) + i
        return out + ['pnil']
    def frac(n):
        if n[0] == 'frac':
            a, b = term(n[1]), term(n[2])
            return None if a is None or b is None else ['frac'] + a + b
        return term(n)
    def expr(n):
        if n[0] != 'expr': return None
        out = []
        for k, (sub, t) in enumerate(n[2]):
            tt = frac(t)
            if tt is None: return None
            out += (['sum', '1' if n[1] else '0'] if k == 0 else ['tcons', '1' if sub else '0']) + tt
        return out + ['tnil']
    return expr(node)


# ---------------------------------------------------------------------------------------------- AST-level rule violations

def _nodes(node, kinds, acc):
    if node[0] in kinds: acc.append(node)
    k = node[0]
    if k == 'call': _nodes(node[3], kinds, acc)
    elif k in ('paren', 'jump', 'mean'): _nodes(node[1], kinds, acc)
    elif k == 'pow':
        _nodes(node[1], kinds, acc)
        if node[2][0] == 'paren': _nodes(node[2][1], kinds, acc)
    elif k == 'term':
        for f in node[1]: _nodes(f, kinds, acc)
    elif k == 'frac': _nodes(node[1], kinds, acc); _nodes(node[2], kinds, acc)
    elif k == 'expr':
        for _, t in node[2]: _nodes(t, kinds, acc)
    elif k == 'stack':      # v1 only (c19v1)
        for e in node[1]: _nodes(e, kinds, acc)
    return acc


def _replace(node, old, new):
    """copy of the tree with the node `old` (identity) replaced by `new`"""
    if node is old: return new
    k = node[0]
    R = lambda x: _replace(x, old, new)
    if k in ('num', 'var'): return node
    if k == 'call': return ('call', node[1], node[2], R(node[3]))
    if k in ('paren', 'jump', 'mean'): return (k, R(node[1]))
    if k == 'pow': return ('pow', R(node[1]), ('paren', R(node[2][1])) if node[2][0] == 'paren' else node[2])
    if k == 'term': return ('term', [R(f) for f in node[1]])
    if k == 'frac': return ('frac', R(node[1]), R(node[2]))
    if k == 'expr': return ('expr', node[1], [(sub, R(t)) for sub, t in node[2]])
    if k == 'stack': return ('stack', [R(e) for e in node[1]], node[2])
    return node     # leaves of the v1 length grammar (c19v1): dirac, cnum, arg


def violate(ast, rng, ctx):
    """one AST-level change that typically breaks a documented rule (the reading decides)"""
    kind = rng.choice(['rename-index', 'rename-index', 'swap-var', 'dup-factor', 'number-inside', 'drop-index', 'numeral', 'unknown-name',
                       'vector-denominator', 'vector-exponent', 'extra-index', 'unknown-function', 'third-occurrence', 'third-occurrence',
                       'sum-index-mismatch', 'frac-index-reuse', 'pow-index-reuse'])
    if kind in ('frac-index-reuse', 'pow-index-reuse'):
        cands = []
        for t in _nodes(ast, ('term',), []):
            letters = [c for f in t[1] if f[0] == 'var' for c in f[2] if c.isalpha()]
            for l in sorted(set(letters)):
                if letters.count(l) == 1: cands.append((t, l))
        if cands:
            t, l = rng.choice(cands)
            v = rng.choice(['a', 'c'])
            inner = ('term', [('var', v, l), ('var', v, l)])
            if kind == 'frac-index-reuse':
                return kind, _replace(ast, t, ('frac', t, inner))
            f = next(f for f in t[1] if f[0] == 'var' and l in f[2])
            return kind, _replace(ast, f, ('pow', f, ('paren', ('expr', False, [(False, inner)]))))
        kind = 'rename-index'
    if kind == 'third-occurrence':
        cands = []
        for t in _nodes(ast, ('term',), []):
            letters = [c for f in t[1] for v in [f[1] if f[0] == 'pow' else f] if v[0] == 'var' for c in v[2] if c.isalpha()]
            for l in sorted(set(letters)):
                if letters.count(l) >= 2: cands.append((t, l))
        if cands:
            t, l = rng.choice(cands)
            return kind, _replace(ast, t, ('term', t[1] + [('var', rng.choice(['a', 'c']), l)]))
        kind = 'dup-factor'
    if kind == 'sum-index-mismatch':
        exprs = [e for e in _nodes(ast, ('expr',), []) if len(e[2]) > 1]
        if exprs:
            e = rng.choice(exprs)
            extra = ('term', [('var', rng.choice(['a', 'c', 'A']), rng.choice(['i', 'q', 'ij']))])
            return kind, _replace(ast, e, ('expr', e[1], e[2] + [(rng.random() < .5, extra)]))
        kind = 'rename-index'
    indexed = [n for n in _nodes(ast, ('var', 'call'), []) if n[2]]
    used = sorted({c for n in indexed for c in n[2] if c.isalpha()}) or ['i']
    if kind in ('rename-index', 'drop-index', 'numeral', 'extra-index') and indexed:
        n = rng.choice(indexed); idx = n[2]; p = rng.randrange(len(idx))
        if kind == 'rename-index': idx = idx[:p] + rng.choice(used + ['i', 'j']) + idx[p+1:]
        elif kind == 'drop-index': idx = idx[:p] + idx[p+1:]
        elif kind == 'numeral': idx = idx[:p] + rng.choice('0123') + idx[p+1:]
        else: idx = idx[:p] + rng.choice(used) + idx[p:]
        return kind, _replace(ast, n, n[:2] + (idx,) + n[3:])
    variables = _nodes(ast, ('var',), [])
    if kind in ('swap-var', 'unknown-name') and variables:
        n = rng.choice(variables)
        name = rng.choice(sorted(ctx.vars)) if kind == 'swap-var' else rng.choice(['q', 'zz', 'sin', 'f', 'x_'])
        return kind, _replace(ast, n, ('var', name, n[2]))
    calls = _nodes(ast, ('call',), [])
    if kind == 'unknown-function' and calls:
        n = rng.choice(calls)
        return kind, _replace(ast, n, ('call', rng.choice(['q', 's', 'a', 'A']), n[2], n[3]))
    terms = _nodes(ast, ('term',), [])
    if terms:
        t = rng.choice(terms)
        if kind == 'dup-factor':
            f = rng.choice(t[1]); return kind, _replace(ast, t, ('term', t[1] + [f]))
        if kind == 'number-inside':
            return kind, _replace(ast, t, ('term', t[1] + [('num', rng.choice(['2', '1.5']))]))
        if kind == 'vector-denominator':
            return kind, _replace(ast, t, ('paren', ('expr', False, [(False, ('frac', ('term', [('num', '1')]), t))])))
        if kind == 'vector-exponent':
            return kind, _replace(ast, t, ('term', [('pow', ('var', 's', ''), ('paren', ('expr', False, [(False, t)])))]))
    return 'none', ast


# ---------------------------------------------------------------------------------------------- edits

def all_edits(s, alphabet):
    out = []
    n = len(s)
    for i in range(n):
        out.append(('del', s[:i] + s[i+1:]))
    for i in range(n + 1):
        for c in alphabet:
            out.append(('ins', s[:i] + c + s[i:]))
    for i in range(n):
        for c in alphabet:
            if c != s[i]: out.append(('rep', s[:i] + c + s[i+1:]))
    for i in range(n - 1):
        if s[i] != s[i+1]: out.append(('swap', s[:i] + s[i+1] + s[i] + s[i+2:]))
    return out


def random_edit(s, alphabet, rng):
    n = len(s)
    kind = rng.choice(['del', 'ins', 'rep', 'swap']) if n else 'ins'
    if kind == 'del':
        i = rng.randrange(n); return kind, s[:i] + s[i+1:]
    if kind == 'ins':
        i = rng.randint(0, n); return kind, s[:i] + rng.choice(alphabet) + s[i:]
    if kind == 'rep':
        i = rng.randrange(n); return kind, s[:i] + rng.choice(alphabet) + s[i+1:]
    if n < 2: return 'ins', s + rng.choice(alphabet)
    i = rng.randrange(n - 1); return kind, s[:i] + s[i+1] + s[i] + s[i+2:]


# ---------------------------------------------------------------------------------------------- two-sided reader

class SidedReader(Reader):
    def __init__(self, ctx, side=0):
        super().__init__(ctx); self.side = side

    def flipped(self):
        return SidedReader(self.ctx, 1 - self.side)

    def leaf(self, name):
        if name == 'n':
            out = numpy.empty((2,), dtype=object)
            for k in range(2): out[k] = Jet(self.ctx.normal[k] * (1 if self.side == 0 else -1))
            return out
        if name == 'x':
            out = numpy.empty((2,), dtype=object)
            out[0] = Jet(self.ctx.X[0], (1, 0)); out[1] = Jet(self.ctx.X[1], (0, 1))
            return out
        if name not in self.ctx.coef: return None
        return self.ctx.jets(name, self.side)

    def call(self, name, arr):
        if name == '∇':
            out = numpy.empty(arr.shape + (2,), dtype=object)
            for i in itertools.product(*map(range, arr.shape)):
                for k in range(2): out[i + (k,)] = Jet(Jet.of(arr[i]).g[k])
            return (2,), out
        return super().call(name, arr)
