"""C16 helper: purely syntactic description of a Python function body for the Lean `lockOK` decision.

`describe(src)` parses the source of one function with `ast` and returns the token list of the prefix
encoding understood by `lean/Drivers/C16.lean`:

    A lhs kind n r1..rn                       plain-variable assignment (kind: shalloc | lock | fresh | view)
    M acc|other nb b.. ni i.. nr r..          in-place modification of (a view of) the arrays b.., subscript names i..
                                              (pseudo name `#const`: a literal subscript, i.e. certainly a partial store)
    O n r..                                   any other simple statement (names read)
    W lock k <k statements>                   `with <Name>:`
    P nb binds.. nr reads.. k <k statements>  `with parallel.ctxrange(..) as v:`
    B nb binds.. nr reads.. k <k statements>  for / while / if / try / other with
    U                                         a statement this extractor does not understand

No decision is taken here: which arrays are shared, what aliases what, what is inside the parallel loop and whether
the locks suffice is decided by the Lean model (`Model/C16.lean`: `topL`, `clsS`, `lockOK`).
"""
import ast, builtins

MODULES = {'numpy', 'evaluable', 'parallel', 'multiprocessing', 'numeric', 'poly', 'treelog', 'warnings', 'collections',
           'log_stats', 'Stats', 'ret_tuple', 'log', 'function', 'types', 'util', 'itertools', 'functools', 'math', 'time', 'os'}
BUILTINS = set(dir(builtins))
FRESH_CALLS = {'numpy.empty', 'numpy.zeros', 'numpy.ones', 'numpy.arange', 'numpy.array', 'numpy.int_', 'numpy.sum', 'numpy.cumsum',
               'numpy.take', 'numpy.absolute', 'numpy.sign', 'numpy.power', 'numpy.reciprocal', 'numpy.linalg.det', 'numpy.linalg.norm',
               'numpy.argsort', 'bool', 'int', 'float', 'len', 'sorted'}
MUTATING_METHODS = {'fill', 'sort', 'setflags', 'resize', 'put', 'itemset', 'partition', 'byteswap', 'setfield', 'append', 'extend',
                    'update', 'pop', 'clear', 'insert', 'remove', 'setdefault', 'add', 'discard'}
MUTATING_FUNCS = {'numpy.copyto', 'numpy.put', 'numpy.place', 'numpy.putmask', 'numpy.fill_diagonal', 'numpy.put_along_axis'}


def dotted(node):
    """a.b.c -> 'a.b.c' for pure attribute chains on a Name, else None"""
    parts = []
    while isinstance(node, ast.Attribute):
        parts.append(node.attr); node = node.value
    if isinstance(node, ast.Name):
        parts.append(node.id)
        return '.'.join(reversed(parts))
    return None


def names(node, skip_index=False, only_index=False):
    """variable names occurring in an expression (module / builtin names removed, order of first occurrence).
    skip_index: leave out the names inside subscripts; only_index: only those."""
    out = []
    def visit(n, inidx):
        if isinstance(n, ast.Name):
            if n.id not in MODULES and n.id not in BUILTINS:
                if (only_index and inidx) or (skip_index and not inidx) or (not only_index and not skip_index):
                    if n.id not in out: out.append(n.id)
        elif isinstance(n, ast.Subscript):
            visit(n.value, inidx); visit(n.slice, True)
        elif isinstance(n, ast.Lambda) or isinstance(n, (ast.ListComp, ast.GeneratorExp, ast.SetComp, ast.DictComp)):
            bound = set()
            for g in getattr(n, 'generators', []):
                for t in ast.walk(g.target):
                    if isinstance(t, ast.Name): bound.add(t.id)
            if isinstance(n, ast.Lambda):
                bound |= {a.arg for a in n.args.args}
            for c in ast.iter_child_nodes(n):
                for m in ast.walk(c):
                    if isinstance(m, ast.Name) and m.id not in bound and m.id not in MODULES and m.id not in BUILTINS and m.id not in out:
                        if not only_index and not skip_index or (skip_index and not inidx) or (only_index and inidx):
                            out.append(m.id)
        else:
            for c in ast.iter_child_nodes(n): visit(c, inidx)
    visit(node, False)
    return out


def partial_const_index(target):
    """does a subscript of the target select by a literal (string / number) — i.e. certainly only a part of the object?"""
    for n in ast.walk(target):
        if isinstance(n, ast.Subscript):
            for m in ast.walk(n.slice):
                if isinstance(m, ast.Constant) and m.value is not Ellipsis and m.value is not None:
                    return True
    return False


def rhs_kind(v):
    if isinstance(v, ast.Call):
        f = dotted(v.func)
        if f in ('parallel.shempty', 'parallel.shzeros'): return 'shalloc'
        if f == 'multiprocessing.Lock': return 'lock'
        if f in FRESH_CALLS: return 'fresh'
        return 'view'
    if isinstance(v, (ast.BinOp, ast.UnaryOp, ast.Compare, ast.BoolOp, ast.Constant)):
        return 'fresh'
    return 'view'


def cnt(xs):
    return [str(len(xs))] + list(xs)


class Extractor:
    def __init__(self):
        self.stats = {}

    def count(self, k):
        self.stats[k] = self.stats.get(k, 0) + 1

    def mutate(self, acc, target, reads):
        self.count('M:' + ('acc' if acc else 'other'))
        base = names(target, skip_index=True); idx = names(target, only_index=True)
        if partial_const_index(target): idx = idx + ['#const']      # `a['key'] = ..`, `a[0] = ..`: not an overwrite of the whole object
        return [['M', 'acc' if acc else 'other'] + cnt(base) + cnt(idx) + cnt([r for r in reads if r not in base])]

    def other(self, node):
        self.count('O')
        return [['O'] + cnt(names(node))]

    def block(self, kind, binds, reads, body):
        toks = self.stmts(body)
        return [[kind] + cnt(binds) + cnt(reads) + [str(len(toks))] + [t for s in toks for t in s]]

    def assign_target(self, tg, value, reads):
        """statements for one assignment target"""
        if isinstance(tg, ast.Name):
            self.count('A:' + rhs_kind(value))
            return [['A', tg.id, rhs_kind(value)] + cnt(reads)]
        if isinstance(tg, (ast.Tuple, ast.List)):
            out = []
            for t in tg.elts:
                if isinstance(t, ast.Name):
                    self.count('A:view'); out.append(['A', t.id, 'view'] + cnt(reads))
                elif isinstance(t, ast.Starred) and isinstance(t.value, ast.Name):
                    self.count('A:view'); out.append(['A', t.value.id, 'view'] + cnt(reads))
                else:
                    out += self.mutate(False, t, reads)
            return out
        if isinstance(tg, (ast.Subscript, ast.Attribute)):
            return self.mutate(False, tg, reads)
        self.count('U'); return [['U']]

    def call_stmt(self, call):
        f = dotted(call.func)
        args = call.args
        kw = {k.arg: k.value for k in call.keywords if k.arg}
        allreads = names(call)
        if f is not None and f.startswith('numpy.') and f.endswith('.at') and len(args) >= 2:
            return self.mutate(f == 'numpy.add.at', args[0], [n for a in args[1:] for n in names(a)])
        if 'out' in kw:
            out = kw['out']
            acc = f == 'numpy.add' and len(args) == 2 and ast.dump(args[0]) == ast.dump(out)
            return self.mutate(acc, out, [n for a in args for n in names(a)])
        if f in MUTATING_FUNCS and args:
            return self.mutate(False, args[0], [n for a in args[1:] for n in names(a)])
        if isinstance(call.func, ast.Attribute) and call.func.attr in MUTATING_METHODS and dotted(call.func.value) not in MODULES \
                and not (f or '').split('.')[0] in MODULES:
            return self.mutate(False, call.func.value, [n for a in args for n in names(a)])
        return self.other(call)

    def stmt(self, s):
        if isinstance(s, ast.Assign):
            reads = names(s.value)
            out = []
            for tg in s.targets:
                out += self.assign_target(tg, s.value, reads)
            return out
        if isinstance(s, ast.AnnAssign) and s.value is not None:
            return self.assign_target(s.target, s.value, names(s.value))
        if isinstance(s, ast.AugAssign):
            return self.mutate(isinstance(s.op, ast.Add), s.target, names(s.value))
        if isinstance(s, ast.Expr):
            if isinstance(s.value, ast.Call):
                return self.call_stmt(s.value)
            return self.other(s.value)
        if isinstance(s, ast.With):
            item = s.items[0]
            rest = s.items[1:]
            body = s.body if not rest else [ast.With(items=rest, body=s.body)]
            ce = item.context_expr
            binds = names(item.optional_vars) if item.optional_vars is not None else []
            if isinstance(ce, ast.Name):
                self.count('W')
                toks = self.stmts(body)
                return [['W', ce.id, str(len(toks))] + [t for x in toks for t in x]]
            if isinstance(ce, ast.Call) and dotted(ce.func) == 'parallel.ctxrange':
                self.count('P')
                return self.block('P', binds, names(ce), body)
            self.count('B:with')
            return self.block('B', binds, names(ce), body)
        if isinstance(s, (ast.For, ast.While)):
            self.count('B:loop')
            binds = names(s.target) if isinstance(s, ast.For) else []
            reads = names(s.iter) if isinstance(s, ast.For) else names(s.test)
            out = self.block('B', binds, reads, s.body)
            if s.orelse: out += self.block('B', [], [], s.orelse)
            return out
        if isinstance(s, ast.If):
            self.count('B:if')
            out = self.block('B', [], names(s.test), s.body)
            if s.orelse: out += self.block('B', [], [], s.orelse)
            return out
        if isinstance(s, ast.Try):
            self.count('B:try')
            out = self.block('B', [], [], s.body)
            for h in s.handlers:
                out += self.block('B', [h.name] if h.name else [], [], h.body)
            if s.orelse: out += self.block('B', [], [], s.orelse)
            if s.finalbody: out += self.block('B', [], [], s.finalbody)
            return out
        if isinstance(s, (ast.Return, ast.Raise, ast.Assert, ast.Delete)):
            return self.other(s)
        if isinstance(s, (ast.Pass, ast.Global, ast.Nonlocal, ast.Break, ast.Continue, ast.Import, ast.ImportFrom)):
            self.count('O'); return [['O', '0']]
        self.count('U')
        return [['U']]

    def stmts(self, body):
        out = []
        for s in body:
            out += self.stmt(s)
        return out


def describe(src):
    """returns (tokens, stats) for the single function defined in `src`"""
    import textwrap
    tree = ast.parse(textwrap.dedent(src))
    fdefs = [n for n in tree.body if isinstance(n, ast.FunctionDef)]
    if len(fdefs) != 1:
        raise ValueError('expected exactly one function definition')
    ex = Extractor()
    toks = ex.stmts(fdefs[0].body)
    flat = [str(len(toks))] + [t for s in toks for t in s]
    for t in flat:
        if not t or any(c in t for c in ' |\n'):
            raise ValueError('illegal token %r' % t)
    return flat, ex.stats
